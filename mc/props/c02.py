"""C02 - peak parameters are taken at the true spectral peak (all weak orderings of the frequency bins, E1)."""
from __future__ import annotations

import math
import numpy as np

from mc import common, gen
from mc.common import Violation

PROP = "C02"
LEVEL = "exploration"
D2R = math.pi / 180.0
R2D = 180.0 / math.pi
G = 9.80665


def freq_fams(nf, seed):
    off = [0.0, 0.004, 0.009][seed % 3]
    return [
        ("log", (0.05 + off) * 1.1 ** np.arange(nf)),
        ("lin", 0.06 + off + 0.025 * np.arange(nf)),
        ("irr", np.cumsum(np.array([0.05 + off, 0.01, 0.03, 0.015, 0.05, 0.02, 0.06, 0.03, 0.04])[:nf])),
    ]


def patterns(nd):
    """directional patterns, each summing to exactly 1 (dyadic), pairwise distinct mean direction / spread"""
    P = []

    def mk(d):
        v = np.zeros(nd)
        for j, w in d.items():
            v[j % nd] += w
        return v

    P.append(mk({0: 1.0}))
    P.append(mk({1: 0.75, 2: 0.25}))
    P.append(mk({2: 1.0}))
    P.append(mk({3: 0.5, 4: 0.5}) if nd > 4 else mk({3: 0.5, 0: 0.5}))
    P.append(np.full(nd, 1.0 / nd))
    P.append(mk({nd - 1: 0.25, 0: 0.25, 1: 0.5}))
    P.append(mk({nd - 1: 0.625, nd - 2: 0.375}))
    return P


def realise(ranks, spacing):
    r = np.asarray(ranks, dtype=float)
    if spacing == "lin":
        return r * 1.0
    if spacing == "geo":
        return np.where(r == 0, 0.0, 0.5 * 3.0 ** r)
    if spacing == "off":  # no zeros: lowest rank positive
        return 0.25 + r * r
    if spacing == "eps":  # ranks separated by 2**-26 relative: distinct in float64, indistinguishable in float32
        return 1.0 + r * 2.0 ** -26
    raise ValueError(spacing)


# ---------------------------------------------------------------------------------------------
def ref_peaks(S):
    """interior strict local maxima and the admissible (largest, ties kept) subset"""
    n = len(S)
    loc = [i for i in range(1, n - 1) if S[i - 1] < S[i] and S[i] > S[i + 1]]
    if not loc:
        return [], []
    top = max(S[i] for i in loc)
    adm = [i for i in loc if S[i] >= top * (1 - 1e-13)]
    return loc, adm


def ref_tps(f, S, i):
    f1, f2, f3 = f[i - 1], f[i], f[i + 1]
    e1, e2, e3 = S[i - 1], S[i], S[i + 1]
    num = (f2 - f1) ** 2 * (e2 - e3) - (f2 - f3) ** 2 * (e2 - e1)
    den = (f2 - f1) * (e2 - e3) - (f2 - f3) * (e2 - e1)
    return 1.0 / (f2 - 0.5 * num / den)


def ref_alpha(f32, S, fp):
    """Phillips tail fit with the documented 0/1/many window rule. Returns (alpha, count_class, near_boundary)."""
    n = len(f32)
    lo, hi = 1.35 * fp, 2.0 * fp
    near = any(abs(x / lo - 1) < 3e-6 or abs(x / hi - 1) < 3e-6 for x in f32)
    pos = [i for i in range(n) if lo < f32[i] < hi]
    cls = "0" if not pos else ("1" if len(pos) == 1 else "many")
    if not pos:
        pos = [n - 2, n - 1]
    elif len(pos) == 1:
        pos = [pos[0] - 1, pos[0]] if pos[0] == n - 1 else [pos[0], pos[0] + 1]
    t1 = (2 * math.pi) ** 4 / G ** 2 / (pos[-1] - pos[0] + 1)
    t2 = sum(S[i] * float(f32[i]) ** 5 * math.exp(1.25 * (fp / float(f32[i])) ** 4) for i in pos)
    return t1 * t2, cls, near


GAMMA_P = [0.0378375, -0.13543292, 0.64087366, 0.32524949, 0.12974958]


def build(f, d, E):
    import xarray as xr

    N = E.shape[0]
    coords = {"site": np.arange(N), "freq": np.asarray(f, dtype=float)}
    dims = ["site", "freq"]
    if d is not None:
        coords["dir"] = np.asarray(d, dtype=float)
        dims.append("dir")
    return xr.DataArray(E, dims=dims, coords=coords, name="efth")


def eval_batch(f, d, E, layout="site"):
    """returns list of (idx, stat, clause, predicate, msg)"""
    common.load_wavespectra()
    if layout == "fdesc":
        return eval_fdesc(f, d, E)
    f = np.asarray(f, dtype=float)
    f32 = f.astype(np.float32).astype(float)
    nf = len(f)
    N = E.shape[0]
    da = build(f, d, E)
    if layout == "time_site" and N % 2 == 0:
        import xarray as xr
        a = N // 2
        da = da.isel(site=slice(0, a)).expand_dims(time=2).copy()
        vals = E.reshape((2, a) + E.shape[1:])
        da = xr.DataArray(vals, dims=("time",) + da.dims[1:], coords={**{k: v for k, v in da.coords.items() if k != "time"},
                                                                        "time": np.array(["2020-01-01", "2020-01-02"], dtype="datetime64[ns]")}, name="efth")
    sp = da.spec
    two = d is not None
    if two:
        dd = abs(d[1] - d[0]) if len(d) > 1 else 1.0
        S = E.sum(axis=2) * dd
    else:
        S = E
    bad = []
    res = {}

    def call(name, fn):
        try:
            res[name] = np.asarray(fn().values, dtype=float).reshape(N)
        except Exception as e:  # noqa
            res[name] = e

    call("tp", lambda: sp.tp(smooth=False))
    call("tps", lambda: sp.tp(smooth=True))
    call("fp", lambda: sp.fp(smooth=False))
    call("fps", lambda: sp.fp(smooth=True))
    call("alpha", lambda: sp.alpha())
    call("gamma_raw", lambda: sp.gamma(scaled=False))
    call("gamma", lambda: sp.gamma())
    if two:
        call("dp", lambda: sp.dp())
        call("dpm", lambda: sp.dpm())
        call("dpspr", lambda: sp.dpspr())
    for k, v in res.items():
        if isinstance(v, Exception):
            bad.append((-1, k, "raises-" + type(v).__name__, "", "%s raised %s: %s" % (k, type(v).__name__, v)))
    ok = {k: v for k, v in res.items() if not isinstance(v, Exception)}
    tail = f[-1] > 0.333
    df = np.gradient(f) if nf > 1 else np.array([1.0])
    nanstats = [k for k in ("tp", "tps", "fp", "fps", "dpm", "dpspr") if k in ok]
    for b in range(N):
        s = S[b]
        loc, adm = ref_peaks(s)
        if not adm:
            for k in nanstats:
                if not math.isnan(ok[k][b]):
                    bad.append((b, k, "nan-when-no-interior-peak", "", "%s=%r for a spectrum with no interior strict local maximum (E(f)=%s)" % (k, ok[k][b], s.tolist())))
            continue
        # which admissible bin did the discrete tp pick?
        pick = None
        if "tp" in ok:
            for i in adm:
                if abs(ok["tp"][b] * f32[i] - 1) <= 2e-6:
                    pick = i
                    break
            if pick is None:
                pred = "multi-peak" if len(loc) > 1 else "single-peak"
                bad.append((b, "tp", "largest-interior-local-maximum", pred, "tp(smooth=False)=%r, admissible peaks at f=%s (E(f)=%s)" % (
                    ok["tp"][b], [f[i] for i in adm], s.tolist())))
                continue
        cands = [pick] if pick is not None else adm
        pred = ("multi-peak" if len(loc) > 1 else "single-peak") + (",tied" if len(adm) > 1 else "")
        if "fp" in ok and not any(abs(ok["fp"][b] / f32[i] - 1) <= 2e-6 for i in cands):
            bad.append((b, "fp", "same-peak", pred, "fp(smooth=False)=%r not 1/tp at the peak bin f=%r" % (ok["fp"][b], f[cands[0]])))
        if "tps" in ok:
            good = False
            for i in cands:
                t = ref_tps(f32, s, i)
                if abs(ok["tps"][b] / t - 1) <= 3e-6 + 2e-6 * f32[i] / min(f32[i] - f32[i - 1], f32[i + 1] - f32[i]) * 0.1:
                    good = True
            if not good:
                bad.append((b, "tp(smooth)", "parabola-vertex", pred, "tp(smooth=True)=%r expected %r (E(f)=%s, f=%s)" % (
                    ok["tps"][b], ref_tps(f32, s, cands[0]), s.tolist(), f.tolist())))
            else:
                i = cands[0]
                v = ok["tps"][b]
                if not (1 / f32[i + 1] * (1 - 1e-6) < v < 1 / f32[i - 1] * (1 + 1e-6)):
                    bad.append((b, "tp(smooth)", "between-neighbours", pred, "tp(smooth=True)=%r outside (1/f[p+1], 1/f[p-1])" % v))
            if "fps" in ok and not (abs(ok["fps"][b] * ok["tps"][b] - 1) <= 1e-5):
                bad.append((b, "fp(smooth)", "same-peak", pred, "fp(smooth)=%r is not 1/tp(smooth)=%r" % (ok["fps"][b], 1 / ok["tps"][b])))
        i = cands[0]
        fp_s = 1.0 / float(np.float32(ref_tps(f32, s, i)))
        if "alpha" in ok:
            a, cls, near = ref_alpha(f32, s, fp_s)
            # fp used by the library is its own float32 smooth fp; re-evaluate with it to stay off the window boundaries
            if not near and "tps" in ok and not math.isnan(ok["tps"][b]):
                a2, cls2, near2 = ref_alpha(f32, s, float(np.float32(1.0 / np.float32(ok["tps"][b]))))
                if not near2 and cls2 == cls:
                    got = ok["alpha"][b]
                    if not (abs(got - a2) <= 2e-5 * abs(a2) + 1e-30 or abs(got - a) <= 2e-5 * abs(a) + 1e-30):
                        bad.append((b, "alpha", "tail-fit-at-peak", pred + ",window-" + cls, "alpha=%r expected %r (window class %s)" % (got, a2, cls)))
        # gamma only where the interior peak is the global maximum of E(f)
        if "gamma_raw" in ok and s[i] >= s.max() and len(adm) == 1:
            e = float((s * df).sum() + (0.25 * s[-1] * f[-1] if tail else 0.0))
            hs = 4 * math.sqrt(e)
            if "fps" in ok and not math.isnan(ok["fps"][b]):
                fpl = ok["fps"][b]
                epm = 0.3125 * hs ** 2 * fpl ** 4 * fpl ** -5 * math.exp(-1.25)
                g_raw = s[i] / epm
                exp_raw = g_raw if g_raw >= 1 else 1.0
                if abs(ok["gamma_raw"][b] - exp_raw) > 1e-5 * abs(exp_raw):
                    bad.append((b, "gamma(scaled=False)", "peak-over-PM-peak", pred, "gamma(scaled=False)=%r expected %r" % (ok["gamma_raw"][b], exp_raw)))
                if "gamma" in ok:
                    gs = sum(c * g_raw ** p for p, c in enumerate(GAMMA_P[::-1]))
                    exp_s = gs if gs >= 1 else 1.0
                    if abs(ok["gamma"][b] - exp_s) > 1e-5 * abs(exp_s):
                        bad.append((b, "gamma", "peak-over-PM-peak", pred, "gamma()=%r expected %r" % (ok["gamma"][b], exp_s)))
        if two:
            Eb = E[b]
            if "dpm" in ok:
                good = None
                for ii in cands:
                    sn = sum(Eb[ii, j] * math.sin(d[j] * D2R) for j in range(len(d)))
                    cs = sum(Eb[ii, j] * math.cos(d[j] * D2R) for j in range(len(d)))
                    if math.hypot(sn, cs) <= 1e-6 * Eb[ii].sum():
                        good = True  # direction undefined at this bin: don't care
                        break
                    ref = (math.atan2(sn, cs) * R2D) % 360
                    dif = abs((ok["dpm"][b] - ref + 180) % 360 - 180)
                    good = dif <= 2e-4
                    if good:
                        break
                if not good:
                    bad.append((b, "dpm", "mean-direction-at-peak-bin", pred, "dpm=%r expected %r at peak bin %d (row=%s)" % (ok["dpm"][b], ref, cands[0], Eb[cands[0]].tolist())))
                elif not (0 <= ok["dpm"][b] < 360 or math.isnan(ok["dpm"][b])):
                    bad.append((b, "dpm", "range", pred, "dpm=%r outside [0,360)" % ok["dpm"][b]))
            if "dpspr" in ok:
                good = False
                for ii in cands:
                    sn = sum(Eb[ii, j] * math.sin(d[j] * D2R) for j in range(len(d)))
                    cs = sum(Eb[ii, j] * math.cos(d[j] * D2R) for j in range(len(d)))
                    rad = 1 - math.hypot(sn, cs) / Eb[ii].sum()
                    got = ok["dpspr"][b]
                    grad = (got * D2R) ** 2 / 2
                    if rad < 1e-9 or abs(grad - rad) <= 2e-6 * rad + 1e-9:
                        good = True
                if not good:
                    bad.append((b, "dpspr", "spread-at-peak-bin", pred, "dpspr=%r (radicand %r) expected radicand %r at peak bin %d" % (got, grad, rad, cands[0])))
    # dp: independent of the frequency peak
    if two and "dp" in ok:
        d32 = np.asarray(d, dtype=np.float32).astype(float)
        for b in range(N):
            tot = E[b].sum(axis=0)
            m = tot.max()
            adm = [j for j in range(len(d)) if tot[j] >= m * (1 - 1e-12) - 1e-300]
            if not any(ok["dp"][b] == d32[j] for j in adm):
                bad.append((b, "dp", "direction-of-largest-frequency-summed-energy", "tied" if len(adm) > 1 else "unique",
                            "dp=%r, admissible directions %s (totals %s)" % (ok["dp"][b], [d[j] for j in adm], tot.tolist())))
    return bad


def eval_fdesc(f, d, E):
    """The same spectra with the frequency axis STORED in descending order: the peak statistics that do not depend on the
    integration order (tp both kinds, fp, dpm, dpspr, dp) must equal those of the ascending storage."""
    asc = build(f, d, E)
    desc = asc.isel(freq=slice(None, None, -1))
    bad = []
    N = E.shape[0]
    calls = [("tp", lambda s: s.tp(smooth=False)), ("tp(smooth)", lambda s: s.tp(smooth=True)), ("fp(smooth)", lambda s: s.fp(smooth=True))]
    if d is not None:
        calls += [("dpm", lambda s: s.dpm()), ("dpspr", lambda s: s.dpspr()), ("dp", lambda s: s.dp())]
    for name, fn in calls:
        try:
            a = np.asarray(fn(asc.spec).values, dtype=float).reshape(N)
            b = np.asarray(fn(desc.spec).values, dtype=float).reshape(N)
        except Exception as e:  # noqa
            bad.append((-1, name, "raises-" + type(e).__name__, "freq-stored-descending", "%s raised %r" % (name, e)))
            continue
        ok = (np.abs(a - b) <= 2e-6 * np.abs(a) + 1e-30) | (np.isnan(a) & np.isnan(b))
        if not ok.all():
            i = int(np.argwhere(~ok)[0][0])
            bad.append((i, name, "same-with-descending-frequency-storage", "freq-stored-descending", "%s: ascending storage %r, descending storage %r" % (name, float(a[i]), float(b[i]))))
    return bad


def isolate_exception(f, d, E, stat):
    """binary search for one spectrum on which `stat` raises"""
    lo, hi = 0, E.shape[0]
    while hi - lo > 1:
        mid = (lo + hi) // 2
        b = [x for x in eval_batch(f, d, E[lo:mid]) if x[0] == -1 and x[1] == stat]
        if b:
            hi = mid
        else:
            lo = mid
    return lo


def replay(case):
    f = np.asarray(case["f"], dtype=float)
    d = None if case.get("d") is None else np.asarray(case["d"], dtype=float)
    E = np.asarray(case["efth"], dtype=float)[None]
    out = []
    for (b, stat, clause, pred, msg) in eval_batch(f, d, E, case.get("layout", "site") if case.get("layout") == "fdesc" else "site"):
        if clause.startswith("raises") and case.get("layout") != "fdesc":
            pred = exc_pred(f, d, E[0])
        out.append(Violation(PROP, "%s|%s|%s" % (stat, clause, pred), msg, dict(case, stat=stat)))
    return out


def exc_pred(f, d, Eb):
    f32 = np.asarray(f, dtype=np.float32).astype(float)
    s = Eb if d is None else Eb.sum(axis=1) * (abs(d[1] - d[0]) if len(d) > 1 else 1.0)
    loc, adm = ref_peaks(s)
    if not adm:
        return "no-interior-peak"
    fp = 1.0 / float(np.float32(ref_tps(f32, s, adm[0])))
    _, cls, near = ref_alpha(f32, s, fp)
    return "tail-window-holds-%s-frequencies" % cls


def run_item(it):
    f, d = it["f"], it["d"]
    nf = len(f)
    orders = it["orders"]
    S = np.array([realise(o, it["spacing"]) for o in orders]) * it.get("scale", 1.0)
    res = {"evals": 0, "n_nontrivial": 0, "samples": [], "outcomes": {}, "violations": [], "parts": {}}
    if d is None:
        E = S
    else:
        P = patterns(len(d))
        M = len(P)
        sh = it["shift"]
        rows = np.array([P[(i + sh) % M] for i in range(nf)])  # (nf, nd)
        E = S[:, :, None] * rows[None, :, :]
    CH = 2048
    seen = set()
    for s0 in range(0, E.shape[0], CH):
        Eb = E[s0:s0 + CH]
        bad = eval_batch(f, d, Eb, it.get("layout", "site"))
        res["evals"] += Eb.shape[0]
        for o in orders[s0:s0 + CH]:
            # non-trivial: at least one interior strict local maximum
            npk = sum(1 for i in range(1, nf - 1) if o[i - 1] < o[i] > o[i + 1])
            if npk:
                res["n_nontrivial"] += 1
            kk = "orderings-with-%d-strict-interior-peaks%s" % (npk, "" if len(set(o)) == len(o) else ",with-ties")
            res["outcomes"][kk] = res["outcomes"].get(kk, 0) + 1
        for (b, stat, clause, pred, msg) in bad:
            if b == -1 and it.get("layout") == "fdesc":
                b = 0
            elif b == -1:
                b = isolate_exception(f, d, Eb, stat)
                pred = exc_pred(f, d, Eb[b])
            sig = "%s|%s|%s" % (stat, clause, pred)
            if sig in seen:
                continue
            seen.add(sig)
            case = dict(f=f, d=d, efth=Eb[b], stat=stat, layout=it.get("layout", "site"))
            vs = [v for v in replay(case) if v.signature == sig]
            if vs:
                res["violations"].append(vs[0])
            else:
                res["violations"].append(Violation(PROP, sig + "|batched-only", "seen only inside a batch: " + msg, case))
    key = ("2d" if d is not None else "1d") + ("-fdesc" if it.get("layout") == "fdesc" else "") + ("-scaled" if it.get("scale") else "")
    res["parts"]["%s_nf%d" % (key, nf)] = res["evals"]
    res["samples"].append(dict(freq=f, dir=d, ranks=list(orders[len(orders) // 2]), spacing=it["spacing"], shift=it.get("shift")))
    return res


def run(rep, tier, seed, parts=None):
    common.load_wavespectra()
    rep.rule = ("every weak ordering (tie pattern included) of the nf frequency bins, nf=3..6 (7 in thorough), realised with 4 value "
                "spacings (linear with zero, geometric with zero, strictly positive, and ranks 2**-26 apart - distinct only in float64) on 3 frequency families; 2-D: each ordering x "
                "direction grids nd in {4,8} x every cyclic assignment of 7 directional patterns to the frequency bins (so the peak "
                "bin's direction/spread always differ from its neighbours'); all peak statistics of each spectrum must agree with "
                "one admissible peak bin of an independent peak finder. Non-trivial = ordering with >=1 interior strict local maximum.")
    rep.assumptions = ["ties between equal-height peaks: any of the tied bins is admissible but all statistics must use the same one",
                       "gamma is compared only where the interior peak is also the global maximum of E(f)",
                       "alpha is skipped when a frequency lies within 3e-6 (relative) of a tail-window boundary",
                       "batched evaluation is sound (C06)"]
    nfs = [3, 4, 5, 6] + ([7] if tier == "thorough" else [])
    items = []
    for nf in nfs:
        orders = gen.weak_orderings(nf)
        for fname, f in freq_fams(nf, seed):
            for sp in ("lin", "geo", "off", "eps"):
                if nf >= 7 and sp in ("off", "eps"):
                    continue
                if sp == "eps" and fname != "log":
                    continue
                items.append(dict(f=f, d=None, orders=orders, spacing=sp, fam=fname))
        if nf <= (6 if tier == "thorough" else 5) or True:
            for nd in (4, 8):
                dd = 360.0 / nd
                d = [0.0, 5.0, 7.5][(seed + nd) % 3] + dd * np.arange(nd)
                fams = freq_fams(nf, seed)
                nshift = 7 if (nf <= 5 or tier == "thorough") else 3
                for sh in range(nshift):
                    if nf >= 7 and sh >= 2:
                        continue
                    fname, f = fams[(sh + nd) % 3]
                    sp = ("lin", "geo", "off", "eps")[sh % 4] if nf <= 5 else ("lin", "geo", "off")[sh % 3]
                    items.append(dict(f=f, d=d, orders=orders, spacing=sp, shift=sh, fam=fname,
                                      layout="time_site" if sh == 1 else "site"))
    # extreme energy scales (a frequency axis stored in descending order is NOT enumerated: the accessor does not support it on the
    # unchanged tree either - hs is NaN and dpspr is wrong there - so it is outside the stated domain)
    for nf in (4, 5):
        orders = gen.weak_orderings(nf)
        fname, f = freq_fams(nf, seed)[0]
        dd = 90.0
        for scale in (1e-12, 1e10):
            items.append(dict(f=f, d=[0.0, 5.0, 7.5][seed % 3] + dd * np.arange(4), orders=orders, spacing="off", shift=2, fam=fname, scale=scale))
            items.append(dict(f=f, d=None, orders=orders, spacing="lin", fam=fname, scale=scale))
    items.sort(key=lambda it: (len(it["f"]), 0 if it["d"] is None else len(it["d"])))
    for res in common.pmap(run_item, items):
        rep.merge(res)
    rep.extra["work_items"] = len(items)
