"""Regenerates /verif/MANIFEST.json from the table below: python -m mc.manifest"""
import json
import os

VERIF = os.path.dirname(os.path.dirname(os.path.abspath(__file__)))
PY = "/venv/bin/python"

# id -> (category, engine, technique, text, note, design_ref)
CHECKS = {
    "C01": ("exploration", "bex", "bounded exhaustive enumeration of inputs on the real code vs a bin-by-bin reference model",
            "Every assignment of a small value alphabet to every bin of every small grid (full products up to 8/9 cells, complete "
            "structured families to 40 cells, also at centimetre/millimetre and extreme energy scales) x grid families (full circles and uniformly spaced sectors, also straddling north) x layouts x dtypes is run through the real accessor and compared with "
            "an independent plain-loop evaluation of each defining integral; bounded-exhaustive, not sampled.",
            "Values outside the alphabets and grids beyond the cell bound are not covered; integrals are linear in E so the impulse "
            "basis+pairs decide them per grid. dm accepts either moment convention consistently. numpy/xarray are trusted.",
            "3 C01"),
    "C02": ("exploration", "bex", "exhaustive enumeration of all weak orderings of the frequency bins vs an independent peak finder",
            "Every weak ordering (every tie pattern) of 3..6/7 frequency bins, realised with three value spacings on three frequency "
            "families, in 1-D and combined with every cyclic assignment of 7 directional patterns on 4/8-direction grids, goes through "
            "the real accessor; tp/fp (both kinds), dpm, dpspr, alpha, gamma must agree with one admissible peak of a plain reference "
            "peak finder, NaN when there is no interior strict maximum, dp with the argmax of the frequency-summed spectrum.",
            "Peak finding depends only on comparisons, which all weak orderings cover for nf<=6/7; values beyond the three spacings and "
            "larger nf are not covered. gamma compared only where the peak is the global maximum; exact ties/boundaries are don't-care.",
            "3 C02"),
    "C04": ("exploration", "cdrv", "exhaustive enumeration of grids x spectra x level counts x shifts against specpart.c with a flood-fill oracle",
            "A C driver linked against the repo's specpart.c enumerates every assignment of 2/3/4-value alphabets to every cell of every "
            "grid shape up to 12 cells (quick: ternary all shapes, 4-value on 3x4/4x3/2x6/6x2; 14 ternary / 18 binary thorough), complete structured families up to 8x8, 8 level "
            "counts and every circular shift of the direction axis; an independent flood-fill oracle checks labels>=1, one basin per "
            "regional maximum, connectivity on the cylinder and shift-equivariance. The same product runs through the python wrapper, "
            "there also with Fortran-ordered, strided and negative-stride float32 inputs.",
            "Discretisation ties are don't-care (skipped, counted). Values outside the alphabets / larger grids only via structured "
            "families. Known finding: value range < 1e-9 is treated as constant.",
            "3 C04"),
    "C03": ("exploration", "bex", "bounded exhaustive enumeration of spectra x configurations vs a reference model of PTM1/2/3 given the label map",
            "Every ternary spectrum on 2x4 (and 2x5/1x8 with rotating configurations; 3x4/2x6 thorough), complete 2-/3-bump families on "
            "4x6/5x8, x PTM1/2/3 x ihmax x requested count (below/equal/above detected) x wind/depth/agefac/wscut menus (full 324-config "
            "product on a structured 3x4 family), at numpy level and through the accessor on (time)/(time,site)/(lat,lon) layouts, "
            "numpy- and dask-backed, smoothing on/off, and back-to-back call sequences over every ordered pair of 6 equal-shape grids with "
            "different coordinates, frequency grids ending above and below 0.333 Hz, 144/289/324-basin lattices asked for more, slightly fewer and far fewer partitions than found: bin-is-input-or-zero, disjointness, exact sum, count, wind-sea rule, Hs order.",
            "The label map is taken from specpart.partition (C04's subject) and celerity from the library (C01's subject). Classification "
            "clauses are don't-care within 1e-9 of a threshold.",
            "3 C03"),
    "C05": ("exploration", "bex", "exhaustive metamorphic exploration of storage transformations (dimension order x layout x dtype x stored direction sequence)",
            "Each of ~45 operations (all statistics, smooth, interp, rotate, split, limited stats, scale_by_hs, ptm1..5, bbox) is run on "
            "every transformed copy of a 4-D dataset and a 2-D array (quick: every factor value alone and every pair of factor values; "
            "thorough: the full 24x4x2x16 product), plus 2-D arrays with 2,3,4,5,6,12 directions in every rotation and orientation, and "
            "compared, after re-alignment by labels, with the canonical result.",
            "One base dataset per seed (float32-exact, pairwise distinct values). Descending directions are excused for the watershed "
            "methods as the statement allows.",
            "3 C05"),
    "C12": ("exploration", "fmt", "exhaustive enumeration of native-convention datasets built by independent encoders, bin-by-bin against the physical truth",
            "A physical truth E(f,theta_from) on enumerated small grids is encoded by independent encoders into the WW3, SWAN-netCDF, WWM, "
            "ERA5 and NDBC conventions (all direction orders, every subset of optional variables, lon/lat layouts, backings, dtypes, native dimensions with and without index coordinate variables, with and without any attribute metadata); "
            "read_dataset and from_<model> must return the wavespectra convention with every bin density/direction, the variance, winds "
            "and labels equal to the truth, and must not modify the caller's dataset.",
            "In-memory datasets only (netCDF4/zarr are not installed, so the file-opening halves cannot run).",
            "3 C12"),
    "C13": ("exploration", "fmt", "exhaustive enumeration of synthetic files written by independent format encoders, decoded values vs encoder inputs",
            "Independent text encoders for SWAN ASCII (all header/block variants; direction listings unsorted, rotated, descending and ascending-as-written beyond [0,360)), TRIAXYS, NDBC ASCII (realtime/history), Spotter CSV/JSON, "
            "Datawell, Obscape and WW3 station files generate files from enumerated contents (records in every order, sizes, value "
            "patterns, header variants, one/several files); times, freq, dir, positions and densities read back must equal the encoder "
            "inputs to the printed resolution, sorted by time; for 1D+moments readers the direction integral must give back E(f).",
            "XWaves is not covered (no independent description of the MAT layout). Known finding: multi-point WW3 station files.",
            "3 C13"),
    "C19": ("model_checking", "hist", "exhaustive enumeration of partition histories plus explicit-state BFS over tracking states, executed on the real function",
            "Every history of P partitions x T steps over a threshold-relative cell alphabet (P<=3,T<=3 quick; larger thorough; one alphabet with directions written in other 360-degree windows) x 18 "
            "parameter/wind configurations (plus wind series that change between steps, calm steps and gaps in the wind record) runs through np_track_partitions and is checked against the statement's invariants with "
            "independently recomputed thresholds; a layered BFS over (last row, id pattern) states to T=6 re-executes the real function "
            "for every transition and checks prefix-closure and state-determinism; track_partitions on site batches and ptm1_track end to end.",
            "Only 'only-if' clauses are demanded (a carried id must be within thresholds), never an obligation to continue; cases within "
            "1e-9 of a threshold are excluded by construction of the alphabet.",
            "3 C19"),
    "C20": ("exploration", "cdrv", "exhaustive enumeration of grid shapes x spectra x level counts under ASan/UBSan plus a degenerate-input menu over all public operations",
            "Native: a driver linked with the repo's specpart.c and built with clang ASan+UBSan runs every grid shape 1x1..8x8 (complete "
            "structured families, full products on small shapes, tiny/huge value ranges) x ihmax {1..1000} (and 65536, 2**20+1, 3e6 on three shapes) round-robin over shapes so "
            "the static buffers are reallocated at every call, with a per-call watchdog; any sanitizer report, timeout, crash or input "
            "modification is a violation. Python: ~75 public operations (incl. transform-then-statistic chains on spectra without a direction dimension) x degenerate spectra x grids nf{1..9} x nd{1..4} x layouts must "
            "not raise; the extension on two-hump grids above a million bins (1100x1000, 1x1.2e6, 1.2e6x1); 24 invalid-argument classes must raise ValueError.",
            "The python wrapper runs without sanitizers (crashes/hangs are still caught by the worker watchdog). hp01, plotting, fits and "
            "file IO are outside this check. ASan leak checking is off (known one-buffer leak per shape change).",
            "3 C20"),
    "C09": ("exploration", "bex", "bounded exhaustive enumeration of limits/boxes/winds on distinct-valued spectra vs a bin-membership reference",
            "Spectra with a distinct value in every bin on 5 grids; PTM4 over the full wind x direction x depth x agefac menu incl. exact-"
            "equality boundary cases; bbox over every single box with each limit omitted/on a node/between nodes, every pair and triple "
            "from box alphabets classified by an independent reference (disjoint / overlap / touch); split and limited stats over every "
            "limit combination from {None, nodes, midpoints}; ptm5 over every cutoff on/between nodes. Membership, disjointness, exact "
            "sum, rejection of overlaps, interpolated cutoff slices and the single ptm5 factor are checked bin by bin.",
            "celerity() is taken from the library (C01). Cases within 1e-9 of a float boundary are don't-care unless equality is exact.",
            "3 C09"),
    "C18": ("model_checking", "hist", "exhaustive operation-history exploration (all sequences to depth 3/4) on live objects vs fresh-interpreter references",
            "Every sequence up to depth 2 over a 26-operation alphabet (accessor calls incl. one that exercises every observed function and failing stats() calls with band limits, spectral fits on an array holding unfittable spectra, "
            "in-place edits of efth/dir/freq/station positions by item assignment, through .coords and by writing into .values, watershed calls on other "
            "shapes incl. the transposed shape of the observed spectra and an empty selection, another object, wind-sea partitions of an array whose frequency axis shares length and end points with the observed one, reader calls incl. one whose result is edited) plus depth 3 over a reduced "
            "13-operation alphabet with at least one edit (thorough: full alphabet to depth 3, reduced to depth 4) is executed on freshly "
            "built objects in a freshly forked child; an observation battery (Dataset accessor, efth accessor, DataArray accessor, station selection with the dataset's own positions, partitions with and without wind, values "
            "and attrs) is compared with the battery computed in a fresh interpreter on a fresh object of the same contents (64 content states).",
            "Hidden state reachable only through operations outside the alphabet is not explored.",
            "3 C18"),
    "C10": ("exploration", "bex", "bounded exhaustive enumeration of spectra x scale factors x relabelling angles, metamorphic relations and bounds",
            "Every non-degenerate assignment of a 3-value alphabet on 2x2..3x3/2x4 grids and complete structured/bump families on 4x6 and "
            "5x8 (both tail regimes) x k in {1e-6..1e6} x 8 relabelling angles x ~30 statistics: heights x sqrt(k), drift/slope x k, all "
            "other parameters unchanged, directions shift by a mod 360, physical bounds; scale_by_hs with 3 expressions x 10 window "
            "configurations whose thresholds sit exactly on batch values.",
            "Peak statistics are compared only where rounding cannot change the selected peak; library thresholds (sw mask, swe floor, gamma "
            "clip) are excluded. Known finding: gw is energy-dependent / NaN above ~4.3 m.",
            "3 C10"),
    "C14": ("exploration", "bex", "exhaustive enumeration of station subsets x query menus x tolerances x conventions vs a reference geometry",
            "Every subset of 1-4 stations of a lattice around both meridians (each station carrying a one-hot spectrum), written in both "
            "longitude conventions, x query point/pair menus in both conventions x tolerances x max_sites x options (unique/exact/"
            "missing) x call modes, for nearest, idw and bbox, plus clusters of stations 2e-4..8e-4 degree apart queried on and next to every member; an independent reference geometry with the short-way longitude difference "
            "decides membership, weights, failures and the reported convention.",
            "Planar degree metric as in the library; ties and exact box edges are don't-care; max_sites=1 with several stations in range "
            "accepts either reading.",
            "3 C14"),
    "C17": ("exploration", "hist", "exhaustive enumeration of operations and ordered operation pairs x input variants with deep before/after snapshots",
            "The operation alphabet is built by introspection (129 operations: every public SpecArray/SpecDataset/Partition method with "
            "argument menus, selections, writers, construct helpers, free functions); every operation alone on numpy-backed, view-into-"
            "caller-buffer, read-only, dask-backed, float32-with-NaN and integer-direction inputs (queries as lists and as arrays in both longitude conventions, native WW3 / SWAN datasets, a station dataset whose wind/depth lack the site dimension and carry their own attributes), and every ordered pair on the same objects; a deep bitwise snapshot of the "
            "dataset, wind/depth arrays, coordinate arrays, owning buffers, query lists and keyword dicts must be unchanged.",
            "plot, to_orcaflex and to_zarr are skipped; from_<model> readers are covered by C12's native-unmodified clause.",
            "3 C17"),
    "C06": ("exploration", "bex", "exhaustive differential exploration of dataset layouts and position fillings (batch vs extracted single spectrum)",
            "Every layout of 0-3 non-spectral dimensions from {time, site, lat, lon, part} in every order with sizes in {1,2,3}, filled from "
            "a menu of 30 pairwise distinct spectra with per-position wind/depth; for ~45 operations the batch result at every position "
            "must equal the result on the extracted single spectrum (with all-distinct wind/depth fields and with fields in which positions "
            "share wind or depth), replacing one spectrum must leave all other positions bitwise unchanged, all 900 ordered pairs of menu spectra on a 2-position layout, Dataset accessor == efth accessor, and fit_jonswap / fit_gaussian / alpha / gamma / tp / fp on every ordered pair and (a, unfittable, b) triple of an 11-spectrum menu on 26 frequencies (fittable, unfittable, peakless, unresolved tail) against the lone result.",
            "Quick covers all 0/1/2-dim layouts and every 4th 3-dim layout, and 12 operations for the ordered pairs. gamma/alpha/fp are "
            "compared at 2e-6 (float32-derived). Partitioning an already partitioned layout is out of domain.",
            "3 C06"),
    "C07": ("model_checking", "tasksched+threadsched", "exhaustive enumeration of chunkings, of dask task orders (controlled scheduler) and of 2-thread interleavings up to a preemption bound, on the real code",
            "A: every composition of every dimension of a (3,2,5,4) dataset into chunks (quick: single-dimension compositions, singletons, "
            "all pairs of two-part splits; thorough: all 1024) x ~37 operations vs the in-memory result. B: a custom dask get built on "
            "dask.local.get_async owns the ready list and enumerates every execution order (or all orders within a deviation bound) of 6 "
            "real graphs incl. two grid shapes in one graph. C: a sys.settrace baton scheduler enumerates all interleavings of 2 threads "
            "x 5 workloads (watershed on different/equal shapes, attribute table, same-object accessor use) with <= 1 (2) preemptions. "
            "D: free-running threaded scheduler with 1..16 workers (supplementary).",
            "The C call is an atomic step because the wrapper never releases the GIL (source guard checked on every run); scheduling "
            "points inside numpy/xarray/dask are not explored.",
            "3 C07"),
    "C08": ("exploration", "bex", "bounded exhaustive enumeration of source/target grid pairs x complete spectrum families vs a reference piecewise-linear circular interpolant",
            "Source grids (3 frequency families x direction circles stored sorted / every rotation / descending / with a duplicated 0-360 "
            "bin) x target frequency sets (identical, the same grid a few ppm off, coarser, finer, shifted, below, above, both, single) x target direction sets (incl. "
            "one crossing the seam and a descending one) x maintain_m0 on/off x impulse basis + pairs + full products on <=6 cells incl. "
            "the zero spectrum; rotate by every whole number of bins, 360, 720 and odd angles; coordinates, identity, non-negativity, zero "
            "above the range, the interpolant itself, Hs conservation, roll equivalence.",
            "Targets that receive no energy are out of domain for conservation. Source labels outside [0,360], single-bin axes and NaN "
            "input are not enumerated.",
            "3 C08"),
    "C11": ("exploration", "fmt", "exhaustive enumeration of datasets x writer options, written with the real writers and read back with the real readers, compared position by position",
            "Datasets = times {1,2,3} x station/grid layouts (incl. co-located stations and north-to-south latitude rows) x nf x nd x direction orders x magnitude-class assignments (zero, NaN, 1e-8..1e4, "
            "mixed; every spectrum distinguishable) x wind/depth x dtype, plus 1 and 1.5 degree direction grids and 150-step records with odd-second time stamps across a year boundary; SWAN ASCII (plain/gz, ntime), JSON, wavespectra netCDF-3 "
            "(packed/unpacked, two readers), WW3 netCDF-3, Octopus (plain/gz, ntime), Funwave; times, positions, lon/lat, freq, dir and "
            "efth must come back at each format's printed resolution, zero as zero and NaN as missing.",
            "Only the netCDF-3 (scipy) path can run here: NETCDF4/zarr back ends are not installed. Winds/depth are written but not compared.",
            "3 C11"),
    "C15": ("exploration", "bex", "exhaustive enumeration of parameter menus (full Cartesian products) for every constructor vs closed forms and plain-loop moments",
            "Full products of hs, fp (on/off node), gamma, alpha, sigma_a/b, depth, gw menus as scalars, DataArrays and mixed, on frequency "
            "grids in both tail regimes; spreading functions on 12..72-direction circles (offset, descending; 180/360 directions for narrow beams down to 3 deg) x dm menu incl. next to the "
            "seam x dspr menu; construct_partition products: measured Hs equals the request (1e-10), non-negativity, jonswap(gamma=1)==PM, "
            "tma(deep)==jonswap within a derived bound, unit integral of every spreading function, oned(2D)==shape, measured dm/dspr equal "
            "the discrete moments (1e-9) and the request within a derived aliasing bound.",
            "dm/dspr 'equals requested' is demanded only for frequency-independent cartwright (and degenerate asymmetric) on grids that "
            "resolve the spread; general asymmetric has no derivable tolerance.",
            "3 C15"),
    "C16": ("exploration", "bex", "exhaustive enumeration of grids x every odd window pair x stored direction orders x dimension orders vs a plain-loop window reference",
            "Grids nf {1,3,5} x 16 direction grids (full circles with exactly representable spacing, also labelled outside [0,360), partial and irregular grids) x every pair "
            "of odd windows up to the grid size x stored order (sorted, rotations, descending) x dimension orders x dtypes x entry points x "
            "dask; impulse basis, constants, ramps and full products on a 6-cell block across the seam: grid preserved exactly, window 1 "
            "identity, min/max bound, window mean where the window fits, shift commutation on full circles, even windows rejected.",
            "Direction labels not exactly representable in float32 and windows larger than the axis are outside the stated domain.",
            "3 C16"),
}

PENDING = {
}


def main():
    props = [json.loads(l) for l in open(os.path.join(VERIF, "properties.jsonl"))]
    checks = []
    na = []
    for p in props:
        pid = p["id"]
        if pid in CHECKS:
            cat, eng, tech, text, note, ref = CHECKS[pid]
            checks.append({
                "property_id": pid,
                "quick_cmd": "%s -m mc.check %s --tier quick" % (PY, pid),
                "thorough_cmd": "%s -m mc.check %s --tier thorough" % (PY, pid),
                "evidence_file": "/verif/evidence/%s.json" % pid,
                "replay_cmd_template": "%s -m mc.check %s --replay {path}" % (PY, pid),
                "engine": eng,
                "level_claimed": {"category": cat, "text": text, "design_ref": "DESIGN.md section " + ref},
                "level_note": note,
                "technique": tech,
            })
        else:
            na.append({"property_id": pid, "reason": PENDING.get(pid, "check not built yet in this session (planned; see DESIGN.md section 3)")})
    man = {
        "version": 1,
        "setup_cmd": "cd /verif && %s -m mc.setup" % PY,
        "hooks": {
            "guard": "WAVESPECTRA_VERIF",
            "enable": "no hooks are needed: every seam used is public API, sys.settrace, dask scheduler callbacks or the C function compiled into a driver; checks import the sources from VERIF_REPO (default /repo) and rebuild the C extension from the working tree",
            "baseline_off_cmd": "cd /repo && /venv/bin/python -m pytest -ra -q -p no:cacheprovider --timeout=900 --continue-on-collection-errors",
            "source_commits": [],
            "add_only": True,
        },
        "engines": [
            {"name": "bex", "path": "mc/gen.py", "serves_properties": ["C01", "C02", "C03", "C05", "C06", "C08", "C09", "C10", "C14", "C15", "C16", "C20"],
             "kind_free_text": "bounded-exhaustive input explorer: complete enumeration of small grids x value alphabets x parameter menus through the real API, sharded over processes"},
            {"name": "hist", "path": "mc/props/c18.py", "serves_properties": ["C17", "C18", "C19"], "kind_free_text": "operation-history explorer (all sequences to depth d, prefix replay on fresh objects, fresh-process reference)"},
            {"name": "tasksched", "path": "mc/tasksched.py", "serves_properties": ["C07"], "kind_free_text": "controlled dask scheduler enumerating task orders of the real graphs"},
            {"name": "threadsched", "path": "mc/threadsched.py", "serves_properties": ["C07"], "kind_free_text": "sys.settrace baton scheduler enumerating 2-thread interleavings up to a preemption bound"},
            {"name": "cdrv", "path": "mc/cdrv/driver.c", "serves_properties": ["C04", "C20"], "kind_free_text": "C driver enumerating grids/spectra/levels against specpart.c under ASan+UBSan with a flood-fill oracle"},
            {"name": "fmt", "path": "mc/c13_encoders.py", "serves_properties": ["C11", "C12", "C13"], "kind_free_text": "independent reference encoders/decoders of the file formats fed with enumerated contents"},
        ],
        "checks": checks,
        "not_applicable": na,
        "notes": "All checks: cwd=/verif, honour VERIF_SEED / VERIF_TIER / VERIF_REPO; evidence is rewritten on every run; known findings in /verif/known_findings.json.",
    }
    with open(os.path.join(VERIF, "MANIFEST.json"), "w") as f:
        json.dump(man, f, indent=1)
    print("MANIFEST.json: %d checks, %d not_applicable" % (len(checks), len(na)))


if __name__ == "__main__":
    main()
