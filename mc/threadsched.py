"""E4: thread interleaving explorer (sys.settrace baton scheduler).

Two or more real threads run library functions; scheduling points are `line` events in frames whose file lies under the
wavespectra package of the repo under test. Only one thread runs at a time (a per-thread semaphore is the baton); at
every point the scheduler consults a choice vector. Canonical order of the enabled list: the running thread first if
still enabled, then ascending ids; choosing another thread while the running one is still enabled costs one preemption.
`explore` enumerates all schedules with at most `bound` preemptions (iterative: executions always run to completion).
"""
from __future__ import annotations

import os
import sys
import threading


class Run:
    def __init__(self, bodies, choices, pkgdir, max_points=200000):
        self.bodies = bodies
        self.choices = list(choices)
        self.pkgdir = pkgdir
        self.n = len(bodies)
        self.sems = [threading.Semaphore(0) for _ in bodies]
        self.sched = threading.Semaphore(0)
        self.finished = [False] * self.n
        self.results = [None] * self.n
        self.errors = [None] * self.n
        self.record = []  # (n_enabled, running_still_enabled, chosen thread)
        self.max_points = max_points
        self.abort = False

    def _local(self, tid):
        def tracer(frame, event, arg):
            if event == "line" and not self.abort:
                self.sched.release()
                self.sems[tid].acquire()
            return tracer
        return tracer

    def _global(self, tid):
        local = self._local(tid)
        pk = self.pkgdir

        def g(frame, event, arg):
            if event == "call" and frame.f_code.co_filename.startswith(pk):
                return local
            return None
        return g

    def _thread(self, tid):
        self.sems[tid].acquire()
        sys.settrace(self._global(tid))
        try:
            self.results[tid] = self.bodies[tid]()
        except BaseException as e:  # noqa
            self.errors[tid] = e
        finally:
            sys.settrace(None)
            self.finished[tid] = True
            self.sched.release()

    def execute(self):
        ths = [threading.Thread(target=self._thread, args=(i,), daemon=True) for i in range(self.n)]
        for t in ths:
            t.start()
        running = None
        i = 0
        while True:
            enabled = [t for t in range(self.n) if not self.finished[t]]
            if not enabled:
                break
            still = running is not None and running in enabled
            order = ([running] if still else []) + [t for t in enabled if t != running or not still]
            c = self.choices[i] if i < len(self.choices) else 0
            if c >= len(order):
                self.abort = True
                for t in enabled:
                    self.sems[t].release()
                raise RuntimeError("schedule divergence: choice %d out of range (%d enabled) at point %d" % (c, len(order), i))
            chosen = order[c]
            self.record.append((len(order), still, chosen))
            i += 1
            if i > self.max_points:
                self.abort = True
                for t in enabled:
                    self.sems[t].release()
                raise RuntimeError("too many scheduling points")
            running = chosen
            self.sems[chosen].release()
            if not self.sched.acquire(timeout=120):
                self.abort = True
                raise RuntimeError("deadlock or hang: no thread reported back within 120 s (running thread %d)" % chosen)
        for t in ths:
            t.join(10)
        return self.results, self.errors, self.record


def preemptions(record, choices):
    n = 0
    for (k, still, chosen), c in zip(record, choices):
        if still and c != 0:
            n += 1
    return n


def explore(make_bodies, on_result, bound, pkgdir, max_runs=None, max_seconds=None):
    """make_bodies() -> list of zero-arg callables (fresh state for every execution).
    on_result(choices, results, errors, record). Enumerates all schedules with <= bound preemptions."""
    import time as _time
    t0 = _time.time()
    stack = [[]]
    runs = 0
    capped = False
    pmax = 0
    while stack:
        prefix = stack.pop()
        r = Run(make_bodies(), prefix, pkgdir)
        results, errors, record = r.execute()
        runs += 1
        pmax = max(pmax, len(record))
        choices = prefix + [0] * (len(record) - len(prefix))
        on_result(choices, results, errors, record)
        if (max_runs and runs >= max_runs) or (max_seconds and _time.time() - t0 > max_seconds):
            capped = True
            break
        used = preemptions(record[:len(prefix)], prefix)
        for i in range(len(record) - 1, len(prefix) - 1, -1):
            k, still, chosen = record[i]
            cost = 1 if still else 0
            if used + cost > bound:
                continue
            for alt in range(k - 1, 0, -1):
                stack.append(choices[:i] + [alt])
    return dict(runs=runs, points_max=pmax, capped=capped)
