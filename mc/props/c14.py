"""C14 - site selection (nearest / idw / bbox) on a sphere-aware longitude axis (bounded-exhaustive, E1).

Space: every subset of 1..4 stations of a lattice menu around the 0 and 180 meridians x dataset longitude convention x
query lists (single points, every pair of points incl. duplicated points, boxes from every pair) x query convention x
tolerance x max_sites / nearest options x call mode (accessor, accessor with precomputed dset_lons/lats, direct function).
Oracle: a plain reference geometry (planar metric in degrees with the short-way longitude difference).
"""
from __future__ import annotations

import itertools
import math

import numpy as np

from mc import common
from mc.common import Violation

PROP = "C14"
LEVEL = "exploration"
EPS = 1e-9      # ties / boundary band (don't-care)
ZERO = 1e-12    # "zero distance"
NF = 4          # frequencies = max stations per dataset (one-hot station identity)
FAIL_EXC = (AssertionError, ValueError)

# (station offset from the meridians, query offsets a/b, second station latitude, second query latitude)
VARIANTS = [
    dict(so=0.5, qa=0.4, qb=0.1, slat=1.0, qlat=0.6),
    dict(so=0.25, qa=0.2, qb=0.05, slat=1.0, qlat=0.4),
    dict(so=1.0, qa=0.7, qb=0.3, slat=-1.0, qlat=-0.6),
    dict(so=0.5, qa=0.3, qb=0.2, slat=0.5, qlat=0.3),
    dict(so=2.0, qa=1.5, qb=0.5, slat=-1.0, qlat=0.6),
]


def _num(x):
    x = round(float(x), 6)
    return int(x) if x == int(x) else x


# ---------------------------------------------------------------------------------------------
# reference geometry
# ---------------------------------------------------------------------------------------------
def dlon_short(a, b):
    d = abs(float(a) - float(b)) % 360.0
    return min(d, 360.0 - d)


def dlon_nowrap(a, b):
    """What a planar metric on [0,360) without wrap gives (only used to *classify* a failure)."""
    return abs(float(a) % 360.0 - float(b) % 360.0)


def q_convention(qlons):
    if min(qlons) < 0:
        return "180"
    if max(qlons) > 180:
        return "360"
    return "either"


def lon_in_convention(lon, conv):
    if conv == "180":
        return -180 - EPS <= lon <= 180 + EPS
    if conv == "360":
        return -EPS <= lon <= 360 + EPS
    return True


def oracle_nearest(stations, qlons, qlats, tol, unique, exact, missing, dl=dlon_short):
    """-> ("dontcare", None) | ("fail", None) | ("ok", set of acceptable station-index tuples)"""
    per = []
    for ql, qa in zip(qlons, qlats):
        d = [math.hypot(dl(sl, ql), sa - qa) for sl, sa in stations]
        dmin = min(d)
        # "fails when that distance EXCEEDS the tolerance": a distance exactly equal to the tolerance is in range. The equality
        # is pinned only where it is exact in IEEE arithmetic (the station differs from the query in one coordinate only, so
        # sqrt(x*x) == |x|); any other distance within EPS of the tolerance is don't-care.
        jmin = d.index(dmin)
        one_axis = dl(stations[jmin][0], ql) == 0.0 or stations[jmin][1] == qa
        dyadic = all(float(v) * 64 == int(float(v) * 64) for v in (stations[jmin][0], stations[jmin][1], ql, qa, tol))
        exact_eq = (dmin == tol) and one_axis and dyadic   # multiples of 1/64: every step (mod 360, difference, square root of a square) is exact
        if abs(dmin - tol) <= EPS and not exact_eq:
            return "dontcare", None
        ties = [j for j, x in enumerate(d) if x <= dmin + EPS]
        per.append((dmin, ties, dmin < tol or exact_eq))
    if missing == "raise" and any(not p[2] for p in per):
        return "fail", None
    inr = [p for p in per if p[2]]
    if not inr:
        return "fail", None
    if exact:
        if any(ZERO < p[0] <= EPS for p in inr):
            return "dontcare", None
        if any(p[0] > EPS for p in inr):
            return "fail", None
    acc = set()
    for seq in itertools.product(*[p[1] for p in inr]):
        if unique:
            s = []
            for j in seq:
                if j not in s:
                    s.append(j)
            seq = tuple(s)
        acc.add(tuple(seq))
    return "ok", acc


def oracle_idw_point(stations, ql, qa, tol, max_sites, dl=dlon_short):
    """-> (kind, alternatives) ; kind in dontcare / missing / weights / either(missing or weights)
    alternatives: list of weight vectors (len = number of stations)."""
    n = len(stations)
    d = [math.hypot(dl(sl, ql), sa - qa) for sl, sa in stations]
    if any(abs(x - tol) <= EPS for x in d):
        return "dontcare", []
    if any(ZERO < x <= EPS for x in d):
        return "dontcare", []
    zero = [j for j in range(n) if d[j] <= ZERO]
    if zero:
        alts = []
        for j in zero:
            w = [0.0] * n
            w[j] = 1.0
            alts.append(w)
        return "weights", alts
    R = sorted([j for j in range(n) if d[j] < tol], key=lambda j: d[j])
    if len(R) < 2:
        return "missing", []
    m = min(max_sites, len(R))
    dcut = d[R[m - 1]]
    must = [j for j in R if d[j] < dcut - EPS]
    tied = [j for j in R if abs(d[j] - dcut) <= EPS]
    alts = []
    for extra in itertools.combinations(tied, m - len(must)):
        chosen = must + list(extra)
        tot = sum(1.0 / d[j] for j in chosen)
        w = [0.0] * n
        for j in chosen:
            w[j] = (1.0 / d[j]) / tot
        alts.append(w)
    if m < 2:
        # "up to max_sites=1 stations" vs "missing when fewer than two": the statement does not decide -> either
        return "either", alts
    return "weights", alts


def oracle_bbox(stations, qlons, qlats, tol):
    """-> (definitely_in, dontcare) sets of station indices. The box is numeric in the query's convention."""
    conv = q_convention(qlons)
    lo, hi = min(qlons) - tol, max(qlons) + tol
    la0, la1 = min(qlats) - tol, max(qlats) + tol
    din, dc = set(), set()
    for j, (sl, sa) in enumerate(stations):
        c = float(sl) % 360.0
        l180 = c - 360.0 if c > 180.0 else c
        if conv == "360":
            reps = [c]
        elif conv == "180":
            reps = [l180]
        else:
            reps = [c, l180]
        if sa < la0 - EPS or sa > la1 + EPS:
            continue
        lat_edge = abs(sa - la0) <= EPS or abs(sa - la1) <= EPS
        lon_edge = any(abs(c + k - lo) <= EPS or abs(c + k - hi) <= EPS for k in (-360.0, 0.0, 360.0))
        inside_all = all(lo < r < hi for r in reps)
        inside_any = any(lo - EPS <= c + k <= hi + EPS for k in (-720.0, -360.0, 0.0, 360.0))
        if not inside_any:
            continue
        if inside_all and not lat_edge and not lon_edge:
            din.add(j)
        else:
            dc.add(j)
    return din, dc


def ontree_bbox_model(stations, qlons, qlats, tol):
    """Station ids the algorithm of the unchanged tree computes (box taken in the *dataset's* convention, wrapped branch
    for 0-360 datasets). Used only to label a failure as one of the known defects, never to accept a result."""
    dl = [float(s[0]) for s in stations]
    d360 = min(dl) >= 0 and max(dl) <= 360
    q360 = min(qlons) >= 0 and max(qlons) <= 360
    consistent = d360 == q360
    ql = [float(x) for x in qlons]
    if not consistent:
        if min(ql) < 0 and max(ql) <= 180:
            ql = [x % 360 for x in ql]
        elif q360:
            ql = [x - 360 if x > 180 else x for x in ql]
    lo, hi = min(ql) - tol, max(ql) + tol
    la0, la1 = min(qlats) - tol, max(qlats) + tol
    lat_ok = [la0 <= s[1] <= la1 for s in stations]
    n = len(stations)
    if not (d360 and not consistent):
        return [j for j in range(n) if lat_ok[j] and lo <= dl[j] <= hi]
    return [j for j in range(n) if lat_ok[j] and hi <= dl[j] <= 360] + [j for j in range(n) if lat_ok[j] and 0 <= dl[j] <= lo]


# ---------------------------------------------------------------------------------------------
# dataset under test
# ---------------------------------------------------------------------------------------------
def station_slab(j):
    s = np.zeros((NF, 2))
    s[j, :] = [1.0, 1.5]
    return s


def build_dataset(stations, layout="site"):
    import xarray as xr

    coord_dtype = float
    if layout.endswith("/int"):
        layout, coord_dtype = layout[:-4], np.int64   # whole-degree station coordinates stored as integers

    n = len(stations)
    assert 1 <= n <= NF
    e = np.stack([station_slab(j) for j in range(n)])
    dims = ["site", "freq", "dir"]
    coords = {"site": np.arange(n), "freq": [0.05, 0.1, 0.2, 0.4][:NF], "dir": [0.0, 180.0]}
    if layout == "time_site":
        e = np.stack([e, 2.0 * e])
        dims = ["time"] + dims
        coords["time"] = np.array(["2020-01-01T00:00:00", "2020-01-01T03:00:00"], dtype="datetime64[ns]")
    ds = xr.Dataset(
        {
            "efth": (dims, e),
            "lon": (("site",), np.array([float(s[0]) for s in stations]).astype(coord_dtype)),
            "lat": (("site",), np.array([float(s[1]) for s in stations]).astype(coord_dtype)),
        },
        coords=coords,
    )
    return ds


def pristine(ds, stations):
    return (np.array_equal(np.asarray(ds["lon"].values, dtype=float), np.array([float(s[0]) for s in stations]))
            and np.array_equal(ds["lat"].values, np.array([float(s[1]) for s in stations])))


def call_library(ds, case):
    """Run the selection; -> ("fail", exc) | ("ok", dataset) | ("crash", exc)"""
    from wavespectra.core import select as S

    method, mode = case["method"], case.get("mode", "accessor")
    stations = case["stations"]
    kw = {}
    if method == "nearest":
        kw = dict(unique=bool(case.get("unique", False)), missing=case.get("missing", "raise"))
    elif method == "idw":
        kw = dict(max_sites=int(case["max_sites"]))
    lons, lats = list(case["qlons"]), list(case["qlats"])
    tol = case["tolerance"]
    try:
        if mode == "direct":
            if method == "nearest":
                kw["exact"] = bool(case.get("exact", False))
            fn = {"nearest": S.sel_nearest, "idw": S.sel_idw, "bbox": S.sel_bbox}[method]
            out = fn(ds, lons, lats, tolerance=tol, **kw)
        else:
            m = method
            if method == "nearest" and case.get("exact", False):
                m = None  # SpecDataset.sel: method=None means exact nearest
            if mode == "accessor_pre":
                kw["dset_lons"] = np.array([float(s[0]) for s in stations])
                kw["dset_lats"] = np.array([float(s[1]) for s in stations])
            out = ds.spec.sel(lons, lats, method=m, tolerance=tol, **kw)
    except FAIL_EXC as e:
        return "fail", e
    except Exception as e:  # noqa
        return "crash", e
    return "ok", out


def out_arrays(out, layout):
    """-> (efth[site,freq,dir] (time slice 0), lon[site], lat[site], problem or None)"""
    e = out["efth"]
    order = (["time"] if "time" in e.dims else []) + ["site", "freq", "dir"]
    if set(order) != set(e.dims):
        return None, None, None, "efth dims %s" % (e.dims,)
    a = np.asarray(e.transpose(*order).values, dtype=float)
    prob = None
    if "time" in e.dims:
        if not np.allclose(a[1], 2.0 * a[0], rtol=1e-12, atol=0, equal_nan=True):
            prob = "time steps not selected consistently"
        a = a[0]
    lon = np.asarray(out["lon"].values, dtype=float).reshape(-1)
    lat = np.asarray(out["lat"].values, dtype=float).reshape(-1)
    return a, lon, lat, prob


def decode_station(slab, n):
    """Index of the station whose slab this is, or None."""
    for j in range(n):
        if np.allclose(slab, station_slab(j), rtol=1e-12, atol=1e-15):
            return j
    return None


def decode_weights(slab, n):
    """weights per station from a one-hot coded slab; None if the slab is not a combination of station slabs."""
    w = slab[:n, 0].copy()
    rec = np.zeros((NF, 2))
    for j in range(n):
        rec += w[j] * station_slab(j)
    if not np.allclose(slab, rec, rtol=1e-9, atol=1e-12):
        return None
    return w


# ---------------------------------------------------------------------------------------------
# one case
# ---------------------------------------------------------------------------------------------
def dset_conv_name(stations):
    lons = [s[0] for s in stations]
    if min(lons) < 0:
        return "180"
    if max(lons) > 180:
        return "360"
    return "either"


def straddles_greenwich(stations, qlons):
    return any(abs(dlon_short(s[0], q) - dlon_nowrap(s[0], q)) > EPS for s in stations for q in qlons)


def _opts(case):
    return "unique=%d,exact=%d,missing=%s" % (bool(case.get("unique")), bool(case.get("exact")), case.get("missing", "raise"))


def check_case(case, ds=None):
    """Run one case against the library and the oracle. -> (violations, outcome label, nontrivial flag)"""
    common.load_wavespectra()
    stations = [tuple(s) for s in case["stations"]]
    n = len(stations)
    layout = case.get("layout", "site")
    if ds is None:
        ds = build_dataset(stations, layout)
    method = case["method"]
    qlons, qlats = list(case["qlons"]), list(case["qlats"])
    tol = case["tolerance"]
    qconv = q_convention(qlons)
    dconv = dset_conv_name(stations)
    status, out = call_library(ds, case)
    V = []

    def viol(sig, msg):
        V.append(Violation(PROP, sig, msg + " | stations(lon,lat)=%s query lons=%s lats=%s tol=%s mode=%s" % (
            stations, qlons, qlats, tol, case.get("mode", "accessor")), dict(case)))

    if status == "crash":
        viol("%s|unexpected-exception|%s,dset=%s,query=%s" % (method, type(out).__name__, dconv, qconv),
             "selection raised %s: %s" % (type(out).__name__, str(out)[:200]))
        return V, method + ":crash", False
    a = lon = lat = None
    if status == "ok":
        a, lon, lat, prob = out_arrays(out, layout)
        if a is None or prob:
            viol("%s|result-structure|layout=%s" % (method, layout), "malformed result: %s" % (prob,))
            return V, method + ":malformed", False
        if not (a.shape[0] == lon.shape[0] == lat.shape[0]):
            viol("%s|result-structure|layout=%s" % (method, layout), "site sizes differ efth %s lon %s lat %s" % (a.shape, lon.shape, lat.shape))
            return V, method + ":malformed", False

    def check_lonlat(k, exp_lon, exp_lat, what):
        if not (dlon_short(lon[k], exp_lon) <= 1e-9 and lon_in_convention(lon[k], qconv)):
            viol("%s|lon-in-query-convention|dset=%s,query=%s" % (method, dconv, qconv),
                 "%s: reported lon %r, expected %r (mod 360) in the query's convention [%s]" % (what, float(lon[k]), exp_lon, qconv))
        if not abs(lat[k] - exp_lat) <= 1e-9:
            viol("%s|lat-reported|dset=%s,query=%s" % (method, dconv, qconv), "%s: reported lat %r, expected %r" % (what, float(lat[k]), exp_lat))

    # ------------------------------------------------------------------ nearest
    if method == "nearest":
        unique, exact, missing = bool(case.get("unique")), bool(case.get("exact")), case.get("missing", "raise")
        kind, acc = oracle_nearest(stations, qlons, qlats, tol, unique, exact, missing)
        if kind == "dontcare":
            return V, "nearest:dontcare-boundary", False
        got = None
        if status == "ok":
            got = tuple(decode_station(a[k], n) for k in range(a.shape[0]))
        good = (kind == "fail" and status == "fail") or (kind == "ok" and status == "ok" and got in acc)
        if not good:
            k2, acc2 = oracle_nearest(stations, qlons, qlats, tol, unique, exact, missing, dl=dlon_nowrap)
            as_nowrap = (k2 == "fail" and status == "fail") or (k2 == "ok" and status == "ok" and got in acc2)
            if as_nowrap and straddles_greenwich(stations, qlons):
                sig = "nearest|short-way-distance|query-and-station-either-side-of-greenwich"
            else:
                sig = "nearest|min-distance-or-tolerance|%s,dset=%s,query=%s" % (_opts(case), dconv, qconv)
            exp = "failure" if kind == "fail" else "stations %s" % sorted(acc)
            obs = ("failure (%s)" % str(out)[:120]) if status == "fail" else "stations %s" % (got,)
            viol(sig, "nearest: expected %s, got %s" % (exp, obs))
        elif status == "ok":
            for k, j in enumerate(got):
                check_lonlat(k, stations[j][0], stations[j][1], "site %d (station %d)" % (k, j))
        nontriv = n >= 2 and kind == "ok"
        return V, "nearest:" + ("selected" if kind == "ok" else "failed"), nontriv

    # ------------------------------------------------------------------ idw
    if method == "idw":
        ms = int(case["max_sites"])
        if status == "fail":
            viol("idw|never-fails|dset=%s,query=%s" % (dconv, qconv), "idw raised %s" % str(out)[:150])
            return V, "idw:raised", False
        if a.shape[0] != len(qlons):
            viol("idw|one-site-per-query-point|dset=%s,query=%s" % (dconv, qconv), "%d sites returned for %d query points" % (a.shape[0], len(qlons)))
            return V, "idw:malformed", False
        labels = set()
        nontriv = False
        for k, (ql, qa) in enumerate(zip(qlons, qlats)):
            kind, alts = oracle_idw_point(stations, ql, qa, tol, ms)
            check_lonlat(k, ql, qa, "query point %d" % k)
            if kind == "dontcare":
                labels.add("dontcare")
                continue
            isnan = bool(np.isnan(a[k]).all())
            w = None if isnan or np.isnan(a[k]).any() else decode_weights(a[k], n)

            def matches(kind_, alts_):
                if kind_ == "dontcare":
                    return True
                if kind_ in ("missing", "either") and isnan:
                    return True
                if kind_ in ("weights", "either") and w is not None:
                    return any(np.allclose(w, alt, rtol=0, atol=1e-9) for alt in alts_)
                return False

            labels.add(kind if kind != "weights" else ("station-itself" if max(alts[0]) == 1.0 else "weights"))
            if kind == "weights" and max(alts[0]) < 1.0:
                nontriv = True
            if matches(kind, alts):
                continue
            k2, alts2 = oracle_idw_point(stations, ql, qa, tol, ms, dl=dlon_nowrap)
            if matches(k2, alts2) and straddles_greenwich(stations, [ql]):
                sig = "idw|short-way-distance|query-and-station-either-side-of-greenwich"
            else:
                sig = "idw|inverse-distance-weights|expected=%s,max_sites%s,dset=%s,query=%s" % (
                    kind, "=1" if ms == 1 else ">=2", dconv, qconv)
            exp = "missing (NaN)" if kind == "missing" else "%s weights %s" % (kind, [[round(x, 6) for x in al] for al in alts])
            obs = "missing (NaN)" if isnan else ("weights %s" % [round(float(x), 6) for x in w] if w is not None else "efth %s" % a[k, :, 0].tolist())
            viol(sig, "idw point %d (%s,%s) max_sites=%d: expected %s, got %s" % (k, ql, qa, ms, exp, obs))
        return V, "idw:" + "+".join(sorted(labels)), nontriv

    # ------------------------------------------------------------------ bbox
    if method == "bbox":
        din, dc = oracle_bbox(stations, qlons, qlats, tol)
        got = None
        if status == "ok":
            got = [decode_station(a[k], n) for k in range(a.shape[0])]
        if status == "fail":
            good = not din
        else:
            gs = set(got)
            good = (None not in gs) and len(gs) == len(got) and len(got) > 0 and din <= gs <= (din | dc)
        if not good:
            dset360 = min(s[0] for s in stations) >= 0
            mod = ontree_bbox_model(stations, qlons, qlats, tol)
            as_ontree = (status == "fail" and not mod) or (status == "ok" and sorted(mod) == sorted(x for x in got if x is not None) and len(mod) == len(got))
            if not as_ontree:
                sig = "bbox|stations-inside-box|dset=%s,query=%s,tol%s" % (dconv, qconv, ">0" if tol > 0 else "=0")
            elif dset360 and qconv == "180" and max(qlons) < 0:
                sig = "bbox|stations-inside-box|dset360-query180-box-west-of-greenwich"
            elif dset360 and qconv == "180" and tol > 0:
                sig = "bbox|widened-by-tolerance|dset360-query180-box-straddles-greenwich"
            elif (not dset360) and qconv == "360" and min(qlons) <= 180:
                sig = "bbox|box-in-query-convention|dset180-query360-box-spans-180-meridian"
            elif (not dset360) and qconv == "360" and min(qlons) > 180 and tol > 0 and min(qlons) - tol <= 180:
                sig = "bbox|box-in-query-convention|dset180-query360-widened-box-crosses-180-meridian"
            else:
                sig = "bbox|stations-inside-box|dset=%s,query=%s,tol%s" % (dconv, qconv, ">0" if tol > 0 else "=0")
            obs = ("failure (%s)" % str(out)[:100]) if status == "fail" else "stations %s" % (got,)
            viol(sig, "bbox [%s,%s]x[%s,%s] (query convention %s): expected stations %s (don't-care %s), got %s" % (
                min(qlons) - tol, max(qlons) + tol, min(qlats) - tol, max(qlats) + tol, qconv, sorted(din), sorted(dc), obs))
        elif status == "ok":
            for k, j in enumerate(got):
                check_lonlat(k, stations[j][0], stations[j][1], "site %d (station %d)" % (k, j))
        nontriv = bool(din) and len(din | dc) < n
        return V, "bbox:" + ("selected" if din else ("failed-or-dontcare" if dc else "failed")), nontriv
    raise ValueError(method)


def replay(case):
    case = dict(case)
    case["stations"] = [tuple(s) for s in case["stations"]]
    vs, _, _ = check_case(case)
    return vs


# ---------------------------------------------------------------------------------------------
# the bounded space
# ---------------------------------------------------------------------------------------------
def menus(tier, seed):
    v = VARIANTS[seed % len(VARIANTS)]
    so, qa, qb, slat, qlat = v["so"], v["qa"], v["qb"], v["slat"], v["qlat"]
    near = [so, 360 - so, 180 - so, 180 + so]
    if tier == "quick":
        st = [(x, 0.0) for x in near] + [(90.0, 0.0), (270.0, 0.0), (so, slat), (360 - so, slat)]
        st_idw = [(x, 0.0) for x in near] + [(so, slat), (360 - so, slat)]
        tol_n, tol_i, tol_b, msites = [0.3, 1.2, 5.0, 0.0, float(so)], [0.3, 1.2, 5.0], [0.0, 1.2], [1, 2, 4]
    else:
        st = [(x, 0.0) for x in near] + [(90.0, 0.0), (270.0, 0.0)] + [(x, slat) for x in near]
        st_idw = st[:6] + [(so, slat), (360 - so, slat)]
        tol_n, tol_i, tol_b, msites = [0.3, 1.2, 5.0, 100.0, 0.0, float(so)], [0.3, 1.2, 5.0, 100.0], [0.0, 0.3, 1.2, 5.0], [1, 2, 3, 4]
    st = [(_num(a), _num(b)) for a, b in st]
    st_idw = [(_num(a), _num(b)) for a, b in st_idw]
    plons = [0, qa, 360 - qb, 360 - so, 180, 180 - qb, 180 + qa, 90.2, 270]  # 360-so and 270 coincide with stations
    pts = [(_num(x), _num(y)) for y in (0.0, qlat) for x in plons]  # canonical, lon in [0,360)
    small = st[:4] + st[6:8] if tier == "quick" else st[:6]  # reduced menu for the options / call-mode products
    return dict(tier=tier, stations=st, stations_idw=st_idw, stations_small=small, points=pts, tol_nearest=tol_n, tol_idw=tol_i,
                tol_bbox=tol_b, max_sites=msites, variant=v)


def express_stations(sub, conv):
    if conv == "360":
        return [(_num(a), b) for a, b in sub]
    return [(_num(a - 360) if a > 180 else _num(a), b) for a, b in sub]


def express_query(points, conv):
    """query list in one convention; in the 180 convention 180E is written -180 (forces the convention)."""
    if conv == "360":
        return [_num(p[0]) for p in points], [p[1] for p in points]
    return [_num(p[0] - 360) if p[0] >= 180 else _num(p[0]) for p in points], [p[1] for p in points]


def query_lists(points, singles=True, pairs=True, dups=True):
    """distinct (qlons, qlats) lists: singles, duplicated points, every unordered pair; in both conventions."""
    seen, out = set(), []
    combos = []
    if singles:
        combos += [(p,) for p in points]
    if dups:
        combos += [(p, p) for p in points]
    if pairs:
        combos += list(itertools.combinations(points, 2))
    for c in combos:
        for conv in ("360", "180"):
            ql, qa = express_query(c, conv)
            key = (tuple(ql), tuple(qa))
            if key not in seen:
                seen.add(key)
                out.append((ql, qa))
    return out


def datasets(menu, kmax=4):
    """every subset of 1..kmax stations in both conventions (the 180 one only when it differs); simplest first."""
    out = []
    for k in range(1, kmax + 1):
        for sub in itertools.combinations(menu, k):
            a = express_stations(sub, "360")
            b = express_stations(sub, "180")
            out.append(a)
            if b != a:
                out.append(b)
    return out


def work_items(tier, seed, parts):
    M = menus(tier, seed)
    items = []
    want = lambda p: parts is None or p in parts
    lat0 = [p for p in M["points"] if p[1] == 0]
    if want("nearest"):
        for st in datasets(M["stations"]):
            items.append(dict(part="nearest", stations=st))
    if want("bbox"):
        for st in datasets(M["stations"]):
            items.append(dict(part="bbox", stations=st))
    if want("idw"):
        for st in datasets(M["stations_idw"]):
            items.append(dict(part="idw", stations=st))
    if want("options"):
        for st in datasets(M["stations_small"], 2):
            items.append(dict(part="options", stations=st))
    if want("modes"):
        for st in datasets(M["stations_small"], 2):
            for layout in ("site", "time_site"):
                items.append(dict(part="modes", stations=st, layout=layout))
        # whole-degree stations whose lon/lat are stored with an integer dtype, fractional queries
        whole = [(1, 0), (359, 0), (179, 0), (181, 0), (1, 1), (359, -1)]
        for st in datasets(whole, 2):
            items.append(dict(part="modes", stations=st, layout="site/int"))
    if want("cluster"):
        # nearshore clusters: stations less than 1e-3 degree apart (closer than a relative float tolerance on the longitude value)
        clusters = [((359.5, 0), (359.5008, 0)), ((150.0, 0), (150.0008, 0)), ((180.5, 0), (180.5008, 0.0004)), ((0.5, 0), (0.5002, 0), (0.5004, 0))]
        for cl in clusters:
            for order in (cl, cl[::-1]):
                for conv in ("360", "180"):
                    items.append(dict(part="cluster", stations=express_stations(tuple((float(a), float(b)) for a, b in order), conv)))
    items.sort(key=lambda it: len(it["stations"]))
    return items, M


def cases_of(item, M):
    """generator of the cases of one work item (one dataset)."""
    st = item["stations"]
    part = item["part"]
    pts = M["points"]
    lat0 = [p for p in pts if p[1] == 0]
    base = dict(stations=st, layout=item.get("layout", "site"))
    if part == "nearest":
        qs = query_lists(pts) if M["tier"] == "thorough" else query_lists(pts, pairs=False) + query_lists(lat0, singles=False, dups=False)
        for ql, qa in qs:
            for tol in M["tol_nearest"]:
                yield dict(base, method="nearest", qlons=ql, qlats=qa, tolerance=tol, mode="accessor")
    elif part == "bbox":
        bpts = pts if M["tier"] == "thorough" else lat0 + [p for p in pts if p[1] != 0][1:3] + [p for p in pts if p[1] != 0][6:7]
        for ql, qa in query_lists(bpts, singles=False):
            for tol in M["tol_bbox"]:
                yield dict(base, method="bbox", qlons=ql, qlats=qa, tolerance=tol, mode="accessor")
    elif part == "idw":
        qs = query_lists(pts, pairs=False, dups=False)
        for conv in ("360", "180"):  # the whole point menu in one query, first point duplicated at the end
            qs.append(express_query(pts + pts[:1], conv))
        for ql, qa in qs:
            for tol in M["tol_idw"]:
                for ms in M["max_sites"]:
                    yield dict(base, method="idw", qlons=ql, qlats=qa, tolerance=tol, max_sites=ms, mode="accessor")
    elif part == "options":
        for ql, qa in query_lists(lat0):
            for tol in M["tol_nearest"][:3]:
                for unique, exact, missing in itertools.product((False, True), (False, True), ("raise", "ignore")):
                    if (unique, exact, missing) == (False, False, "raise"):
                        continue
                    yield dict(base, method="nearest", qlons=ql, qlats=qa, tolerance=tol, unique=unique, exact=exact,
                               missing=missing, mode="direct" if unique else "accessor")
    elif part == "cluster":
        # queries exactly on every cluster member and 1e-4 degree east of it, in both conventions, nearest and idw
        pts_c = []
        for (lo, la) in st:
            lo360 = lo % 360
            pts_c += [(lo360, la), ((lo360 + 1e-4) % 360, la)]
        for ql, qa in query_lists(pts_c, pairs=False, dups=False):
            for mode in ("accessor", "direct"):
                yield dict(base, method="nearest", qlons=ql, qlats=qa, tolerance=0.5, mode=mode)
            yield dict(base, method="idw", qlons=ql, qlats=qa, tolerance=0.5, max_sites=2, mode="accessor")
    elif part == "modes":
        for mode in ("accessor", "accessor_pre", "direct"):
            if mode == "accessor" and base["layout"] == "site":
                continue  # already in the main parts
            for ql, qa in query_lists(lat0):
                for tol in (0.3, 5.0):
                    yield dict(base, method="nearest", qlons=ql, qlats=qa, tolerance=tol, mode=mode)
                    if len(ql) == 2:
                        yield dict(base, method="bbox", qlons=ql, qlats=qa, tolerance=tol, mode=mode)
            for ql, qa in query_lists(lat0, pairs=False, dups=False):
                for tol in (1.2, 5.0):
                    for ms in (2, 4):
                        yield dict(base, method="idw", qlons=ql, qlats=qa, tolerance=tol, max_sites=ms, mode=mode)
    else:
        raise ValueError(part)


_MENU = None


def run_item(item):
    M = _MENU
    st = item["stations"]
    layout = item.get("layout", "site")
    res = {"evals": 0, "n_nontrivial": 0, "samples": [], "outcomes": {}, "violations": [], "parts": {}}
    ds = build_dataset(st, layout)
    seen_sig = set()
    for case in cases_of(item, M):
        vs, label, nontriv = check_case(case, ds)
        res["evals"] += 1
        res["n_nontrivial"] += int(bool(nontriv))
        res["outcomes"][label] = res["outcomes"].get(label, 0) + 1
        if not pristine(ds, st):
            res["outcomes"]["input-dataset-mutated-by-call"] = res["outcomes"].get("input-dataset-mutated-by-call", 0) + 1
            ds = build_dataset(st, layout)
        if vs:
            fresh = replay(case)  # exactly what --replay runs: fresh dataset, single case
            if not fresh:
                fresh = [Violation(PROP, v.signature + "|shared-dataset-only", v.message, v.case) for v in vs]
            for v in fresh:
                k = "VIOLATIONS " + v.signature
                res["outcomes"][k] = res["outcomes"].get(k, 0) + 1
                if v.signature not in seen_sig:  # first (simplest) case per signature per dataset
                    seen_sig.add(v.signature)
                    res["violations"].append(v)
        elif nontriv and not res["samples"] and res["evals"] % 7 == 0:
            res["samples"].append(dict(case, outcome=label))
    res["parts"][item["part"]] = res["evals"]
    return res


def run(rep, tier, seed, parts=None):
    global _MENU
    common.load_wavespectra()
    items, M = work_items(tier, seed, parts)
    _MENU = M
    rep.rule = (
        "every subset of 1..4 stations of the station menu, in [0,360] and (when different) [-180,180]; nearest: every single "
        "point, duplicated point and unordered pair of the point menu (quick: pairs among the lat=0 points only) in both query "
        "conventions x tolerance; bbox: every pair "
        "(incl. degenerate; quick: of the lat=0 points and three points at the second latitude) x tolerance; idw: every single point in both conventions and the whole point menu (+ a duplicate) "
        "in one query x tolerance x max_sites; options part: all unique/exact/missing combinations (exact through method=None) "
        "and modes part: accessor / accessor+precomputed dset_lons,lats / direct function x layout (site, time+site) on every "
        "subset of 1..2 stations of the reduced menu. Non-trivial = nearest with >=2 stations and a selection expected; idw "
        "with a genuine >=2-station weighting; bbox with some stations inside and some outside.")
    rep.extra["menus"] = {k: v for k, v in M.items()}
    rep.extra["datasets"] = len(items)
    rep.assumptions = [
        "distance is the library's planar metric in degrees, sqrt(dlon^2+dlat^2), with dlon taken the short way round",
        "ties in distance (<=1e-9) accept any tied station; distances within 1e-9 of the tolerance are don't-care",
        "idw with max_sites=1 and >=2 stations in range: NaN and the nearest station are both accepted (statement ambiguous)",
        "bbox: a station is demanded inside only if its longitude in the query's convention is numerically inside the widened box, "
        "demanded outside only if no 360-degree shift of it is inside; when the query fits both conventions both readings are don't-care",
        "failure = AssertionError or ValueError; order of bbox result and content of other variables are not examined",
    ]
    for res in common.pmap(run_item, items):
        rep.merge(res)
