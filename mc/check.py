"""CLI: python -m mc.check <ID> [--tier quick|thorough] [--replay path]

Exit 0: the property held on everything explored (known findings are listed as KNOWN-FINDING lines).
Exit 1: at least one violation not listed in known_findings.json; a `VIOLATION property=<id> replay=<path>`
line is printed per distinct signature.
"""
import argparse
import importlib
import json
import os
import sys


def main(argv=None):
    ap = argparse.ArgumentParser()
    ap.add_argument("prop")
    ap.add_argument("--tier", default=os.environ.get("VERIF_TIER", "quick"), choices=["quick", "thorough"])
    ap.add_argument("--replay", default=None)
    ap.add_argument("--part", default=None, help="run only the named part(s) of the check, comma separated (debugging)")
    a = ap.parse_args(argv)
    if os.environ.get("PYTHONHASHSEED") != "0":
        os.environ["PYTHONHASHSEED"] = "0"
        os.execv(sys.executable, [sys.executable, "-m", "mc.check"] + (argv or sys.argv[1:]))
    os.environ.setdefault("OMP_NUM_THREADS", "1")
    os.environ.setdefault("OPENBLAS_NUM_THREADS", "1")
    os.environ.setdefault("MKL_NUM_THREADS", "1")
    os.environ.setdefault("MPLBACKEND", "Agg")
    seed = int(os.environ.get("VERIF_SEED", "0") or 0)
    from mc import common

    prop = a.prop.upper()
    mod = importlib.import_module("mc.props." + prop.lower())
    if a.replay:
        with open(a.replay) as f:
            body = json.load(f)
        case = common.unjson(body["case"])
        vs = mod.replay(case)
        if vs:
            for v in vs:
                print("replay: still violated: %s :: %s" % (v.signature, v.message[:600]))
            print("VIOLATION property=%s replay=%s" % (prop, a.replay))
            return 1
        print("replay: case passes on this tree")
        return 0
    rep = common.Report(prop, a.tier, seed, level=getattr(mod, "LEVEL", "exploration"))
    parts = a.part.split(",") if a.part else None
    mod.run(rep, a.tier, seed, parts)
    if parts:
        rep.cap("debug run restricted to parts %s" % parts)
    return rep.finish()


if __name__ == "__main__":
    sys.exit(main())
