"""Shared machinery for the bounded-exhaustive explorers.

* locating / building the code under test from VERIF_REPO (default /repo): python sources are put first
  on sys.path and the C extension is rebuilt from specpart.c + specpart_wrap.c into
  /verif/.build/<content-hash>/ and installed in sys.modules *before* wavespectra is imported;
* violations, replay files, known findings, evidence files;
* a fork-based parallel map that keeps enumeration order (simplest first).
"""
from __future__ import annotations

import hashlib
import importlib.machinery
import importlib.util
import json
import math
import multiprocessing as mp
import os
import subprocess
import sys
import sysconfig
import time
import warnings
from dataclasses import dataclass, field

VERIF = os.path.dirname(os.path.dirname(os.path.abspath(__file__)))
BUILD = os.path.join(VERIF, ".build")
EVIDENCE = os.path.join(VERIF, "evidence")
REPLAYS = os.path.join(VERIF, "replays")
KNOWN = os.path.join(VERIF, "known_findings.json")
if os.path.abspath(os.environ.get("VERIF_REPO", "/repo")) != "/repo":
    # runs against scratch copies (mutants) never touch the committed evidence / replay directories
    EVIDENCE = os.path.join(BUILD, "scratch_evidence")
    REPLAYS = os.path.join(BUILD, "scratch_replays")
NCPU = int(os.environ.get("VERIF_NCPU", "16"))


def repo_root() -> str:
    return os.path.abspath(os.environ.get("VERIF_REPO", "/repo"))


def specpart_dir() -> str:
    return os.path.join(repo_root(), "wavespectra", "partition", "specpart")


def _hash_files(paths, extra=""):
    h = hashlib.sha256()
    for p in paths:
        with open(p, "rb") as f:
            h.update(p.encode() + b"\0" + f.read() + b"\0")
    h.update(extra.encode())
    return h.hexdigest()[:16]


def build_ext() -> str:
    """Compile the python extension from the repo's working tree (cached by content hash)."""
    import numpy

    d = specpart_dir()
    srcs = [os.path.join(d, f) for f in ("specpart.c", "specpart_wrap.c", "specpart.h")]
    flags = ["-O2", "-shared", "-fPIC", "-I" + sysconfig.get_paths()["include"], "-I" + numpy.get_include(), "-I" + d]
    key = _hash_files(srcs, " ".join(flags) + sys.version)
    outdir = os.path.join(BUILD, key)
    out = os.path.join(outdir, "specpart.so")
    if not os.path.exists(out):
        os.makedirs(outdir, exist_ok=True)
        tmp = out + ".%d.tmp" % os.getpid()
        cmd = ["gcc"] + flags + srcs[:2] + ["-lm", "-o", tmp]
        r = subprocess.run(cmd, capture_output=True, text=True)
        if r.returncode != 0:
            raise RuntimeError("extension build failed:\n" + r.stderr)
        os.replace(tmp, out)
    return out


def build_cdriver(sanitize=True) -> str:
    """Compile the standalone C driver (mc/cdrv/driver.c) against the repo's specpart.c."""
    d = specpart_dir()
    drv = os.path.join(VERIF, "mc", "cdrv", "driver.c")
    srcs = [drv, os.path.join(d, "specpart.c"), os.path.join(d, "specpart.h")]
    if sanitize:
        cc = ["clang", "-g", "-O1", "-fsanitize=address,undefined", "-fno-sanitize-recover=all", "-fno-omit-frame-pointer"]
    else:
        cc = ["gcc", "-O2"]
    key = _hash_files(srcs, " ".join(cc))
    outdir = os.path.join(BUILD, key)
    out = os.path.join(outdir, "driver_asan" if sanitize else "driver_fast")
    if not os.path.exists(out):
        os.makedirs(outdir, exist_ok=True)
        tmp = out + ".%d.tmp" % os.getpid()
        cmd = cc + ["-I" + d, drv, os.path.join(d, "specpart.c"), "-lm", "-o", tmp]
        r = subprocess.run(cmd, capture_output=True, text=True)
        if r.returncode != 0:
            raise RuntimeError("driver build failed:\n" + r.stderr)
        os.replace(tmp, out)
    return out


_loaded = None


def load_wavespectra():
    """Import wavespectra from VERIF_REPO with the freshly built extension. Idempotent."""
    global _loaded
    if _loaded is not None:
        return _loaded
    root = repo_root()
    if "wavespectra" in sys.modules:
        raise RuntimeError("wavespectra imported before load_wavespectra()")
    so = build_ext()
    sys.path.insert(0, root)
    warnings.filterwarnings("ignore")
    os.environ.setdefault("PYTHONWARNINGS", "ignore")
    name = "wavespectra.partition.specpart"
    loader = importlib.machinery.ExtensionFileLoader(name, so)
    spec = importlib.util.spec_from_file_location(name, so, loader=loader)
    mod = importlib.util.module_from_spec(spec)
    loader.exec_module(mod)
    sys.modules[name] = mod
    import wavespectra  # noqa
    import wavespectra.partition.partition as pp

    assert os.path.abspath(wavespectra.__file__).startswith(root + os.sep), (wavespectra.__file__, root)
    assert pp.specpart is mod, "rebuilt extension not in use"
    import wavespectra.partition as pkg

    pkg.specpart = mod
    import dask

    dask.config.set(scheduler="synchronous")
    _loaded = wavespectra
    return wavespectra


# ---------------------------------------------------------------------------------------------
# violations / findings
# ---------------------------------------------------------------------------------------------
@dataclass
class Violation:
    prop: str
    signature: str  # stable key: "<operation>|<oracle clause>|<discriminating predicate>"
    message: str
    case: dict = field(default_factory=dict)  # everything needed to replay this single case

    def to_json(self):
        return {"property": self.prop, "signature": self.signature, "message": self.message, "case": jsonable(self.case)}


def jsonable(x):
    import numpy as np

    if isinstance(x, dict):
        return {str(k): jsonable(v) for k, v in x.items()}
    if isinstance(x, (list, tuple)):
        return [jsonable(v) for v in x]
    if isinstance(x, np.ndarray):
        return jsonable(x.tolist())
    if isinstance(x, (np.floating,)):
        x = float(x)
    if isinstance(x, (np.integer,)):
        return int(x)
    if isinstance(x, (np.bool_,)):
        return bool(x)
    if isinstance(x, float):
        if math.isnan(x):
            return "NaN"
        if math.isinf(x):
            return "Infinity" if x > 0 else "-Infinity"
        return x
    if isinstance(x, (str, int, bool)) or x is None:
        return x
    return repr(x)


def unjson(x):
    """Inverse of jsonable for floats encoded as strings."""
    if isinstance(x, dict):
        return {k: unjson(v) for k, v in x.items()}
    if isinstance(x, list):
        return [unjson(v) for v in x]
    if x == "NaN":
        return float("nan")
    if x == "Infinity":
        return float("inf")
    if x == "-Infinity":
        return float("-inf")
    return x


def load_known():
    if not os.path.exists(KNOWN):
        return []
    with open(KNOWN) as f:
        return json.load(f)["findings"]


class Report:
    """Collects coverage and violations of one check run, writes evidence, decides the exit code."""

    def __init__(self, prop, tier, seed, level="exploration"):
        self.prop, self.tier, self.seed, self.level = prop, tier, seed, level
        self.t0 = time.time()
        self.evaluations = 0
        self.nontrivial = set()
        self.nontrivial_extra = 0
        self.rule = ""
        self.samples = []
        self.outcomes = {}
        self.violations = []  # list[Violation]
        self.extra = {}
        self.assumptions = []
        self.exhaustive = True
        self.caps = []
        self.states = None
        self.transitions = None
        self.traces = None
        self.parts = {}

    # -- accumulation ------------------------------------------------------------------------
    def merge(self, res):
        """Merge a worker result dict: {evals, nontrivial:[hashes], n_nontrivial, samples, outcomes, violations}."""
        if res is None:
            return
        if isinstance(res, Hang):
            self.violations.append(Violation(self.prop, "harness|no-result:" + res.why.split(":")[0].split("(")[0].strip() + "|",
                                             "work item produced no result: %s; item=%s" % (res.why, repr(jsonable(res.item))[:1500]),
                                             {"work_item": jsonable(res.item), "why": res.why}))
            self.cap("a work item did not complete: " + res.why[:80])
            return
        self.evaluations += int(res.get("evals", 0))
        for h in res.get("nontrivial", ()):
            self.nontrivial.add(h)
        self.nontrivial_extra += int(res.get("n_nontrivial", 0))
        for s in res.get("samples", ()):
            if len(self.samples) < 12:
                self.samples.append(s)
        for k, v in res.get("outcomes", {}).items():
            self.outcomes[k] = self.outcomes.get(k, 0) + v
        for v in res.get("violations", ()):
            self.violations.append(v)
        for k, v in res.get("parts", {}).items():
            self.parts[k] = self.parts.get(k, 0) + v
        if res.get("states") is not None:
            self.states = (self.states or 0) + res["states"]
        if res.get("transitions") is not None:
            self.transitions = (self.transitions or 0) + res["transitions"]
        if res.get("traces") is not None:
            self.traces = (self.traces or 0) + res["traces"]
        for c in res.get("caps", ()):
            self.cap(c)

    def cap(self, text):
        self.exhaustive = False
        if text not in self.caps:
            self.caps.append(text)

    # -- finish --------------------------------------------------------------------------------
    def finish(self):
        known = [k for k in load_known() if k.get("property") == self.prop]
        known_open = {k["signature"]: k for k in known if k.get("status") == "known"}
        by_sig = {}
        for v in self.violations:
            by_sig.setdefault(v.signature, []).append(v)
        n_new = 0
        lines = []
        known_hit = []
        for sig, vs in by_sig.items():
            if sig in known_open:
                known_hit.append(sig)
                lines.append("KNOWN-FINDING: property=%s %s [%s] (%d cases this run; first: %s)" % (
                    self.prop, known_open[sig].get("what", ""), sig, len(vs), vs[0].message[:200]))
                continue
            n_new += 1
            v = vs[0]
            os.makedirs(os.path.join(REPLAYS, self.prop), exist_ok=True)
            body = v.to_json()
            body["count_this_run"] = len(vs)
            h = hashlib.sha256(json.dumps(body, sort_keys=True).encode()).hexdigest()[:12]
            path = os.path.join(REPLAYS, self.prop, h + ".json")
            with open(path, "w") as f:
                json.dump(body, f, indent=1, sort_keys=True)
            lines.append("  signature: %s\n  message: %s\n  cases with this signature: %d" % (sig, v.message[:600], len(vs)))
            lines.append("VIOLATION property=%s replay=%s" % (self.prop, path))
        wall = time.time() - self.t0
        cov = {
            "evaluations": int(self.evaluations),
            "distinct_nontrivial": int(len(self.nontrivial) + self.nontrivial_extra),
            "rule": self.rule,
            "samples": jsonable(self.samples[:12]),
            "exhaustive": bool(self.exhaustive),
            "caps_hit": self.caps,
            "distinct_outcomes": {k: int(v) for k, v in sorted(self.outcomes.items())[:60]},
            "parts": {k: int(v) for k, v in sorted(self.parts.items())},
            "known_findings_seen": known_hit,
            "repo": repo_root(),
        }
        if self.states is not None:
            cov["states"] = int(self.states)
            cov["transitions"] = int(self.transitions or 0)
            cov["traces_validated_against_impl"] = int(self.traces or 0)
        cov.update(jsonable(self.extra))
        ev = {
            "property_id": self.prop,
            "tier": self.tier,
            "seed": int(self.seed),
            "level": self.level,
            "coverage": cov,
            "assumptions": self.assumptions,
            "wall_s": round(wall, 2),
            "violations": n_new,
        }
        os.makedirs(EVIDENCE, exist_ok=True)
        tmp = os.path.join(EVIDENCE, self.prop + ".json.tmp")
        with open(tmp, "w") as f:
            json.dump(ev, f, indent=1, sort_keys=True)
        os.replace(tmp, os.path.join(EVIDENCE, self.prop + ".json"))
        print("%s tier=%s seed=%d evaluations=%d distinct_nontrivial=%d exhaustive=%s wall=%.1fs parts=%s" % (
            self.prop, self.tier, self.seed, cov["evaluations"], cov["distinct_nontrivial"], cov["exhaustive"], wall,
            json.dumps(cov["parts"])))
        for ln in lines:
            print(ln)
        sys.stdout.flush()
        return 1 if n_new else 0


# ---------------------------------------------------------------------------------------------
# parallel map (fork; the parent has already imported wavespectra so children share it).
# Workers are watched: an item that hangs (e.g. an endless loop inside the C routine) or kills its worker
# (segfault, abort) is reported as a Hang result instead of blocking the run.
# ---------------------------------------------------------------------------------------------
class Hang:
    def __init__(self, item, why):
        self.item, self.why = item, why


def _worker(func, items, conn):
    """worker end of one private pipe: receives item indices, sends back ("done"|"error", index, payload)"""
    while True:
        try:
            i = conn.recv()
        except (EOFError, OSError):
            return
        if i is None:
            return
        try:
            r = func(items[i])
            conn.send(("done", i, r))
        except BaseException as e:  # noqa
            import traceback

            try:
                conn.send(("error", i, "%s: %s\n%s" % (type(e).__name__, e, traceback.format_exc()[-1500:])))
            except Exception:  # noqa
                return


def pmap(func, items, workers=None, chunksize=1, timeout=None):
    """Ordered parallel map over a list of work items using fork. func is inherited by fork, never pickled; results must
    be picklable. Every worker has its own pipe, so a worker that is killed mid-message (segfault in native code) can only
    break its own channel: the item it was running yields a Hang("worker process died"), an item that exceeds `timeout`
    seconds yields a Hang("no result after ... s") and its worker is killed; a replacement worker is started in both cases."""
    from multiprocessing.connection import wait as _wait

    items = list(items)
    timeout = timeout or float(os.environ.get("VERIF_ITEM_TIMEOUT", "900"))
    nworkers = min(workers or NCPU, max(1, len(items)))
    if os.environ.get("VERIF_SERIAL"):
        for it in items:
            yield func(it)
        return
    ctx = mp.get_context("fork")
    W = {}  # conn -> dict(proc, item, t0)

    def spawn():
        pc, cc = ctx.Pipe(duplex=True)
        p = ctx.Process(target=_worker, args=(func, items, cc), daemon=True)
        p.start()
        cc.close()
        W[pc] = dict(proc=p, item=None, t0=None)
        return pc

    def retire(conn, kill=False):
        w = W.pop(conn)
        try:
            if kill and w["proc"].is_alive():
                w["proc"].kill()
            conn.close()
        except Exception:  # noqa
            pass
        w["proc"].join(5)
        return w

    for _ in range(nworkers):
        spawn()
    pending = list(range(len(items)))[::-1]
    results = {}
    nxt = 0
    ndone = 0
    try:
        while ndone < len(items):
            # hand out work
            for conn, w in list(W.items()):
                if w["item"] is None and pending:
                    i = pending.pop()
                    try:
                        conn.send(i)
                        w["item"], w["t0"] = i, time.time()
                    except (OSError, ValueError):
                        pending.append(i)
                        retire(conn, kill=True)
                        spawn()
            busy = [c for c, w in W.items() if w["item"] is not None]
            ready = _wait(busy, timeout=1.0) if busy else []
            now = time.time()
            for conn in ready:
                w = W[conn]
                i = w["item"]
                try:
                    kind, j, payload = conn.recv()
                    results[i] = payload if kind == "done" else Hang(items[i], "worker raised: " + str(payload))
                    w["item"], w["t0"] = None, None
                except (EOFError, OSError, Exception) as e:  # noqa  (broken channel: the worker died)
                    ww = retire(conn, kill=True)
                    results[i] = Hang(items[i], "worker process died (exit code %s)" % ww["proc"].exitcode)
                    if pending or any(x["item"] is not None for x in W.values()):
                        spawn()
                ndone += 1
            for conn, w in list(W.items()):
                if w["item"] is not None and conn not in ready:
                    i = w["item"]
                    if not w["proc"].is_alive():
                        ww = retire(conn, kill=True)
                        results[i] = Hang(items[i], "worker process died (exit code %s)" % ww["proc"].exitcode)
                        ndone += 1
                        spawn()
                    elif now - w["t0"] > timeout:
                        retire(conn, kill=True)
                        results[i] = Hang(items[i], "no result after %.0f s (hang)" % timeout)
                        ndone += 1
                        spawn()
            while nxt in results:
                yield results.pop(nxt)
                nxt += 1
    finally:
        for conn in list(W):
            try:
                conn.send(None)
            except Exception:  # noqa
                pass
        for conn in list(W):
            w = W.pop(conn)
            w["proc"].join(2)
            if w["proc"].is_alive():
                w["proc"].kill()
            try:
                conn.close()
            except Exception:  # noqa
                pass


def hkey(*parts) -> str:
    h = hashlib.blake2b(digest_size=8)
    for p in parts:
        if hasattr(p, "tobytes"):
            h.update(p.tobytes())
        else:
            h.update(repr(p).encode())
    return h.hexdigest()


def seed_pick(seed, options):
    return options[seed % len(options)]
