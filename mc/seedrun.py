"""Confirm a seeded change and run checks against it.

usage: python -m mc.seedrun <dir with patch.diff, demo.py[, notes.md]> <PROP[,PROP...]> [--keep-as <seed id>] [--tier quick] [--skip-baseline]

Steps (all in a scratch git worktree of /repo outside /repo and /verif, removed afterwards):
  1. demo.py on the pristine tree must exit 0;
  2. apply patch.diff (rebuild the C extension into the worktree if C sources changed); demo.py must now exit != 0;
  3. the pinned baseline (stable_pass of /root/.vp/BASELINE.json) must still pass with the change;
  4. run the named checks with VERIF_REPO pointing at the patched worktree: DETECTED / missed per check.
With --keep-as, the confirmed change is stored under /verif/seeded/<seed id>/ (patch.diff, demo.py, meta.json).
"""
import json
import os
import shutil
import subprocess
import sys
import tempfile
import time

VERIF = os.path.dirname(os.path.dirname(os.path.abspath(__file__)))
PY = "/venv/bin/python"


def sh(cmd, cwd=None, env=None, timeout=7200):
    r = subprocess.run(cmd, cwd=cwd, env=env, capture_output=True, text=True, timeout=timeout)
    return r.returncode, r.stdout, r.stderr


def install_ext(wt):
    env = dict(os.environ, VERIF_REPO=wt)
    rc, out, err = sh([PY, "-c", "from mc import common; print(common.build_ext())"], cwd=VERIF, env=env)
    if rc:
        raise RuntimeError("extension build failed: " + err[-2000:])
    so = out.strip().splitlines()[-1]
    shutil.copy(so, os.path.join(wt, "wavespectra", "partition", "specpart.cpython-312-x86_64-linux-gnu.so"))


def main():
    a = sys.argv[1:]
    keep = None
    tier = "quick"
    skip_base = False
    if "--keep-as" in a:
        i = a.index("--keep-as"); keep = a[i + 1]; del a[i:i + 2]
    if "--tier" in a:
        i = a.index("--tier"); tier = a[i + 1]; del a[i:i + 2]
    if "--skip-baseline" in a:
        a.remove("--skip-baseline"); skip_base = True
    src, props = os.path.abspath(a[0]), a[1].split(",")
    patch = os.path.join(src, "patch.diff")
    demo = os.path.join(src, "demo.py")
    wt = tempfile.mkdtemp(prefix="wsseed_", dir="/tmp")
    os.rmdir(wt)
    meta = {"source_dir": src, "checks": {}, "at": time.strftime("%Y-%m-%dT%H:%M:%S")}
    try:
        rc, out, err = sh(["git", "-C", "/repo", "worktree", "add", "-q", "--detach", wt, "HEAD"])
        if rc:
            print(err); return 2
        meta["repo_head"] = sh(["git", "-C", "/repo", "rev-parse", "--short", "HEAD"])[1].strip()
        install_ext(wt)
        env = dict(os.environ, PYTHONPATH=wt, MPLBACKEND="Agg")
        rc0, o0, e0 = sh([PY, demo], cwd=wt, env=env, timeout=1800)
        meta["demo_pristine_exit"] = rc0
        print("demo on pristine tree: exit %d" % rc0)
        rc, out, err = sh(["git", "-C", wt, "apply", patch])
        if rc:
            print("patch does not apply:", err); return 2
        changed = sh(["git", "-C", wt, "diff", "--stat"])[1]
        meta["diffstat"] = changed.strip().splitlines()
        install_ext(wt)
        rc1, o1, e1 = sh([PY, demo], cwd=wt, env=env, timeout=1800)
        meta["demo_patched_exit"] = rc1
        meta["demo_patched_output"] = (o1 + e1)[-600:]
        print("demo with the change: exit %d :: %s" % (rc1, (o1 + e1).strip().splitlines()[-1][:200] if (o1 + e1).strip() else ""))
        if not skip_base:
            rc, out, err = sh([PY, "-m", "mc.baseline", wt], cwd=VERIF, timeout=3600)
            meta["baseline"] = out.strip().splitlines()[:6]
            print("baseline:", out.strip().splitlines()[0] if out.strip() else err[-300:])
            meta["baseline_ok"] = (rc == 0)
        for p in props:
            envc = dict(os.environ, VERIF_REPO=wt)
            t0 = time.time()
            rc, out, err = sh([PY, "-m", "mc.check", p, "--tier", tier], cwd=VERIF, env=envc)
            sigs = [ln.strip()[len("signature: "):] for ln in out.splitlines() if ln.strip().startswith("signature:")]
            verdict = "DETECTED" if rc == 1 else ("missed" if rc == 0 else "check-error")
            meta["checks"][p] = {"exit": rc, "verdict": verdict, "signatures": sigs[:12], "wall_s": round(time.time() - t0, 1), "tier": tier}
            print("%s: %s (%d signatures) %s" % (p, verdict, len(sigs), sigs[:3]))
            if rc not in (0, 1):
                print(err[-1500:])
        ok = rc0 == 0 and rc1 != 0 and (skip_base or meta.get("baseline_ok"))
        meta["confirmed"] = bool(ok)
        print("confirmed (demo flips, baseline passes):", ok)
        if keep and ok:
            d = os.path.join(VERIF, "seeded", keep)
            os.makedirs(d, exist_ok=True)
            shutil.copy(patch, os.path.join(d, "patch.diff"))
            shutil.copy(demo, os.path.join(d, "demo.py"))
            if os.path.exists(os.path.join(src, "notes.md")):
                shutil.copy(os.path.join(src, "notes.md"), os.path.join(d, "notes.md"))
            mpath = os.path.join(d, "meta.json")
            old = json.load(open(mpath)) if os.path.exists(mpath) else {}
            old.update({k: v for k, v in meta.items() if k != "checks"})
            old.setdefault("checks", {}).update(meta["checks"])
            old["breaks_property"] = old.get("breaks_property") or props[0]
            json.dump(old, open(mpath, "w"), indent=1)
            print("kept as", d)
        return 0
    finally:
        sh(["git", "-C", "/repo", "worktree", "remove", "--force", wt])
        shutil.rmtree(wt, ignore_errors=True)
        sh(["git", "-C", "/repo", "worktree", "prune"])


if __name__ == "__main__":
    sys.exit(main())
