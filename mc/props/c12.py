"""C12 - model-native datasets are converted with the right units and direction sense.

A physical truth E(f, theta_coming_from) [m2/Hz/deg] on small enumerated grids is written by the independent
encoders below into each native convention (WW3, SWAN netCDF, WWM, ERA5, NDBC netCDF), handed to
``read_dataset`` and ``from_<model>`` and the result is compared bin by bin with what the native arrays say
physically (decoded here from the stored values with closed forms), together with the variance integral
in native units, the direction range, the winds and (clause shared with C17) the requirement that the
caller's dataset is left untouched.  Enumeration is complete over the stated finite families; VERIF_SEED only
selects which alphabet variant (base value, frequency grids, odd direction offset, wind-angle rotation) is used.
"""
from __future__ import annotations

import itertools
import math

import numpy as np

from mc import common
from mc.common import Violation

PROP = "C12"
LEVEL = "exploration"

PI = math.pi
REL = 1e-6          # relative tolerance on densities / integrals / frequencies (float32 natives included)
DIRTOL = 1e-3       # degrees, circular (float32 direction coordinates included)
KINDS = ["ww3", "ncswan", "wwm", "era5", "ndbc"]

# ERA5 documented spectral grid (ECMWF: 30 frequencies from 0.03453 Hz with ratio 1.1, 24 directions of 15 deg
# starting at 7.5 deg, direction towards which the waves travel)
ERA5_NF, ERA5_ND = 30, 24


# ---------------------------------------------------------------------------------------------
# alphabets
# ---------------------------------------------------------------------------------------------
BASES = [0.01, 0.5, 2.0, 1e-3, 7.0]
FREQS2 = [[0.05, 0.1], [0.1, 0.2], [0.04, 0.3], [0.08, 0.12], [0.0625, 0.25]]
FREQS3 = [[0.04, 0.1, 0.25], [0.05, 0.15, 0.3], [0.1, 0.2, 0.4], [0.03, 0.05, 0.4], [0.0625, 0.125, 0.5]]
ODD = [7.5, 11.25, 5.0, 1.0, 22.5]
DIR_ORDERS = ["asc0", "asc_half", "desc", "rot", "ww3", "odd"]
PATTERNS = ["ramp", "wide", "holes"]


def freqs_for(nf, seed):
    return list((FREQS2 if nf == 2 else FREQS3)[seed % 5])


def dirs_for(nd, order, seed):
    """Coming-from directions (deg, all in [0,360)) in the order in which the bins are stored."""
    step = 360.0 / nd
    asc = [k * step for k in range(nd)]
    if order == "asc0":
        d = asc
    elif order == "asc_half":
        d = [x + step / 2 for x in asc]
    elif order == "desc":
        d = asc[::-1]
    elif order == "rot":
        h = nd // 2
        d = asc[h:] + asc[:h]
    elif order == "ww3":  # like the WW3 sample file: descending, starting at 90
        d = [(90.0 - k * step) % 360.0 for k in range(nd)]
    elif order == "odd":
        off = ODD[seed % 5]
        d = [(x + off) % 360.0 for x in (asc[1:] + asc[:1])]
    else:
        raise ValueError(order)
    assert all(0 <= x < 360 for x in d)
    return d


def truth_values(shape, pattern, seed):
    """Distinct density per bin (m2/Hz/deg); 'holes' has exact zeros (missing values in ERA5)."""
    n = int(np.prod(shape))
    k = np.arange(n, dtype=np.float64)
    base = BASES[seed % 5]
    if pattern == "ramp":
        v = base * (1.0 + k)
    elif pattern == "wide":
        v = base * (1.0 + (k + 1.0) / (n + 1.0)) * 10.0 ** ((k * 3) % 5 - 3)
    elif pattern == "holes":
        v = base * (1.0 + k)
        v[::3] = 0.0
    else:
        raise ValueError(pattern)
    return v.reshape(shape)


def w_df(f):
    """Rectangle-rule frequency weights (same rule on the native and on the converted side)."""
    f = np.asarray(f, dtype=np.float64)
    n = len(f)
    if n == 1:
        return np.ones(1)
    w = np.empty(n)
    w[0] = f[1] - f[0]
    w[-1] = f[-1] - f[-2]
    for i in range(1, n - 1):
        w[i] = (f[i + 1] - f[i - 1]) / 2.0
    return np.abs(w)


def w_dd(d, full):
    """Direction bin width of a uniform circular grid: short-way difference of the first two stored directions."""
    d = np.asarray(d, dtype=np.float64)
    x = abs(d[1] - d[0]) % full
    return min(x, full - x)


def circ(a, b):
    x = abs(float(a) - float(b)) % 360.0
    return min(x, 360.0 - x)


def wind_truth(shape, seed, rot):
    """Speed (m/s) and coming-from direction (deg) per record; angles cover all quadrants and axes."""
    n = int(np.prod(shape))
    angles = [0.0, 45.0, 90.0, 135.0, 180.0, 225.0, 270.0, 315.0, 30.0, 200.0, 359.0, 91.0, 260.0, 10.0, 170.0, 280.0]
    k = np.arange(n)
    ang = np.array([angles[(i + rot + seed) % len(angles)] for i in k], dtype=np.float64)
    spd = 2.5 + 1.5 * k
    return spd.reshape(shape), ang.reshape(shape)


def times_for(nt):
    return np.array(["2021-03-04T00:00:00", "2021-03-04T03:00:00", "2021-03-04T06:00:00"][:nt], dtype="datetime64[ns]")


STATION_IDS = [11, 7, 23]


# ---------------------------------------------------------------------------------------------
# encoders: truth -> native dataset;   decoders: stored native values -> what they mean physically
# ---------------------------------------------------------------------------------------------
def _arr(a, dtype, backing):
    a = np.ascontiguousarray(np.asarray(a).astype(dtype))
    if backing == "readonly":
        a.flags.writeable = False
    return a


def _finish(ds, backing):
    if backing == "dask":
        ds = ds.chunk({k: 1 for k in list(ds.sizes)[:1]})
    return ds


def _lonlat(mode, nt, ns):
    lon0 = np.array([150.5, 151.25, 359.5][:ns])
    lat0 = np.array([-35.0, -34.5, 10.25][:ns])
    if mode == "absent":
        return None
    if mode == "station":
        return ("S", lon0, lat0, True)
    lon = np.repeat(lon0[None], nt, axis=0)
    lat = np.repeat(lat0[None], nt, axis=0)
    if mode == "time_const":
        return ("TS", lon, lat, True)
    if mode == "time_vary":
        drift = 0.125 * np.arange(nt)[:, None]
        return ("TS", lon + drift, lat - drift, nt == 1)
    raise ValueError(mode)


def enc_ww3(p, seed):
    import xarray as xr

    nt, ns, nf, nd = p["nt"], p["ns"], p["nf"], p["nd"]
    f = freqs_for(nf, seed)
    d = dirs_for(nd, p["order"], seed)
    E = truth_values((nt, ns, nf, nd), p["pattern"], seed)
    dt, bk = p["dtype"], p["backing"]
    opt = set(p["opt"])
    native_dir = [(x + 180.0) % 360.0 for x in d]               # direction the waves travel to, degrees
    per_rad = E * (180.0 / PI)                                  # m2 s rad-1
    dv = {"efth": (("time", "station", "frequency", "direction"), _arr(per_rad, dt, bk),
                   {"units": "m2 s rad-1", "standard_name": "sea_surface_wave_directional_variance_spectral_density"})}
    T = {}
    ll = _lonlat(p["lonlat"], nt, ns)
    if ll is not None:
        dims = ("station",) if ll[0] == "S" else ("time", "station")
        dv["longitude"] = (dims, _arr(ll[1], dt, bk), {"units": "degree_east"})
        dv["latitude"] = (dims, _arr(ll[2], dt, bk), {"units": "degree_north"})
        if ll[3]:
            T["lon"], T["lat"] = np.asarray(dv["longitude"][1], dtype=float), np.asarray(dv["latitude"][1], dtype=float)
    wspd, wdir = wind_truth((nt, ns), seed, p.get("wrot", 0))
    if "wnd" in opt:
        dv["wnd"] = (("time", "station"), _arr(wspd, dt, bk), {"units": "m s-1", "standard_name": "wind_speed"})
        T["pass_wspd"] = np.asarray(dv["wnd"][1], dtype=float)
    if "wnddir" in opt:
        dv["wnddir"] = (("time", "station"), _arr(wdir, dt, bk), {"units": "degree", "standard_name": "wind_from_direction"})
        T["pass_wdir"] = np.asarray(dv["wnddir"][1], dtype=float)
    if "dpt" in opt:
        dv["dpt"] = (("time", "station"), _arr(20.0 + 5.0 * np.arange(nt * ns).reshape(nt, ns), dt, bk), {"units": "m"})
        T["pass_dpt"] = np.asarray(dv["dpt"][1], dtype=float)
    if "cur" in opt:  # a variable the reader is expected to drop
        dv["cur"] = (("time", "station"), _arr(0.1 * np.arange(nt * ns).reshape(nt, ns), dt, bk), {"units": "m s-1"})
    if "station_name" in opt:
        names = np.array([list("st%-14d" % i) for i in STATION_IDS[:ns]], dtype="S1")
        dv["station_name"] = (("station", "string16"), names, {"long_name": "station name"})
    coords = {
        "time": ("time", times_for(nt)),
        "station": ("station", np.array(STATION_IDS[:ns], dtype=np.int32), {"long_name": "station id"}),
        "frequency": ("frequency", _arr(f, dt, "numpy"), {"units": "s-1"}),
        "direction": ("direction", _arr(native_dir, dt, "numpy"), {"units": "degree", "standard_name": "sea_surface_wave_to_direction"}),
    }
    ds = xr.Dataset(dv, coords=coords, attrs={"product_name": "ww3.spec.nc"})
    ds = _finish(ds, bk)
    # ---- what the stored numbers mean (float64, from the stored arrays)
    st = np.asarray(dv["efth"][1], dtype=np.float64)
    fs = np.asarray(coords["frequency"][1], dtype=np.float64)
    ds_ = np.asarray(coords["direction"][1], dtype=np.float64)
    T.update(
        E=st * (PI / 180.0), f=fs, d=(ds_ + 180.0) % 360.0,
        m0=np.einsum("tsfd,f->ts", st, w_df(fs)) * (w_dd(ds_, 360.0) * PI / 180.0),
        nonspec=[("time", times_for(nt)), ("site", np.array(STATION_IDS[:ns]))],
        dims={"time", "site", "freq", "dir"}, E0=E, f0=f, d0=d,
    )
    return ds, T, {}


def enc_ncswan(p, seed):
    import xarray as xr

    nt, ns, nf, nd = p["nt"], p["ns"], p["nf"], p["nd"]
    f = freqs_for(nf, seed)
    d = dirs_for(nd, p["order"], seed)
    E = truth_values((nt, ns, nf, nd), p["pattern"], seed)
    dt, bk = p["dtype"], p["backing"]
    opt = set(p["opt"])
    drad = [x * PI / 180.0 for x in d]                          # nautical coming-from, radians
    if p.get("radrange") == "-pi_pi":
        drad = [x - 2 * PI if x > PI else x for x in drad]
    elif p.get("radrange") == "pi2_5pi2":          # one turn starting at pi/2: values reach beyond 2 pi
        drad = [x + 2 * PI if x < PI / 2 else x for x in drad]
    elif p.get("radrange") == "-5pi2_-pi2":        # one turn ending at -pi/2: values below -2 pi
        drad = [x - 2 * PI if x < 1.5 * PI else x - 4 * PI for x in drad]
    per_rad = E * (180.0 / PI)
    dv = {"density": (("time", "points", "frequency", "direction"), _arr(per_rad, dt, bk),
                      {"units": "m2 s rad-1", "standard_name": "sea_surface_wave_directional_variance_spectral_density"})}
    T = {}
    ll = _lonlat(p["lonlat"], nt, ns)
    if ll is not None:
        dims = ("points",) if ll[0] == "S" else ("time", "points")
        dv["longitude"] = (dims, _arr(ll[1], dt, bk), {"units": "degrees_east"})
        dv["latitude"] = (dims, _arr(ll[2], dt, bk), {"units": "degrees_north"})
        if ll[3]:
            T["lon"], T["lat"] = np.asarray(dv["longitude"][1], dtype=float), np.asarray(dv["latitude"][1], dtype=float)
    wspd, wdir = wind_truth((nt, ns), seed, p.get("wrot", 0))
    # components of the wind vector (where it blows TO): east = -W sin(from), north = -W cos(from)
    u = -wspd * np.sin(wdir * PI / 180.0)
    v = -wspd * np.cos(wdir * PI / 180.0)
    if "xwnd" in opt:
        dv["xwnd"] = (("time", "points"), _arr(u, dt, bk), {"units": "m s-1"})
    if "ywnd" in opt:
        dv["ywnd"] = (("time", "points"), _arr(v, dt, bk), {"units": "m s-1"})
    if "xwnd" in opt and "ywnd" in opt:
        T["wind"] = (wspd, wdir)
    if "depth" in opt:
        dv["depth"] = (("time", "points"), _arr(20.0 + 5.0 * np.arange(nt * ns).reshape(nt, ns), dt, bk), {"units": "m"})
        T["pass_dpt"] = np.asarray(dv["depth"][1], dtype=float)
    if "xcur" in opt:  # dropped by the reader
        dv["xcur"] = (("time", "points"), _arr(0.1 * np.arange(nt * ns).reshape(nt, ns), dt, bk), {"units": "m s-1"})
    coords = {
        "time": ("time", times_for(nt)),
        "frequency": ("frequency", _arr(f, dt, "numpy"), {"units": "s-1"}),
        "direction": ("direction", _arr(drad, dt, "numpy"), {"units": "radians"}),
    }
    ds = xr.Dataset(dv, coords=coords, attrs={"Directional_convention": "nautical"})
    ds = _finish(ds, bk)
    st = np.asarray(dv["density"][1], dtype=np.float64)
    fs = np.asarray(coords["frequency"][1], dtype=np.float64)
    dr = np.asarray(coords["direction"][1], dtype=np.float64)
    T.update(
        E=st * (PI / 180.0), f=fs, d=(dr * 180.0 / PI) % 360.0,
        m0=np.einsum("tsfd,f->ts", st, w_df(fs)) * w_dd(dr, 2 * PI),
        nonspec=[("time", times_for(nt)), ("site", None)],
        dims={"time", "site", "freq", "dir"}, E0=E, f0=f, d0=d,
    )
    return ds, T, {}


def enc_wwm(p, seed):
    import xarray as xr

    nt, ns, nf, nd = p["nt"], p["ns"], p["nf"], p["nd"]
    f = freqs_for(nf, seed)
    d = dirs_for(nd, p["order"], seed)
    E = truth_values((nt, ns, nf, nd), p["pattern"], seed)
    dt, bk = p["dtype"], p["backing"]
    opt = set(p["opt"])
    sig = np.array([2 * PI * x for x in f])                     # rad/s
    drad = np.array([x * PI / 180.0 for x in d])                # rad
    # variance density per (rad/s) per rad, then action density N = E(sigma,theta) / sigma
    e_sig_rad = E / (2 * PI) * (180.0 / PI)
    ac = e_sig_rad / sig[None, None, :, None]
    if p.get("acdims") == "dir_first":
        acdims = ("ocean_time", "nbstation", "ndir", "nfreq")
        ac_st = _arr(np.transpose(ac, (0, 1, 3, 2)), dt, bk)
        ein = "tsdf,f->ts"
    else:
        acdims = ("ocean_time", "nbstation", "nfreq", "ndir")
        ac_st = _arr(ac, dt, bk)
        ein = "tsfd,f->ts"
    lon0 = np.array([150.5, 151.25, 359.5][:ns])
    lat0 = np.array([-35.0, -34.5, 10.25][:ns])
    dv = {
        "AC": (acdims, ac_st, {"units": "unk", "full-name": "wave action"}),
        "SPSIG": (("nfreq",), _arr(sig, dt, "numpy"), {"units": "list of wave frequencies"}),
        "SPDIR": (("ndir",), _arr(drad, dt, "numpy"), {"units": "list of wave directions"}),
        "lon": (("nbstation",), _arr(lon0, dt, bk), {}),
        "lat": (("nbstation",), _arr(lat0, dt, bk), {}),
        "DEP": (("ocean_time", "nbstation"), _arr(20.0 + 5.0 * np.arange(nt * ns).reshape(nt, ns), dt, bk), {"units": "m"}),
    }
    T = {"lon": np.asarray(dv["lon"][1], dtype=float), "lat": np.asarray(dv["lat"][1], dtype=float),
         "pass_dpt": np.asarray(dv["DEP"][1], dtype=float)}
    wspd, wdir = wind_truth((nt, ns), seed, p.get("wrot", 0))
    u = -wspd * np.sin(wdir * PI / 180.0)
    v = -wspd * np.cos(wdir * PI / 180.0)
    if "Uwind" in opt:
        dv["Uwind"] = (("ocean_time", "nbstation"), _arr(u, dt, bk), {"units": "m s-1"})
    if "Vwind" in opt:
        dv["Vwind"] = (("ocean_time", "nbstation"), _arr(v, dt, bk), {"units": "m s-1"})
    if "Uwind" in opt and "Vwind" in opt:
        T["wind"] = (wspd, wdir)
    if "HS" in opt:  # dropped by the reader
        dv["HS"] = (("ocean_time", "nbstation"), _arr(1.0 + np.arange(nt * ns).reshape(nt, ns), dt, bk), {"units": "m"})
    coords = {"ocean_time": ("ocean_time", times_for(nt))}
    if p.get("acdims") == "dir_first" or p.get("dimcoords"):
        # some writers store index coordinate variables for the spectral dimensions
        coords["nfreq"] = ("nfreq", np.arange(nf))
        coords["ndir"] = ("ndir", np.arange(1, nd + 1))
    ds = xr.Dataset(dv, coords=coords)
    ds = _finish(ds, bk)
    st = np.asarray(ac_st, dtype=np.float64)
    sg = np.asarray(dv["SPSIG"][1], dtype=np.float64)
    dr = np.asarray(dv["SPDIR"][1], dtype=np.float64)
    if p.get("acdims") == "dir_first":
        e_st = st * sg[None, None, None, :]
        Edeg = np.transpose(e_st, (0, 1, 3, 2)) * (2 * PI) * (PI / 180.0)
    else:
        e_st = st * sg[None, None, :, None]
        Edeg = e_st * (2 * PI) * (PI / 180.0)
    T.update(
        E=Edeg, f=sg / (2 * PI), d=dr * 180.0 / PI,
        m0=np.einsum(ein, e_st, w_df(sg)) * w_dd(dr, 2 * PI),   # integral of N*sigma dsigma dtheta, native units
        nonspec=[("time", times_for(nt)), ("site", None)],
        dims={"time", "site", "freq", "dir"}, E0=E, f0=f, d0=d,
    )
    return ds, T, {}


def era5_default_grid():
    f = [0.03453 * 1.1 ** i for i in range(ERA5_NF)]
    going_to = [7.5 + 15.0 * j for j in range(ERA5_ND)]
    return f, [(x + 180.0) % 360.0 for x in going_to]


def enc_era5(p, seed):
    import xarray as xr

    nt, nla, nlo = p["nt"], p["nlat"], p["nlon"]
    dt, bk = p["dtype"], p["backing"]
    kwargs = {}
    if p["grid"] == "default":
        f, d = era5_default_grid()
    else:
        f = freqs_for(p["nf"], seed)
        d = dirs_for(p["nd"], p["order"], seed)
        kwargs = {"freqs": [float(x) for x in f], "dirs": [float(x) for x in d]}
    nf, nd = len(f), len(d)
    E = truth_values((nt, nla, nlo, nf, nd), p["pattern"], seed)
    per_rad = E * (180.0 / PI)
    with np.errstate(divide="ignore"):
        lg = np.where(per_rad > 0, np.log10(np.where(per_rad > 0, per_rad, 1.0)), np.nan)    # missing <-> no energy
    lg = np.transpose(lg, (0, 3, 4, 1, 2))                      # (time, frequency, direction, latitude, longitude)
    st_arr = _arr(lg, dt, bk)
    dv = {"d2fd": (("time", "frequency", "direction", "latitude", "longitude"), st_arr,
                   {"units": "m**2 s radian**-1", "long_name": "2D wave spectra (single)"})}
    lats = np.array([36.0, 0.0, -36.0][:nla], dtype=np.float32)
    lons = np.array([0.0, 36.0, 324.0][:nlo], dtype=np.float32)
    coords = {
        "time": ("time", times_for(nt), {"long_name": "time"}),
        "frequency": ("frequency", np.arange(1, nf + 1, dtype=np.int32), {"long_name": "frequency"}),
        "direction": ("direction", np.arange(1, nd + 1, dtype=np.int32), {"long_name": "direction"}),
        "latitude": ("latitude", lats, {"units": "degrees_north"}),
        "longitude": ("longitude", lons, {"units": "degrees_east"}),
    }
    ds = xr.Dataset(dv, coords=coords, attrs={"Conventions": "CF-1.6"})
    ds = _finish(ds, bk)
    st = np.asarray(st_arr, dtype=np.float64)
    lin = np.where(np.isnan(st), 0.0, 10.0 ** np.where(np.isnan(st), 0.0, st))     # m2 s rad-1
    lin = np.transpose(lin, (0, 3, 4, 1, 2))                    # (time, lat, lon, f, d)
    fa = np.asarray(f, dtype=np.float64)
    going_to_deg = (np.asarray(d) + 180.0) % 360.0
    T = dict(
        E=lin * (PI / 180.0), f=fa, d=np.asarray(d, dtype=np.float64),
        m0=np.einsum("tyxfd,f->tyx", lin, w_df(fa)) * (w_dd(going_to_deg, 360.0) * PI / 180.0),
        nonspec=[("time", times_for(nt)), ("lat", lats.astype(float)), ("lon", lons.astype(float))],
        dims={"time", "lat", "lon", "freq", "dir"}, E0=E, f0=f, d0=d,
    )
    return ds, T, kwargs


def enc_ndbc(p, seed):
    import xarray as xr

    nt, nf = p["nt"], p["nf"]
    dt, bk = p["dtype"], p["backing"]
    opt = set(p["opt"])
    f = freqs_for(nf, seed)
    ef = truth_values((nt, nf), p["pattern"], seed)             # m2/Hz
    k = np.arange(nt * nf, dtype=np.float64).reshape(nt, nf)
    off = ODD[seed % 5]
    a1 = (off + 37.0 * k * (1 + p.get("arot", 0))) % 360.0      # mean direction (from), deg
    a2 = (2 * off + 53.0 * k + 100.0 * p.get("arot", 0)) % 360.0  # principal direction, deg
    r1 = 0.15 + 0.6 * ((k * 5) % 7) / 7.0
    r2 = 0.05 + 0.4 * ((k * 3) % 5) / 5.0
    latlon = p.get("latlon", False)
    dims = ("time", "frequency", "latitude", "longitude") if latlon else ("time", "frequency")
    ex = (lambda a: a[:, :, None, None]) if latlon else (lambda a: a)
    stored = {}
    dv = {}

    def put(name, arr, attrs):
        stored[name] = _arr(ex(arr), dt, bk)
        dv[name] = (dims, stored[name], attrs)

    put("spectral_wave_density", ef, {"units": "(meter * meter)/Hz"})
    if "mean_wave_dir" in opt:
        put("mean_wave_dir", a1, {"units": "degrees_true"})
    if "principal_wave_dir" in opt:
        put("principal_wave_dir", a2, {"units": "degrees_true"})
    if "wave_spectrum_r1" in opt:
        put("wave_spectrum_r1", r1, {})
    if "wave_spectrum_r2" in opt:
        put("wave_spectrum_r2", r2, {})
    if "c11" in opt:  # a variable that is not part of the spectrum
        put("c11", 2 * ef, {})
    coords = {"time": ("time", times_for(nt)), "frequency": ("frequency", _arr(f, "f4", "numpy"), {"units": "Hz"})}
    if latlon:
        coords["latitude"] = ("latitude", np.array([27.5], dtype=np.float32))
        coords["longitude"] = ("longitude", np.array([-84.25], dtype=np.float32))
    ds = xr.Dataset(dv, coords=coords, attrs={"station": "42099"})
    ds = _finish(ds, bk)
    kwargs = {}
    if p.get("directional") is False:
        kwargs["directional"] = False
    if p.get("dd") is not None:
        kwargs["dd"] = p["dd"]
    g = lambda name: np.asarray(stored[name], dtype=np.float64).reshape(nt, nf)
    fs = np.asarray(coords["frequency"][1], dtype=np.float64)
    efs = g("spectral_wave_density")
    full = {"mean_wave_dir", "principal_wave_dir", "wave_spectrum_r1", "wave_spectrum_r2"} <= opt
    two = full and p.get("directional") is not False
    nonspec = [("time", times_for(nt))]
    dset = {"time", "freq"}
    if latlon:
        nonspec += [("lat", np.array([27.5])), ("lon", np.array([-84.25]))]
        dset |= {"lat", "lon"}
    T = dict(f=fs, ef=efs, m0=np.einsum("tf,f->t", efs, w_df(fs)), nonspec=nonspec, two=two, f0=f)
    if latlon:
        T["m0"] = T["m0"][:, None, None]
    if two:
        ddv = 10.0 if p.get("dd") is None else float(p["dd"])
        nd = int(round(360.0 / ddv))
        d = np.array([j * ddv for j in range(nd)])
        A1, A2, R1, R2 = g("mean_wave_dir"), g("principal_wave_dir"), g("wave_spectrum_r1"), g("wave_spectrum_r2")
        E = np.empty((nt, nf, nd))
        for j in range(nd):
            # Longuet-Higgins: E(f,theta) = E(f)/pi * (1/2 + r1 cos(theta-a1) + r2 cos 2(theta-a2))  per radian
            per_rad = efs / PI * (0.5 + R1 * np.cos((d[j] - A1) * PI / 180.0) + R2 * np.cos(2 * (d[j] - A2) * PI / 180.0))
            E[:, :, j] = per_rad * (PI / 180.0)
        T.update(E=E[:, None, None] if latlon else E, d=d, dims=dset | {"dir"}, a1=A1, a2=A2, r1=R1, r2=R2, nd=nd)
    else:
        T.update(E=efs[:, None, None] if latlon else efs, d=None, dims=dset)
    return ds, T, kwargs


_ENC = {"ww3": enc_ww3, "ncswan": enc_ncswan, "wwm": enc_wwm, "era5": enc_era5, "ndbc": enc_ndbc}


def _encode(kind):
    """Encoder of a convention; with p['cattrs'] == 'none' every variable, coordinate and global attribute is removed from the native
    dataset (the statement lets the reader identify the convention from the *variables*; units come with the convention, so a dataset
    whose metadata was stripped on the way - rebuilt in memory, passed through a tool that drops attributes - converts the same)."""
    def enc(p, seed):
        ds, T, kwargs = _ENC[kind](p, seed)
        if p.get("cattrs") == "none":
            ds = ds.copy()
            ds.attrs = {}
            for v in ds.variables.values():
                v.attrs = {}
        return ds, T, kwargs
    return enc


ENCODERS = {k: _encode(k) for k in _ENC}


def self_test(kind, T):
    """The encoder round trip (truth -> stored -> decoded) is the identity up to the storage dtype."""
    if kind == "ndbc":
        return
    E0 = np.asarray(T["E0"], dtype=np.float64)
    assert np.allclose(T["E"], E0, rtol=2e-5, atol=0), "encoder self-test failed (%s): densities" % kind
    assert np.allclose(T["f"], T["f0"], rtol=1e-6), "encoder self-test failed (%s): freq" % kind
    assert all(circ(a, b) < 1e-3 for a, b in zip(T["d"], T["d0"])), "encoder self-test failed (%s): dir" % kind


# ---------------------------------------------------------------------------------------------
# snapshots (purity clause, shared with C17)
# ---------------------------------------------------------------------------------------------
def snapshot(ds):
    snap = {"__dataset__": ("attrs=" + repr(sorted(ds.attrs.items())), "names=" + repr(list(ds.variables)),
                            "coords=" + repr(sorted(ds.coords)), "sizes=" + repr(sorted(ds.sizes.items())))}
    for name, var in ds.variables.items():
        a = np.asarray(var.values)
        snap[name] = {"dims": tuple(var.dims), "dtype": str(a.dtype), "shape": a.shape, "values": a.tobytes(),
                      "attrs": repr(sorted((k, repr(v)) for k, v in var.attrs.items()))}
    return snap


def snap_diff(a, b):
    out = []
    if a["__dataset__"] != b["__dataset__"]:
        out.append(("dataset", "structure/attrs"))
    for name in a:
        if name == "__dataset__":
            continue
        if name not in b:
            out.append((name, "removed"))
            continue
        for asp in ("dims", "dtype", "shape", "values", "attrs"):
            if a[name][asp] != b[name][asp]:
                out.append((name, asp))
    return out


# ---------------------------------------------------------------------------------------------
# oracle on one returned dataset
# ---------------------------------------------------------------------------------------------
def _match(got, ref, same):
    """Bijection got-index -> ref-index under predicate same(g, r); None if there is none."""
    if len(got) != len(ref):
        return None
    perm, used = [], set()
    for g in got:
        hit = [j for j, r in enumerate(ref) if j not in used and same(g, r)]
        if not hit:
            return None
        perm.append(hit[0])
        used.add(hit[0])
    return perm


def check_output(kind, out, T):
    """Returns list of (clause, predicate, message)."""
    import xarray as xr

    bad = []
    if not isinstance(out, xr.Dataset) or "efth" not in out.data_vars:
        names = sorted(map(str, getattr(out, "variables", {}))) if hasattr(out, "variables") else type(out).__name__
        return [("output-convention", "no efth variable in the result", "result has no 'efth' data variable; variables: %s" % (names,))]
    da = out["efth"]
    if set(da.dims) != set(T["dims"]):
        return [("output-convention", "efth dimension names", "efth dims %s, expected the wavespectra names %s" % (
            tuple(da.dims), sorted(T["dims"])))]
    for nm in ("freq", "dir"):
        if nm in T["dims"] and nm not in out.coords:
            return [("output-convention", "%s coordinate missing" % nm, "no %s coordinate in the result" % nm)]
    two = "dir" in T["dims"]
    ns_names = [n for n, _ in T["nonspec"]]
    da = da.transpose(*(ns_names + ["freq"] + (["dir"] if two else [])))
    got = np.asarray(da.values, dtype=np.float64)
    fo = np.asarray(out["freq"].values, dtype=np.float64)
    # --- frequency labels
    pf = _match(list(fo), list(T["f"]), lambda g, r: abs(g - r) <= REL * abs(r))
    if pf is None:
        return [("freq-coordinate", "frequencies are not the native ones in Hz", "freq %s, expected %s Hz" % (fo.tolist(), np.asarray(T["f"]).tolist()))]
    # --- direction labels: range, then identity of the physical direction
    if two:
        do = np.asarray(out["dir"].values, dtype=np.float64)
        if not np.all((do >= 0) & (do < 360)):
            bad.append(("dir-range", "direction outside [0,360)", "dir coordinate %s not in [0,360)" % do.tolist()))
        pd = _match(list(do), list(T["d"]), lambda g, r: circ(g, r) <= DIRTOL)
        if pd is None:
            bad.append(("bin-direction", "direction labels are not the native physical directions",
                        "dir %s, expected coming-from %s (any order)" % (do.tolist(), np.asarray(T["d"]).tolist())))
            return bad
    # --- record labels
    for nm, vals in T["nonspec"]:
        if vals is None:
            continue
        if nm not in out.coords:
            bad.append(("record-labels", "%s coordinate missing" % nm, "no %s coordinate in the result" % nm))
            continue
        v = out[nm].values
        ok = (v.shape == np.asarray(vals).shape) and (
            np.array_equal(v, vals) if np.asarray(vals).dtype.kind in "Mi" else np.allclose(v.astype(float), vals, rtol=1e-6, atol=0))
        if not ok:
            bad.append(("record-labels", "%s labels changed" % nm, "%s coordinate %s, native %s" % (nm, v.tolist(), np.asarray(vals).tolist())))
    # --- densities bin by bin (each output bin against the truth bin with the same physical f and direction)
    E = np.asarray(T["E"], dtype=np.float64)
    E = np.take(E, pf, axis=-2 if two else -1)
    if two:
        E = np.take(E, pd, axis=-1)
    if got.shape != E.shape:
        return bad + [("output-convention", "efth shape", "efth shape %s expected %s" % (got.shape, E.shape))]
    tol = REL * np.abs(E) + (1e-12 * np.abs(E).max() if kind == "ndbc" else 0.0) + 1e-300
    okb = np.abs(got - E) <= tol
    if not okb.all():
        i = tuple(int(x) for x in np.argwhere(~okb)[0])
        nz = (E != 0) & np.isfinite(got)
        ratios = got[nz] / E[nz]
        if np.isnan(got).any():
            pred = "NaN in the result"
        elif np.any((E == 0) & (got != 0)):
            pred = "energy where the native has none"
        elif ratios.size and np.all(np.abs(ratios - ratios.flat[0]) <= 1e-5 * abs(ratios.flat[0])):
            pred = "every bin off by the same factor"
        else:
            pred = "bin-dependent error (bins misplaced or wrong weighting)"
        extra = (" (common factor %.9g)" % ratios.flat[0]) if pred.startswith("every bin") else ""
        bad.append(("bin-density", pred, "efth%s = %r, native bin means %r m2/Hz/deg at f=%g Hz dir=%s%s" % (
            list(i), float(got[i]), float(E[i]), fo[i[-2 if two else -1]], (do[i[-1]] if two else None), extra)))
    # --- variance: sum E df dd in converted coordinates == native integral in native units
    wf = w_df(fo)
    if two:
        m0 = np.einsum("...fd,f->...", got, wf) * w_dd(do, 360.0)
    else:
        m0 = np.einsum("...f,f->...", got, wf)
    m0n = np.asarray(T["m0"], dtype=np.float64)
    okm = np.abs(m0 - m0n) <= REL * np.abs(m0n) + 1e-300
    if not okm.all():
        i = tuple(int(x) for x in np.argwhere(~okm)[0])
        bad.append(("variance", "integral in converted coordinates differs from native integral",
                    "spectrum %s: sum E df dd = %r in converted units, %r in native units (ratio %.9g)" % (
                        list(i), float(m0[i]), float(m0n[i]), float(m0[i] / m0n[i]) if m0n[i] else float("nan"))))
    # --- winds from components
    if "wind" in T:
        spd, wdr = T["wind"]
        if "wspd" not in out or "wdir" not in out:
            bad.append(("wind", "speed/direction missing", "wind components given but result has no wspd/wdir"))
        else:
            gs = np.asarray(out["wspd"].transpose(*ns_names).values, dtype=np.float64)
            gd = np.asarray(out["wdir"].transpose(*ns_names).values, dtype=np.float64)
            if gs.shape != spd.shape or not np.all(np.abs(gs - spd) <= 1e-5 * spd):
                bad.append(("wind", "speed", "wspd %s, truth %s" % (gs.tolist(), spd.tolist())))
            elif not all(circ(a, b) <= 1e-2 for a, b in zip(gd.ravel(), wdr.ravel())):
                bad.append(("wind", "coming-from direction", "wdir %s, truth (coming from) %s" % (gd.tolist(), wdr.tolist())))
    # --- variables passed through (only if the reader returns them): same numbers
    for key, oname in (("pass_wspd", "wspd"), ("pass_wdir", "wdir"), ("pass_dpt", "dpt"), ("lon", "lon"), ("lat", "lat")):
        if key in T and oname in out and kind != "era5" and not (kind == "ndbc"):
            ref = np.asarray(T[key], dtype=np.float64)
            v = np.asarray(out[oname].values, dtype=np.float64)
            if v.ndim == ref.ndim + 1 and key in ("lon", "lat"):
                pass  # time axis kept: not pinned by the statement
            elif v.ndim == ref.ndim - 1 and key in ("lon", "lat"):
                if not np.allclose(v, ref[0], rtol=1e-6, atol=0):
                    bad.append(("passthrough", oname, "%s %s, native %s" % (oname, v.tolist(), ref[0].tolist())))
            elif v.shape != ref.shape or not np.allclose(v, ref, rtol=1e-6, atol=0):
                bad.append(("passthrough", oname, "%s %s, native %s" % (oname, v.tolist(), ref.tolist())))
    # --- NDBC: the reconstruction integrates back to the 1-D density and keeps the moments' directions
    if kind == "ndbc" and two:
        ef = np.asarray(T["ef"], dtype=np.float64)
        g3 = got.reshape(ef.shape + (got.shape[-1],))
        dd = w_dd(do, 360.0)
        s1 = g3.sum(axis=-1) * dd
        if not np.all(np.abs(s1 - ef) <= REL * np.abs(ef) + 1e-9 * np.abs(g3).sum(axis=-1) * dd):
            i = tuple(int(x) for x in np.argwhere(~(np.abs(s1 - ef) <= REL * np.abs(ef) + 1e-9 * np.abs(g3).sum(axis=-1) * dd))[0])
            bad.append(("ndbc-1d", "sum over directions != 1-D density", "record %s: sum_dir E dd = %r, file density %r" % (list(i), float(s1[i]), float(ef[i]))))
        try:
            o1 = out.spec.oned().transpose(*(ns_names + ["freq"]))
            o1 = np.take(np.asarray(o1.values, dtype=np.float64), range(o1.shape[-1]), axis=-1).reshape(ef.shape)
            efp = np.take(ef, pf, axis=-1)
            if not np.all(np.abs(o1 - efp) <= REL * np.abs(efp) + 1e-9 * np.abs(g3).sum(axis=-1) * dd):
                bad.append(("ndbc-1d", "oned() != 1-D density", "oned() %s, file density %s" % (o1.tolist(), efp.tolist())))
        except Exception as e:  # noqa
            bad.append(("ndbc-1d", "oned() raises", "%s: %s" % (type(e).__name__, str(e)[:200])))
        th = do * PI / 180.0
        c1 = (g3 * np.cos(th)).sum(axis=-1)
        s1m = (g3 * np.sin(th)).sum(axis=-1)
        efp = np.take(ef, pf, axis=-1)
        a1 = np.take(T["a1"], pf, axis=-1)
        r1 = np.take(T["r1"], pf, axis=-1)
        for idx in np.ndindex(ef.shape):
            if efp[idx] > 0 and r1[idx] > 0.05:
                m = (math.atan2(s1m[idx], c1[idx]) * 180.0 / PI) % 360.0
                if circ(m, a1[idx]) > 1e-3:
                    bad.append(("bin-direction", "first-moment direction != mean_wave_dir",
                                "record %s: mean direction of the reconstruction %r, file says %r" % (list(idx), m, float(a1[idx]))))
                    break
        if T["nd"] >= 5:
            c2 = (g3 * np.cos(2 * th)).sum(axis=-1)
            s2 = (g3 * np.sin(2 * th)).sum(axis=-1)
            a2 = np.take(T["a2"], pf, axis=-1)
            r2 = np.take(T["r2"], pf, axis=-1)
            for idx in np.ndindex(ef.shape):
                if efp[idx] > 0 and r2[idx] > 0.04:
                    m = (0.5 * math.atan2(s2[idx], c2[idx]) * 180.0 / PI) % 180.0
                    x = abs(m - a2[idx] % 180.0) % 180.0
                    if min(x, 180.0 - x) > 1e-3:
                        bad.append(("bin-direction", "second-moment direction != principal_wave_dir",
                                    "record %s: principal direction of the reconstruction %r, file says %r (mod 180)" % (list(idx), m, float(a2[idx]))))
                        break
    return bad


# ---------------------------------------------------------------------------------------------
# one case = one native dataset through every entry point
# ---------------------------------------------------------------------------------------------
def readers():
    common.load_wavespectra()
    import logging

    logging.getLogger("wavespectra").setLevel(logging.ERROR)   # "reading as 1D" warnings of the NDBC fallback
    from wavespectra.input.dataset import read_dataset
    from wavespectra.input.ww3 import from_ww3
    from wavespectra.input.ncswan import from_ncswan
    from wavespectra.input.wwm import from_wwm
    from wavespectra.input.era5 import from_era5
    from wavespectra.input.ndbc import from_ndbc

    return read_dataset, {"ww3": from_ww3, "ncswan": from_ncswan, "wwm": from_wwm, "era5": from_era5, "ndbc": from_ndbc}


ERA5_RENAME = {"d2fd": "efth", "frequency": "freq", "direction": "dir", "longitude": "lon", "latitude": "lat"}


def backing_pred(p):
    return {"numpy": "numpy-backed", "readonly": "read-only numpy arrays", "dask": "dask-backed"}[p["backing"]]


def run_case(p, seed):
    """Build the native dataset of parameters p (fresh for every entry point), call every entry point, apply the oracle."""
    read_dataset, froms = readers()
    kind = p["kind"]
    enc = ENCODERS[kind]
    entries = [("from_%s" % kind, froms[kind], None), ("read_dataset[%s]" % kind, read_dataset, None)]
    if kind == "era5":
        entries.append(("from_era5@renamed-as-read_era5-does", froms[kind], ERA5_RENAME))
    vios, outcomes = [], {}
    seen_first = set()
    for ei, (op, fn, ren) in enumerate(entries):
        ds, T, kwargs = enc(p, seed)
        if ei == 0:
            self_test(kind, T)
        if ren:
            ds = ds.rename(ren)
        before = snapshot(ds)
        found = []
        try:
            out = fn(ds, **kwargs)
            err = None
        except Exception as e:  # noqa
            out, err = None, e
        if err is not None:
            found.append(("raises", "%s, %s" % (type(err).__name__, backing_pred(p)), "%s: %s" % (type(err).__name__, str(err)[:300])))
        else:
            try:
                found += check_output(kind, out, T)
            except Exception as e:  # noqa  (lazy results are computed inside the oracle)
                found.append(("raises", "%s on compute, %s" % (type(e).__name__, backing_pred(p)), "%s: %s" % (type(e).__name__, str(e)[:300])))
        after = snapshot(ds)
        for name, aspect in snap_diff(before, after):
            found.append(("native-unmodified", "%s of caller's '%s' changed, %s" % (aspect, name, backing_pred(p)),
                          "the dataset passed in was modified by the call: %s of variable '%s' differ after the call" % (aspect, name)))
        okey = "%s:%s" % (op, "ok" if not found else "+".join(sorted({c for c, _, _ in found})))
        outcomes[okey] = outcomes.get(okey, 0) + 1
        if err is None and hasattr(out, "data_vars") and "efth" in out.data_vars:
            k2 = "result:%s:efth%s" % (kind, tuple(out["efth"].dims))
            outcomes[k2] = outcomes.get(k2, 0) + 1
        for clause, pred, msg in found:
            # read_dataset delegates to from_<kind>: the same failure of the same case is one defect, reported once
            if op.startswith("read_dataset") and (clause, pred) in seen_first:
                continue
            if ei == 0:
                seen_first.add((clause, pred))
            vios.append(Violation(PROP, "%s|%s|%s" % (op, clause, pred), "%s: %s  [case %s]" % (op, msg, brief(p)),
                                  dict(params=p, seed=seed, entry=op)))
    return vios, outcomes, len(entries)


def brief(p):
    return ",".join("%s=%s" % (k, p[k]) for k in sorted(p) if k not in ("fam",))


def replay(case):
    common.load_wavespectra()
    vios, _, _ = run_case(dict(case["params"]), int(case.get("seed", 0)))
    return vios


# ---------------------------------------------------------------------------------------------
# enumeration
# ---------------------------------------------------------------------------------------------
def powerset(names):
    out = []
    for r in range(len(names) + 1):
        for c in itertools.combinations(names, r):
            out.append(list(c))
    return out


WW3_OPT = ["wnd", "wnddir", "dpt", "station_name"]
SWAN_OPT = ["xwnd", "ywnd", "depth"]
WWM_OPT = ["Uwind", "Vwind"]
NDBC_DIRVARS = ["mean_wave_dir", "principal_wave_dir", "wave_spectrum_r1", "wave_spectrum_r2"]
LONLAT = ["time_const", "station", "time_vary", "absent"]
BACKINGS = ["numpy", "readonly", "dask"]


def cases(tier, seed):
    """The complete list of parameter dicts of a tier (simplest first after sorting)."""
    thorough = tier == "thorough"
    out = []
    n = 0
    sizes = [(nt, ns) for nt in (1, 2, 3) for ns in (1, 2, 3)]
    # ---- family 'grid': sizes x nf x nd x direction order x dtype (x every pattern in the thorough tier)
    for kind in ("ww3", "ncswan", "wwm"):
        for (nt, ns) in sizes:
            for nf in (2, 3):
                for nd in ((4, 5, 6) if thorough else (4, 6)):
                    for order in DIR_ORDERS:
                        for dtype in ("f8", "f4"):
                            pats = PATTERNS if thorough else [PATTERNS[n % 3]]
                            for pat in pats:
                                n += 1
                                p = dict(fam="grid", kind=kind, nt=nt, ns=ns, nf=nf, nd=nd, order=order, dtype=dtype, pattern=pat,
                                         backing="numpy", wrot=n % 16, cattrs=["full", "none"][(n // 4) % 2])
                                if kind == "ww3":
                                    p.update(opt=WW3_OPT + ["cur"], lonlat=LONLAT[n % 3])
                                elif kind == "ncswan":
                                    p.update(opt=SWAN_OPT + ["xcur"], lonlat=LONLAT[n % 3], radrange=["0_2pi", "-pi_pi", "pi2_5pi2", "-5pi2_-pi2"][n % 4])
                                else:
                                    p.update(opt=WWM_OPT + ["HS"], acdims=["freq_first", "dir_first"][n % 2])
                                out.append(p)
    for nt in (1, 2, 3):
        for (nla, nlo) in ((1, 1), (1, 2), (2, 1), (2, 2), (3, 3)):
            for nf in (2, 3):
                for nd in (4, 6):
                    for order in DIR_ORDERS:
                        for dtype in ("f8", "f4"):
                            pats = PATTERNS if thorough else [PATTERNS[n % 3]]
                            for pat in pats:
                                n += 1
                                out.append(dict(fam="grid", kind="era5", grid="custom", nt=nt, nlat=nla, nlon=nlo, nf=nf, nd=nd, order=order,
                                                dtype=dtype, pattern=pat, backing="numpy", cattrs=["full", "none"][(n // 2) % 2]))
    # ERA5 on its documented 30 x 24 grid (no freqs/dirs arguments: the reader supplies the coordinates)
    for nt in (1, 2):
        for (nla, nlo) in ((1, 1), (1, 2), (2, 1)) + (((2, 2),) if thorough else ()):
            for dtype in ("f8", "f4"):
                for pat in PATTERNS:
                    for bk in BACKINGS:
                        out.append(dict(fam="era5-default", kind="era5", grid="default", nt=nt, nlat=nla, nlon=nlo, dtype=dtype, pattern=pat, backing=bk))
    # ---- family 'options': every subset of optional variables x lon/lat layout x backing x dtype on fixed small grids
    ogrids = [(2, 2, 2, 4, "ww3")] + ([(1, 1, 2, 4, "asc0"), (3, 2, 3, 6, "odd")] if thorough else [])
    for (nt, ns, nf, nd, order) in ogrids:
        for dtype in ("f8", "f4"):
            for bk in BACKINGS:
                for ll in LONLAT:
                    for opt in powerset(WW3_OPT):
                        out.append(dict(fam="options", kind="ww3", nt=nt, ns=ns, nf=nf, nd=nd, order=order, dtype=dtype, pattern="ramp",
                                        backing=bk, opt=opt, lonlat=ll, wrot=3))
                    for opt in powerset(SWAN_OPT):
                        for rr in ("0_2pi", "-pi_pi", "pi2_5pi2", "-5pi2_-pi2"):
                            for ca in ("full", "none"):
                                out.append(dict(fam="options", kind="ncswan", nt=nt, ns=ns, nf=nf, nd=nd, order=order, dtype=dtype, pattern="ramp",
                                                backing=bk, opt=opt, lonlat=ll, radrange=rr, wrot=5, cattrs=ca))
                for opt in powerset(WWM_OPT + ["HS"]):
                    for acd in ("freq_first", "dir_first"):
                        out.append(dict(fam="options", kind="wwm", nt=nt, ns=ns, nf=nf, nd=nd, order=order, dtype=dtype, pattern="ramp",
                                        backing=bk, opt=opt, acdims=acd, wrot=7))
                for pat in PATTERNS:
                    out.append(dict(fam="options", kind="era5", grid="custom", nt=nt, nlat=ns, nlon=1, nf=nf, nd=nd, order=order, dtype=dtype,
                                    pattern=pat, backing=bk))
    # ---- family 'wind': every rotation of the wind-angle menu over a 3 x 3 block of records (components -> speed, from-direction)
    for kind in ("ncswan", "wwm"):
        for wrot in range(16):
            for dtype in ("f8", "f4"):
                p = dict(fam="wind", kind=kind, nt=3, ns=3, nf=2, nd=4, order="asc0", dtype=dtype, pattern="ramp", backing="numpy", wrot=wrot)
                if kind == "ncswan":
                    p.update(opt=SWAN_OPT, lonlat="station", radrange="0_2pi")
                else:
                    p.update(opt=WWM_OPT, acdims="freq_first")
                out.append(p)
    # ---- family 'ndbc': every subset of the four directional variables x directional flag x resolution x layout x backing
    for nt in ((1, 2, 3) if thorough else (1, 2)):
        for nf in (2, 3):
            for opt in powerset(NDBC_DIRVARS):
                for directional in (None, False):
                    for dd in ((None, 90.0, 60.0, 45.0) if thorough else (None, 90.0)):
                        for latlon in (False, True):
                            for dtype in ("f8", "f4"):
                                bks = BACKINGS if (nt, nf) == (2, 2) else ["numpy"]
                                for bk in bks:
                                    pats = PATTERNS if thorough else [PATTERNS[n % 3]]
                                    for pat in pats:
                                        n += 1
                                        out.append(dict(fam="ndbc", kind="ndbc", nt=nt, nf=nf, opt=opt + (["c11"] if n % 2 else []),
                                                        directional=directional, dd=dd, latlon=latlon, dtype=dtype, pattern=pat,
                                                        backing=bk, arot=n % 3))
    # ---- family 'ndbc-2d': all four directional variables present (2-D reconstruction), every resolution / layout / pattern / angle set
    for nt in (1, 2, 3):
        for nf in (2, 3):
            for dd in (None, 90.0, 60.0, 45.0, 30.0, 7.2, 14.4, 22.5):   # incl. decimal steps whose double is not an exact divisor of 360
                for latlon in (False, True):
                    for dtype in ("f8", "f4"):
                        for pat in PATTERNS:
                            for arot in (0, 1, 2):
                                for bk in (BACKINGS if (thorough or (nt, nf) == (2, 2)) else ["numpy"]):
                                    out.append(dict(fam="ndbc-2d", kind="ndbc", nt=nt, nf=nf, opt=list(NDBC_DIRVARS), directional=None, dd=dd,
                                                    latlon=latlon, dtype=dtype, pattern=pat, backing=bk, arot=arot))

    def size(p):
        if p["kind"] == "ndbc":
            return p["nt"] * p["nf"]
        if p["kind"] == "era5":
            g = (ERA5_NF * ERA5_ND) if p["grid"] == "default" else p["nf"] * p["nd"]
            return p["nt"] * p["nlat"] * p["nlon"] * g
        return p["nt"] * p["ns"] * p["nf"] * p["nd"]

    order = sorted(range(len(out)), key=lambda i: (size(out[i]), KINDS.index(out[i]["kind"]), i))
    return [out[i] for i in order]


def run_chunk(arg):
    seed, plist = arg
    res = {"evals": 0, "n_nontrivial": 0, "samples": [], "outcomes": {}, "violations": [], "parts": {}}
    for p in plist:
        vios, outcomes, ncalls = run_case(p, seed)
        res["evals"] += ncalls
        res["n_nontrivial"] += 1
        key = "%s/%s" % (p["fam"], p["kind"])
        res["parts"][key] = res["parts"].get(key, 0) + 1
        for k, v in outcomes.items():
            res["outcomes"][k] = res["outcomes"].get(k, 0) + v
        res["violations"].extend(vios)
    return res


def sample_of(p, seed):
    ds, T, kwargs = ENCODERS[p["kind"]](p, seed)
    s = {"params": p, "reader_kwargs": kwargs, "native": {}}
    for name, var in ds.variables.items():
        a = np.asarray(var.values)
        if a.size <= 64:
            s["native"][name] = {"dims": list(var.dims), "dtype": str(a.dtype),
                                 "values": a.astype(str).tolist() if a.dtype.kind in "MS" else a.tolist()}
    s["truth_coming_from_dirs"] = None if T.get("d") is None else np.asarray(T["d"]).tolist()
    s["native_variance_per_spectrum"] = np.asarray(T["m0"]).tolist()
    return s


def run(rep, tier, seed, parts=None):
    common.load_wavespectra()
    rep.rule = (
        "complete enumeration of native datasets written by independent encoders from a physical truth E(f,theta_from) with a distinct "
        "value in every bin: family 'grid' = {WW3, SWAN-nc, WWM} x nt,nsite in 1..3 x nf in {2,3} x nd in {4,6} x 6 direction orders "
        "(ascending, half-bin offset, descending, rotated, WW3-style descending-rotated, odd offset) x {float64,float32} (all optional "
        "variables present; every dataset of the grid family alternately with and without any attribute metadata (units, standard names, global attributes stripped; SWAN options family: both for every radian range); value pattern / lonlat layout / radian range / AC dim order cycled in the quick tier, every value pattern in "
        "the thorough tier) and ERA5 (custom freqs/dirs) x nt 1..3 x lat/lon sizes; 'era5-default' = the documented 30x24 grid without "
        "freqs/dirs arguments x missing-value patterns x backing; 'options' = every subset of optional variables x 4 lon/lat layouts "
        "(with time axis constant/varying, station only, absent) x backing {numpy, read-only numpy, dask} x dtype; 'wind' = 16 rotations "
        "of a 16-angle wind menu over 9 records; 'ndbc' = every subset of the 4 directional variables x directional flag x dd in "
        "{default 10, 90} (thorough: also 60, 45; nt up to 3) x (time,frequency[,latitude,longitude]) x dtype; 'ndbc-2d' = all four present x nt 1..3 x nf x dd in {10, 90, 60, 45, 30, 7.2, 14.4, 22.5} x "
        "layout x dtype x 3 value patterns x 3 angle sets. Every case goes through from_<model> and "
        "read_dataset (the thorough tier adds nd = 5, for which a half-turn is not a symmetry of the direction grid; ERA5 also through from_era5 after the renaming that read_era5 performs), each on a fresh native dataset. "
        "Every case is non-trivial by construction (energy in >= 2 frequencies and >= 2 directions, all values distinct).")
    rep.assumptions = [
        "native conventions as documented in the readers and sample files: WW3 efth m2 s rad-1 on going-to degrees; SWAN netCDF density "
        "m2 s rad-1 on nautical coming-from radians; WWM action density AC = E(sigma,theta)/sigma on SPSIG rad/s and SPDIR coming-from "
        "radians in [0,2pi); ERA5 log10(m2 s rad-1), NaN = no energy, 30 frequencies 0.03453*1.1**k, 24 going-to directions 7.5+15k; "
        "NDBC netCDF Longuet-Higgins parameters r1, r2 (unscaled), mean/principal coming-from directions in degrees",
        "WWM datasets always carry lon, lat, DEP and ocean_time (from_wwm cannot read a dataset without them: not counted as a violation)",
        "rectangle-rule weights (central differences in frequency, uniform circular direction width) are used on both sides of the variance clause",
        "pass-through variables (WW3 wnd/wnddir, depth, lon/lat) are only required to keep their numbers when the reader returns them",
    ]
    allc = cases(tier, seed)
    if parts:
        allc = [p for p in allc if p["fam"] in parts or p["kind"] in parts]
    CH = 24
    items = [(seed, allc[i:i + CH]) for i in range(0, len(allc), CH)]
    for res in common.pmap(run_chunk, items):
        rep.merge(res)
    rep.extra["cases"] = len(allc)
    rep.extra["entry_points_per_case"] = "2 (3 for ERA5)"
    rep.extra["seed_variant"] = {"base": BASES[seed % 5], "freqs2": FREQS2[seed % 5], "freqs3": FREQS3[seed % 5], "odd_offset": ODD[seed % 5]}
    picks = []
    for kind in KINDS:
        for p in allc:
            if p["kind"] == kind and not (kind == "era5" and p.get("grid") == "default"):
                picks.append(p)
                break
    rep.samples = [sample_of(p, seed) for p in picks]
