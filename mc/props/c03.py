"""C03 - watershed partitions (PTM1/2/3) are a sound, ordered, energy-conserving split (E1)."""
from __future__ import annotations

import itertools
import math
import numpy as np

from mc import common, gen
from mc.common import Violation

PROP = "C03"
LEVEL = "exploration"
D2R = math.pi / 180.0


def grid(nf, nd, seed=0):
    f = np.linspace(0.06, 0.4, nf) if nf > 1 else np.array([0.1])
    f = f + [0.0, 0.003, 0.006][seed % 3]
    d = np.arange(nd) * (360.0 / nd) + [0.0, 5.0, 2.5][seed % 3]
    return f, d


WIND_FULL = list(itertools.product([0.0, 5.0, 20.0], [0.0, 90.0, 225.0], [5.0, 50.0], [1.0, 1.7], [0.0, 0.3333, 0.9]))
# small menu with every value of every factor and every pair of (wspd, wscut), (wspd, wdir)
WIND_SMALL = [w for i, w in enumerate(WIND_FULL) if i % 9 in (0, 4) or w[0] == 20.0 and i % 5 == 0][:24]


def expected(method, S, Ssm, f, d, cfg):
    """Reference model given the label map. Returns dict(part0, part1, swells(list), detected, dontcare)."""
    from wavespectra.partition import specpart
    from wavespectra.core.utils import celerity

    lab = specpart.partition(np.ascontiguousarray(Ssm, dtype=np.float32), int(cfg["ihmax"]))
    n = int(lab.max())
    basins = [np.where(lab == k, S, 0.0) for k in range(1, n + 1)]
    out = {"detected": n, "dontcare": False, "lab": lab}
    if method == "ptm3":
        out["fixed"] = []
        out["swells"] = basins
        return out
    wspd, wdir, dpt, agefac, wscut = cfg["wspd"], cfg["wdir"], cfg["dpt"], cfg["agefac"], cfg["wscut"]
    c = np.asarray(celerity(f, dpt), dtype=float)
    up = np.array([agefac * wspd * math.cos(D2R * (dj - wdir)) for dj in d])
    diff = up[None, :] - c[:, None]
    if (np.abs(diff) < 1e-9 * (1 + np.abs(c[:, None]))).any():
        out["dontcare"] = True
    mask = diff > 0
    p0 = np.zeros_like(S)
    p1 = np.zeros_like(S)
    swells = []
    for b in basins:
        tot = math.fsum(b.ravel().tolist())
        ws = math.fsum(b[mask].ravel().tolist())
        frac = ws / tot if tot > 0 else float("nan")
        if not math.isnan(frac) and abs(frac - wscut) < 1e-9 and not (ws == 0.0 and wscut == 0.0):
            # "fraction exceeds the cutoff": equality is don't-care unless it is exact (no wind-sea energy at all, cutoff 0: not wind sea)
            out["dontcare"] = True
        if frac > wscut:
            p0 = p0 + b
            swells.append(np.zeros_like(S))  # the slot of a basin merged into the wind sea stays empty
        elif method == "ptm1":
            swells.append(b)
        else:
            p1 = p1 + np.where(mask, b, 0.0)
            swells.append(np.where(mask, 0.0, b))
    out["fixed"] = [p0] if method == "ptm1" else [p0, p1]
    out["swells"] = swells
    return out


def check_output(method, out, S, f, d, cfg, exp, dtype_out=None):
    """Returns list of (clause, msg)."""
    from wavespectra.core import npstats

    bad = []
    k = int(cfg["count"])
    nfixed = {"ptm1": 1, "ptm2": 2, "ptm3": 0}[method]
    Sx = S if dtype_out is None else S.astype(dtype_out)
    out = np.asarray(out)
    if out.shape != (k + nfixed,) + S.shape:
        return [("number-of-partitions", "output shape %s, expected %s" % (out.shape, (k + nfixed,) + S.shape))]
    o = out.astype(float)
    Sf = Sx.astype(float)
    # (i) every bin is the input bin or zero
    okbin = (o == Sf[None]) | (o == 0)
    if not okbin.all():
        i = tuple(np.argwhere(~okbin)[0])
        bad.append(("bin-is-input-or-zero", "partition %d bin %s holds %r, input %r" % (i[0], i[1:], o[i], Sf[i[1:]])))
        return bad
    # (ii) no bin in two partitions
    cnt = (o != 0).sum(axis=0)
    if (cnt > 1).any():
        i = tuple(np.argwhere(cnt > 1)[0])
        bad.append(("disjoint", "bin %s is non-zero in %d partitions" % (i, cnt[i])))
        return bad
    tot = o.sum(axis=0)
    if (tot > Sf).any():
        bad.append(("sum<=input", "partitions add up to more than the input"))
        return bad
    if exp["detected"] <= k and not np.array_equal(tot, Sf):
        # whatever the classification of a boundary bin, every bin must end up in exactly one partition
        bad.append(("sum-equals-input-when-enough-requested", "requested %d >= detected %d but partitions do not add up to the input (sum %r vs %r)" % (
            k, exp["detected"], float(tot.sum()), float(Sf.sum()))))
        return bad
    if exp["dontcare"]:
        return bad
    cast = (lambda a: a) if dtype_out is None else (lambda a: a.astype(dtype_out).astype(float))
    # wind sea partitions first
    for i, p in enumerate(exp["fixed"]):
        if not np.array_equal(o[i], cast(p)):
            bad.append(("wind-sea-first" if i == 0 else "secondary-wind-sea", "partition %d differs from the rule-based wind sea:\n got %s\n exp %s" % (i, o[i].tolist(), cast(p).tolist())))
            return bad
    sw = [cast(s) for s in exp["swells"]]
    hs_exp = [float(npstats.hs(s, f, d)) for s in sw]
    got = [o[nfixed + i] for i in range(k)]
    hs_got = [float(npstats.hs(g, f, d)) for g in got]
    # ordering: non-increasing hs, empties last
    for i in range(k - 1):
        if hs_got[i] < hs_got[i + 1] * (1 - 1e-12) - 1e-300:
            bad.append(("swells-non-increasing-hs", "hs of swells %s not non-increasing" % hs_got))
            return bad
    # match every output swell to an expected one (each used once) or to an empty partition
    avail = list(range(len(sw)))
    for g in got:
        m = None
        for j in avail:
            if np.array_equal(g, sw[j]):
                m = j
                break
        if m is None:
            if not g.any():
                continue  # padding
            bad.append(("swell-is-a-basin", "an output swell is not one of the watershed basins (after the wind-sea rule): %s" % g.tolist()))
            return bad
        avail.remove(m)
    dropped = [j for j in avail if sw[j].any()]
    if exp["detected"] <= k:
        if dropped or not np.array_equal(tot, Sf):
            bad.append(("sum-equals-input-when-enough-requested", "requested %d >= detected %d but partitions do not add up to the input (sum %r vs %r)" % (
                k, exp["detected"], float(tot.sum()), float(Sf.sum()))))
            return bad
    if dropped:
        kept_min = min([h for h in hs_got] or [0.0])
        worst = max(hs_exp[j] for j in dropped)
        if worst > kept_min * (1 + 1e-12) + 1e-300:
            bad.append(("dropped-are-smallest", "a dropped basin has hs %r > smallest kept swell %r" % (worst, kept_min)))
    return bad


def call(method, S, Ssm, f, d, cfg):
    from wavespectra.partition import partition as pp

    if method == "ptm3":
        return pp.np_ptm3(S, Ssm, f, d, parts=cfg["count"], ihmax=cfg["ihmax"])
    fn = pp.np_ptm1 if method == "ptm1" else pp.np_ptm2
    return fn(S, Ssm, f, d, cfg["wspd"], cfg["wdir"], cfg["dpt"], agefac=cfg["agefac"], wscut=cfg["wscut"], swells=cfg["count"], ihmax=cfg["ihmax"])


def spec_pred(S, exp):
    if S.max() == S.min():
        return "constant-spectrum" if S.max() > 0 else "zero-spectrum"
    if S.max() - S.min() < 1e-9:
        return "value-range<1e-9"
    return "basins=%s" % ("1" if exp["detected"] == 1 else "0" if exp["detected"] == 0 else ">=2")


def one_case(method, S, Ssm, f, d, cfg):
    try:
        out = call(method, S, Ssm, f, d, cfg)
    except Exception as e:  # noqa
        exp = {"detected": -1}
        return [("raises-" + type(e).__name__, "%s raised %s: %s" % (method, type(e).__name__, e))], exp
    exp = expected(method, S, Ssm, f, d, cfg)
    return check_output(method, out, S, f, d, cfg, exp), exp


def replay(case):
    common.load_wavespectra()
    S = np.asarray(case["efth"], dtype=float)
    Ssm = np.asarray(case.get("smooth", case["efth"]), dtype=float)
    f = np.asarray(case["f"], dtype=float)
    d = np.asarray(case["d"], dtype=float)
    if case.get("level") == "accessor":
        return replay_accessor(case)
    if case.get("level") == "sequence":
        fc = case["first"]
        one_case(case["method"], np.asarray(fc["efth"], float), np.asarray(fc["efth"], float), np.asarray(fc["f"], float), np.asarray(fc["d"], float), fc["cfg"])
    bad, exp = one_case(case["method"], S, Ssm, f, d, case["cfg"])
    return [Violation(PROP, "np_%s|%s|%s" % (case["method"], cl, spec_pred(S, exp)), msg, case) for cl, msg in bad]


def spectra_of(it):
    nf, nd = it["nf"], it["nd"]
    if it["fam"] == "product":
        return gen.product_array(nf * nd, it["alpha"]).reshape(-1, nf, nd)
    if it["fam"] == "bumps":
        return gen.bumps(nf, nd, it["k"], it["heights"], base=it.get("base", 0.0))
    if it["fam"] == "structured":
        return gen.structured(nf, nd, it["alpha"], kmax=2)
    if it["fam"] == "lattice":
        # a peak on every other cell in both directions (nf*nd/4 regional maxima, all of different height) over a flat floor; a second
        # spectrum with the lattice shifted by one cell
        k = np.arange((nf // 2) * (nd // 2), dtype=float).reshape(nf // 2, nd // 2)
        out = []
        for o in (0, 1):
            S = np.full((nf, nd), 1.0)
            S[o::2, o::2][:k.shape[0], :k.shape[1]] = 10.0 + 0.01 * ((k * 7) % k.size)[:S[o::2, o::2].shape[0], :S[o::2, o::2].shape[1]]
            out.append(S)
        return np.array(out)
    raise ValueError


def run_item(it):
    common.load_wavespectra()
    f, d = grid(it["nf"], it["nd"], it["seed"])
    if it.get("flow"):
        # a frequency axis that ends below 0.333 Hz: the library's Hs adds no high-frequency tail there
        f = np.linspace(0.05, 0.30, it["nf"]) + [0.0, 0.003, 0.006][it["seed"] % 3]
    E = spectra_of(it)
    if it.get("fdesc"):
        # the numpy-level functions accept a frequency axis stored in descending order (npstats.hs integrates |df|)
        f = f[::-1].copy()
        E = E[:, ::-1, :].copy()
    lo, hi = it.get("slice", (0, E.shape[0]))
    E = E[lo:hi]
    res = {"evals": 0, "n_nontrivial": 0, "samples": [], "outcomes": {}, "violations": [], "parts": {}}
    seen = set()
    cfgs = it["cfgs"]
    rot = it.get("rotate", False)
    for b in range(E.shape[0]):
        S = E[b]
        use = [cfgs[(b + j) % len(cfgs)] for j in range(it.get("per", 1))] if rot else cfgs
        nontriv = False
        for cfg in use:
            for method in it["methods"]:
                if method == "ptm3" and cfg.get("skip3"):
                    continue
                if method != "ptm3" and "wspd" not in cfg:
                    continue
                bad, exp = one_case(method, S, S, f, d, cfg)
                res["evals"] += 1
                if exp["detected"] >= 2:
                    nontriv = True
                key = "%s:basins=%s,req=%s" % (method, min(exp["detected"], 4), "lt" if cfg["count"] < exp["detected"] else "eq" if cfg["count"] == exp["detected"] else "gt")
                res["outcomes"][key] = res["outcomes"].get(key, 0) + 1
                for cl, msg in bad:
                    sig = "np_%s|%s|%s" % (method, cl, spec_pred(S, exp))
                    if sig not in seen:
                        seen.add(sig)
                        res["violations"].append(Violation(PROP, sig, msg, dict(method=method, efth=S, f=f, d=d, cfg=cfg)))
        if nontriv:
            res["n_nontrivial"] += 1
    res["parts"][it["name"]] = res["evals"]
    if E.shape[0]:
        res["samples"].append(dict(part=it["name"], method=it["methods"][0], efth=E[E.shape[0] // 2], f=f, d=d, cfg=cfgs[0]))
    return res



# ---- call sequences on grids of equal shape but different coordinates (stale caches keyed too narrowly) ----------
def run_boundary(it):
    """wind exactly on the wave-age boundary of one bin: agefac * wspd * cos(0) == celerity(f[k], dpt) bit for bit where that round-trips"""
    common.load_wavespectra()
    from wavespectra.core.utils import celerity
    res = {"evals": 0, "n_nontrivial": 0, "samples": [], "outcomes": {}, "violations": [], "parts": {}}
    nf, nd = 4, 6
    f, d = grid(nf, nd, it["seed"])
    E = gen.bumps(nf, nd, 2, [3.0, 1.0], base=0.05)
    E = E[:: max(1, E.shape[0] // 12)][:12]
    seen = set()
    exact = 0
    for dpt in (5.0, 50.0, 3000.0):
        c = np.asarray(celerity(f, dpt), dtype=float)
        for agefac in (1.7, 1.0):
            for k in range(nf):
                wspd = float(c[k] / agefac)
                for j in range(nd):
                    if agefac * wspd * math.cos(D2R * (d[j] - d[j])) == c[k]:
                        exact += 1
                    cfg = dict(ihmax=100, count=3, wspd=wspd, wdir=float(d[j]), dpt=dpt, agefac=agefac, wscut=0.3333)
                    for b in range(E.shape[0]):
                        for method in ("ptm1", "ptm2"):
                            bad, exp = one_case(method, E[b], E[b], f, d, cfg)
                            res["evals"] += 1
                            if exp["detected"] >= 2:
                                res["n_nontrivial"] += 1
                            for cl, msg in bad:
                                sig = "np_%s|%s|%s,wind-exactly-on-the-wave-age-boundary" % (method, cl, spec_pred(E[b], exp))
                                if sig not in seen:
                                    seen.add(sig)
                                    res["violations"].append(Violation(PROP, sig, msg, dict(method=method, efth=E[b], f=f, d=d, cfg=cfg)))
    res["outcomes"]["boundary configs with exact IEEE equality"] = exact
    res["parts"]["wave-age-boundary"] = res["evals"]
    res["samples"].append(dict(part="wave-age-boundary", f=f, d=d, cfg=dict(wspd="celerity(f[k],dpt)/agefac", wdir="d[j]"), efth=E[0]))
    return res


def run_sequence(it):
    common.load_wavespectra()
    res = {"evals": 0, "n_nontrivial": 0, "samples": [], "outcomes": {}, "violations": [], "parts": {}}
    nf, nd = 3, 4
    fsets = [np.array([0.06, 0.11, 0.2]), np.array([0.09, 0.16, 0.3]), np.array([0.05, 0.07, 0.4])]
    dsets = [np.arange(nd) * 90.0, np.arange(nd) * 90.0 + 40.0]
    grids = [(f, d) for f in fsets for d in dsets]
    E = gen.bumps(nf, nd, 2, [3.0, 1.0], base=0.05, width=False)
    E = np.array([e for e in E if abs(int(np.argmax(e)) // nd - int(np.argmax(np.where(e == 1.0, 1, 0))) // nd) + 0 >= 0])
    E = E[[3, 17, 40, 58, 77, 101]]
    cfgs = [dict(ihmax=100, count=2, wspd=w, wdir=wd, dpt=dp, agefac=af, wscut=wc) for (w, wd, dp, af, wc) in
            [(10.0, 0.0, 5.0, 1.7, 0.3333), (10.0, 0.0, 50.0, 1.7, 0.3333), (18.0, 100.0, 5.0, 1.0, 0.0), (10.0, 0.0, 5.0, 1.0, 0.9)]]
    seen = set()
    for (g1, g2) in itertools.permutations(range(len(grids)), 2):
        for ci, cfg in enumerate(cfgs):
            cfg2 = cfgs[(ci + it["shift"]) % len(cfgs)]
            for method in ("ptm1", "ptm2", "ptm3"):
                for k, (g, c) in enumerate(((g1, cfg), (g2, cfg2))):
                    f, d = grids[g]
                    S = E[(g + k + ci) % len(E)]
                    bad, exp = one_case(method, S, S, f, d, c)
                    res["evals"] += 1
                    if exp["detected"] >= 2:
                        res["n_nontrivial"] += 1
                    for cl, msg in bad:
                        sig = "np_%s|%s|%s,after-call-on-other-grid-of-same-shape" % (method, cl, spec_pred(S, exp))
                        if sig not in seen:
                            seen.add(sig)
                            f1, d1 = grids[g1]
                            res["violations"].append(Violation(PROP, sig, "second call of a sequence (grid %d then grid %d): %s" % (g1, g2, msg),
                                                               dict(level="sequence", method=method, first=dict(f=f1, d=d1, cfg=cfg, efth=E[(g1 + ci) % len(E)]),
                                                                    efth=S, f=f, d=d, cfg=c)))
    res["parts"]["call-sequences"] = res["evals"]
    res["samples"].append(dict(part="call-sequence", first_grid=dict(f=grids[0][0], d=grids[0][1]), second_grid=dict(f=grids[3][0], d=grids[3][1]), cfg=cfgs[0], efth=E[0]))
    return res


# ---- accessor level -----------------------------------------------------------------------------
def replay_accessor(case):
    return accessor_case(case)[0]


def accessor_case(case):
    """case: efth[N,nf,nd], layout, backing, method, cfg (with per-position wind lists), smooth"""
    common.load_wavespectra()
    import xarray as xr
    from wavespectra.core.utils import smooth_spec

    f = np.asarray(case["f"], dtype=float)
    d = np.asarray(case["d"], dtype=float)
    E = np.asarray(case["efth"], dtype=float)
    N = E.shape[0]
    layout = case["layout"]
    cfg = case["cfg"]
    if layout == "time":
        shp, dims = (N,), ["time"]
    elif layout == "time_site":
        shp, dims = (N // 2, 2), ["time", "site"]
    else:
        shp, dims = (2, N // 2), ["lat", "lon"]
    coords = {"freq": f, "dir": d}
    for nm, n in zip(dims, shp):
        coords[nm] = (np.arange(n) * 1.0) if nm != "time" else (np.datetime64("2020-01-01") + np.arange(n) * np.timedelta64(3, "h")).astype("datetime64[ns]")
    da = xr.DataArray(E.reshape(shp + E.shape[1:]), dims=dims + ["freq", "dir"], coords=coords, name="efth")
    pc = {k: v for k, v in coords.items() if k in dims}
    wspd = xr.DataArray(np.asarray(cfg["wspd"], dtype=float).reshape(shp), dims=dims, coords=pc)
    wdir = xr.DataArray(np.asarray(cfg["wdir"], dtype=float).reshape(shp), dims=dims, coords=pc)
    dpt = xr.DataArray(np.asarray(cfg["dpt"], dtype=float).reshape(shp), dims=dims, coords=pc)
    if case.get("backing") == "dask":
        ch = {dims[0]: 1}
        da, wspd, wdir, dpt = da.chunk(ch), wspd.chunk(ch), wdir.chunk(ch), dpt.chunk(ch)
    method = case["method"]
    kw = dict(smooth=bool(case.get("smooth")), ihmax=cfg["ihmax"])
    P = da.spec.partition
    if method == "ptm3":
        out = P.ptm3(parts=cfg["count"], **kw)
    else:
        out = getattr(P, method)(wspd, wdir, dpt, agefac=cfg["agefac"], wscut=cfg["wscut"], swells=cfg["count"], **kw)
    vs = []
    nchecked = 0
    if out.dims[0] != "part" or out.dtype != np.float32:
        vs.append(Violation(PROP, "spec.partition.%s|part-first-float32|" % method, "dims %s dtype %s" % (out.dims, out.dtype), case))
        return vs, 0
    out = out.transpose(*(dims + ["part", "freq", "dir"])).values.reshape((N,) + (out.sizes["part"],) + E.shape[1:])
    sm = smooth_spec(da.compute(), 3, 3).transpose(*(dims + ["freq", "dir"])).values.reshape(E.shape) if case.get("smooth") else E
    for b in range(N):
        c1 = dict(cfg, wspd=float(np.ravel(cfg["wspd"])[b]), wdir=float(np.ravel(cfg["wdir"])[b]), dpt=float(np.ravel(cfg["dpt"])[b]))
        exp = expected(method, E[b], sm[b], f, d, c1)
        bad = check_output(method, out[b], E[b], f, d, c1, exp, dtype_out=np.float32)
        nchecked += 1
        for cl, msg in bad:
            vs.append(Violation(PROP, "spec.partition.%s|%s|%s" % (method, cl, spec_pred(E[b], exp)), "position %d (%s, %s): %s" % (b, layout, case.get("backing"), msg), case))
            break
    return vs, nchecked


def run_acc(it):
    vs, n = accessor_case(it)
    return {"evals": n, "n_nontrivial": n if not it.get("trivial") else 0, "violations": vs[:1], "parts": {"accessor": n},
            "samples": [dict(part="accessor", method=it["method"], layout=it["layout"], backing=it.get("backing"), smooth=it.get("smooth"))] if it.get("sample") else []}


def run(rep, tier, seed, parts=None):
    common.load_wavespectra()
    a3 = gen.alphabet(seed, 3)
    rep.rule = ("numpy level: every assignment of a 3-value alphabet to the bins of small grids (2x4 full; 2x5, 1x8, 3x4 in parts / "
                "thorough full) and complete 2-/3-bump families on 4x6 and 5x8, x PTM1/2/3 x ihmax {2,5,100} x requested count "
                "{1,2,3,5} x wind/depth/agefac/wscut menus (full 324-config product on the structured 3x4 family); accessor level: the "
                "same spectra on (time), (time,site), (lat,lon) layouts with per-position wind and depth, numpy- and dask-backed, "
                "smoothing on/off; call sequences: every ordered pair of 6 grids of equal shape but different frequency/direction values x 4 wind/depth configurations x PTM1/2/3 run back to back in one process. Oracle = reference model of the three methods given the watershed label map. Non-trivial = spectrum "
                "with >= 2 basins.")
    rep.assumptions = ["the label map itself is C04's subject and is taken from specpart.partition",
                       "celerity() is taken from the library (checked against the dispersion relation by C01)",
                       "cases where a bin's celerity equals the wind component, or a basin's wind-sea fraction equals wscut, within 1e-9 are don't-care for the classification clauses (soundness clauses still apply)"]
    items = []

    def cfg3():
        return [dict(ihmax=ih, count=c) for ih in (2, 5, 100) for c in (1, 2, 3, 5)]

    def cfgw(menu, counts=(1, 3), ihs=(100,)):
        return [dict(ihmax=ih, count=c, wspd=w[0], wdir=w[1], dpt=w[2], agefac=w[3], wscut=w[4], skip3=True) for w in menu for c in counts for ih in ihs]

    if parts is None or "np" in parts:
        items.append(dict(name="2x4-product-ptm3", fam="product", nf=2, nd=4, alpha=a3, cfgs=cfg3(), methods=["ptm3"], seed=seed))
        n24 = 3 ** 8
        nsl = 8
        for i in range(nsl):
            items.append(dict(name="2x4-product-ptm12", fam="product", nf=2, nd=4, alpha=a3, cfgs=cfgw(WIND_SMALL, (1, 3), (100,)) + cfgw(WIND_SMALL[:6], (2,), (2, 5)),
                              methods=["ptm1", "ptm2"], seed=seed, slice=(i * n24 // nsl, (i + 1) * n24 // nsl)))
        # 3x4 structured family x the full wind product
        for i in range(8):
            items.append(dict(name="3x4-structured-fullwind", fam="structured", nf=3, nd=4, alpha=a3, cfgs=cfgw(WIND_FULL, (1, 2, 5), (100,)),
                              methods=["ptm1", "ptm2"], seed=seed, slice=(i * 40, (i + 1) * 40)))
        items.append(dict(name="3x4-structured-ptm3", fam="structured", nf=3, nd=4, alpha=a3, cfgs=cfg3(), methods=["ptm3"], seed=seed))
        items.append(dict(name="3x4-structured-descending-freq", fam="structured", nf=3, nd=4, alpha=a3, cfgs=cfg3() + cfgw(WIND_SMALL[:8], (1, 3), (100,)),
                          methods=["ptm1", "ptm2", "ptm3"], seed=seed, fdesc=True))
        items.append(dict(name="4x6-bumps3-descending-freq", fam="bumps", nf=4, nd=6, k=3, heights=[3.0, 1.0, 0.6] if a3[2] <= 0 else [a3[2], a3[1] if a3[1] > 0 else 0.5, 0.6 * (a3[1] if a3[1] > 0 else 0.5)],
                          cfgs=cfg3() + cfgw(WIND_SMALL[:4], (1, 2), (100,)), methods=["ptm1", "ptm2", "ptm3"], seed=seed, fdesc=True, slice=(0, 1500), rotate=True, per=2))
        # grids ending below 0.333 Hz (no tail in the library's Hs, which ranks the partitions)
        items.append(dict(name="3x4-structured-low-grid", fam="structured", nf=3, nd=4, alpha=a3, cfgs=cfg3() + cfgw(WIND_SMALL[:8], (1, 2, 3), (100,)),
                          methods=["ptm1", "ptm2", "ptm3"], seed=seed, flow=True))
        items.append(dict(name="4x6-bumps3-low-grid", fam="bumps", nf=4, nd=6, k=3, heights=[3.0, 1.0, 0.6] if a3[2] <= 0 else [a3[2], a3[1] if a3[1] > 0 else 0.5, 0.6 * (a3[1] if a3[1] > 0 else 0.5)],
                          cfgs=cfg3() + cfgw(WIND_SMALL[:4], (1, 2), (100,)), methods=["ptm1", "ptm2", "ptm3"], seed=seed, flow=True, slice=(0, 1500), rotate=True, per=2))
        # many basins: more regional maxima than an 8-bit label can count (144, 289 and 324 on 24x24, 34x34, 36x36)
        for n in (24, 34, 36):
            nb = (n // 2) ** 2
            items.append(dict(name="lattice-%dx%d-%d-basins" % (n, n, nb), fam="lattice", nf=n, nd=n,
                              cfgs=[dict(ihmax=100, count=nb + 3), dict(ihmax=100, count=nb - 20), dict(ihmax=100, count=3), dict(ihmax=100, count=nb // 4)]
                              + [dict(ihmax=100, count=c, wspd=w, wdir=40.0, dpt=50.0, agefac=1.7, wscut=0.3333, skip3=True) for c in (nb + 3, nb - 20, 3, nb // 4) for w in (0.0, 20.0)],
                              methods=["ptm1", "ptm2", "ptm3"], seed=seed))
        # bigger products with rotating configurations
        big = [(2, 5), (1, 8)] + ([(3, 4), (2, 6)] if tier == "thorough" else [])
        allc = cfg3() + cfgw(WIND_SMALL, (1, 2, 3), (5, 100))
        for nf, nd in big:
            n = 3 ** (nf * nd)
            nsl = max(1, n // 8192)
            for i in range(nsl):
                items.append(dict(name="%dx%d-product-rot" % (nf, nd), fam="product", nf=nf, nd=nd, alpha=a3, cfgs=allc, methods=["ptm1", "ptm2", "ptm3"],
                                  seed=seed, slice=(i * n // nsl, (i + 1) * n // nsl), rotate=True, per=2 if tier == "quick" else 3))
        hs3 = [a3[2] if a3[2] > 0 else 1.0, (a3[1] if a3[1] > 0 else 0.5), 0.6 * (a3[1] if a3[1] > 0 else 0.5)]
        bumpsets = [(4, 6, 2), (5, 8, 2), (4, 6, 3)] + ([(5, 8, 3)] if tier == "thorough" else [])
        for nf, nd, k in bumpsets:
            tot = len(list(itertools.combinations(range(nf * nd), k))) * math.factorial(k)
            nsl = max(1, tot // 1500)
            for i in range(nsl):
                items.append(dict(name="%dx%d-bumps%d" % (nf, nd, k), fam="bumps", nf=nf, nd=nd, k=k, heights=hs3, cfgs=allc, methods=["ptm1", "ptm2", "ptm3"],
                                  seed=seed, slice=(i * tot // nsl, (i + 1) * tot // nsl), rotate=True, per=3))
    acc = []
    if parts is None or "acc" in parts:
        f, d = grid(4, 6, seed)
        B = gen.bumps(4, 6, 2, [3.0, 1.0], base=0.0)
        B3 = gen.bumps(4, 6, 3, [3.0, 1.0, 0.5], base=0.01)
        first = True
        for li, layout in enumerate(["time", "time_site", "lat_lon"]):
            for backing in ("numpy", "dask"):
                for smooth in (False, True):
                    for method in ("ptm1", "ptm2", "ptm3"):
                        for ci, count in enumerate((1, 3)):
                            N = 6
                            nb = (12 if tier == "quick" else 40)
                            for blk in range(nb):
                                src = B if blk % 2 == 0 else B3
                                o = (blk * 37 + li * 11 + ci * 5) % (src.shape[0] - N)
                                E = src[o:o + N].copy()
                                E[-1] = 1.0 if blk % 3 == 0 else E[-1]  # a constant spectrum inside the dataset
                                cfg = dict(ihmax=(100, 5)[blk % 2], count=count, agefac=(1.7, 1.0)[blk % 2], wscut=(0.3333, 0.0, 0.9)[blk % 3],
                                           wspd=[0.0, 5.0, 20.0, 12.0, 20.0, 7.0], wdir=[0.0, 90.0, 225.0, 30.0, 300.0, 180.0], dpt=[5.0, 50.0, 5.0, 500.0, 20.0, 50.0])
                                acc.append(dict(level="accessor", f=f, d=d, efth=E, layout=layout, backing=backing, smooth=smooth, method=method, cfg=cfg, sample=first))
                                first = False

    seqs = [dict(level="sequence-item", shift=k) for k in range(2)] if (parts is None or "seq" in parts) else []

    seqs = seqs + ([dict(level="boundary-item", seed=seed)] if (parts is None or "seq" in parts) else [])

    def dispatch(it):
        if it.get("level") == "boundary-item":
            return run_boundary(it)
        if it.get("level") == "sequence-item":
            return run_sequence(it)
        return run_acc(it) if it.get("level") == "accessor" else run_item(it)
    items = seqs + items

    for res in common.pmap(dispatch, items + acc):
        rep.merge(res)
    rep.extra["work_items"] = len(items) + len(acc)
