"""Flood-fill oracle for watershed label maps (python twin of the oracle in cdrv/driver.c).

Grid z[nf][nd] (freq x dir), 8-adjacency, direction axis (axis 1) circular, frequency axis not.
"""
from __future__ import annotations

import math


def nbrs(nf, nd, c):
    k, t = divmod(c, nd)
    out = []
    for dk in (-1, 0, 1):
        kk = k + dk
        if kk < 0 or kk >= nf:
            continue
        for dt in (-1, 0, 1):
            if dk == 0 and dt == 0:
                continue
            tt = (t + dt) % nd
            if kk == k and tt == t:
                continue
            out.append(kk * nd + tt)
    return out


def levels(z, ihmax):
    """Independent discretisation; returns (levels, tie) - tie means a value sits on a rounding boundary."""
    zmin, zmax = min(z), max(z)
    lev, tie = [], False
    for v in z:
        q = (zmax - v) * (ihmax - 1.0) / (zmax - zmin)
        if abs(q - math.floor(q) - 0.5) < 1e-5:
            tie = True
        lev.append(min(ihmax - 1, max(0, int(math.floor(q + 0.5)))))
    return lev, tie


def components(nf, nd, key):
    n = nf * nd
    comp = [-1] * n
    nc = 0
    for i in range(n):
        if comp[i] >= 0:
            continue
        comp[i] = nc
        st = [i]
        while st:
            c = st.pop()
            for m in nbrs(nf, nd, c):
                if comp[m] < 0 and key[m] == key[c]:
                    comp[m] = nc
                    st.append(m)
        nc += 1
    return comp, nc


def check_labels(z2d, ihmax, lab2d):
    """Returns None if the label map satisfies C04's clauses for this spectrum, else a clause name.
    Returns 'skip:constant' / 'skip:tie' for excluded cases."""
    nf, nd = len(z2d), len(z2d[0])
    z = [float(v) for row in z2d for v in row]
    lab = [int(v) for row in lab2d for v in row]
    if max(z) == min(z):
        return "skip:constant"
    lev, tie = levels(z, ihmax)
    if tie:
        return "skip:tie"
    comp, nc = components(nf, nd, lev)
    ismin = [True] * nc
    for c in range(nf * nd):
        for m in nbrs(nf, nd, c):
            if lev[m] < lev[c]:
                ismin[comp[c]] = False
    nmin = sum(ismin)
    tiny = ":value-range<1e-9" if max(z) - min(z) < 1e-9 else ""
    if min(lab) < 1:
        return "unlabelled-bin" + tiny
    if max(lab) != nmin:
        return "basin-count!=regional-maxima" + tiny
    if set(lab) != set(range(1, nmin + 1)):
        return "label-gap"
    lab_of = {}
    cnt = {}
    for c in range(nf * nd):
        if ismin[comp[c]]:
            if comp[c] not in lab_of:
                lab_of[comp[c]] = lab[c]
                cnt[lab[c]] = cnt.get(lab[c], 0) + 1
            elif lab_of[comp[c]] != lab[c]:
                return "regional-maximum-split"
    if any(cnt.get(l, 0) != 1 for l in range(1, nmin + 1)):
        return "basin-without-exactly-one-maximum"
    lcomp, nlc = components(nf, nd, lab)
    if nlc != nmin:
        return "basin-not-connected"
    return None


def n_basins(z2d, ihmax):
    nf, nd = len(z2d), len(z2d[0])
    z = [float(v) for row in z2d for v in row]
    if max(z) == min(z):
        return 0
    lev, tie = levels(z, ihmax)
    comp, nc = components(nf, nd, lev)
    ismin = [True] * nc
    for c in range(nf * nd):
        for m in nbrs(nf, nd, c):
            if lev[m] < lev[c]:
                ismin[comp[c]] = False
    return sum(ismin)


def same_partition(lab_a, lab_b):
    """label maps equal as set partitions"""
    m, r = {}, {}
    for a, b in zip(lab_a, lab_b):
        if m.setdefault(a, b) != b or r.setdefault(b, a) != a:
            return False
    return True
