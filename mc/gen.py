"""Finite alphabets and complete enumerations shared by the explorers (simplest first)."""
from __future__ import annotations

import itertools
import numpy as np

ALPHABETS = [
    (0.0, 1.0, 3.0),
    (0.0, 0.5, 2.0),
    (0.0, 2.0, 3.0),
    (0.0, 1e-4, 7.0),
    (0.0, 1.5, 2.5),
    (0.25, 1.0, 4.0),
]
SCALES = [1.0, 1e-3, 1e3]
FOURTH = [7.0, 0.9, 5.0, 0.02, 4.5, 10.0]  # chosen so that no value falls on a level boundary of the watershed discretisation for the level counts used (a tie there is a dont-care and would empty the 4-value products)


def alphabet(seed: int, n: int = 3, scaled: bool = True):
    a = list(ALPHABETS[seed % len(ALPHABETS)])
    if n >= 4:
        a.append(FOURTH[seed % len(FOURTH)])
    if n == 2:
        a = [a[0], a[2]]
    s = SCALES[(seed // len(ALPHABETS)) % len(SCALES)] if scaled else 1.0
    return tuple(float(v) * s for v in a)


def level_ties(alpha, ihmaxes):
    """(lo, mid, hi, ihmax) combinations of alphabet values for which `mid` sits exactly on a rounding boundary of the watershed
    level discretisation of a spectrum with extremes lo, hi. Such spectra are don't-care for the partition checks, so an alphabet
    with many of them empties the product it is used in (this happened with a fourth value of 6.0, see DESIGN 11.4)."""
    import math
    out = []
    vals = sorted(set(float(a) for a in alpha))
    for lo, hi in itertools.combinations(vals, 2):
        for m in vals:
            if lo < m < hi:
                for ih in ihmaxes:
                    q = (hi - m) * (ih - 1.0) / (hi - lo)
                    if abs(q - math.floor(q) - 0.5) < 1e-5:
                        out.append((lo, m, hi, ih))
    return out


def product_array(cells: int, alpha) -> np.ndarray:
    """All len(alpha)**cells assignments, lexicographic (all-first-symbol first). shape (N, cells)."""
    k = len(alpha)
    n = k ** cells
    idx = np.arange(n, dtype=np.int64)
    out = np.empty((n, cells), dtype=np.float64)
    a = np.asarray(alpha, dtype=np.float64)
    for c in range(cells - 1, -1, -1):
        out[:, c] = a[idx % k]
        idx //= k
    return out


def weak_orderings(n: int):
    """All weak orderings of n items as rank tuples (ranks 0..k-1, every rank used). Fubini(n) of them."""
    out = []

    def rec(prefix, used_max):
        if len(prefix) == n:
            out.append(tuple(prefix))
            return
        for r in range(used_max + 2):
            rec(prefix + [r], max(used_max, r))

    # generate restricted-growth style then all relabelings that keep "every rank used": simpler:
    # enumerate all rank tuples in {0..n-1}^n whose set of ranks is {0..k-1}
    res = []
    for t in itertools.product(range(n), repeat=n):
        k = max(t) + 1
        if len(set(t)) == k:
            res.append(t)
    return res


def freq_families(seed: int = 0, sizes=(1, 2, 3, 4, 5)):
    """Named frequency grids: log (ratio 1.1), linear, irregular; last freq below / at / above 0.333 Hz."""
    fam = []
    off = [0.0, 0.003, 0.007][seed % 3]
    for n in sizes:
        if n == 1:
            fam.append(("single_lo", np.array([0.1 + off])))
            fam.append(("single_hi", np.array([0.4 + off])))
            continue
        # log spaced ending below 0.333
        f = (0.05 + off) * 1.1 ** np.arange(n)
        fam.append(("log_lo_%d" % n, f))
        # log spaced ending above 0.333
        f = (0.36 + off) / 1.1 ** np.arange(n)[::-1]
        fam.append(("log_hi_%d" % n, f))
        # linear ending exactly at 0.333
        f = 0.333 - (0.04 + off) * np.arange(n)[::-1]
        fam.append(("lin_at_%d" % n, f))
        if n >= 3:
            base = np.array([0.04, 0.05, 0.08, 0.1, 0.17, 0.2, 0.31, 0.45, 0.5])[:n] + off
            fam.append(("irr_%d" % n, base))
            # irregular ending just above the threshold
            b2 = np.concatenate([np.array([0.05, 0.07, 0.12, 0.2, 0.22, 0.3])[: n - 1] + off, [0.3331]])
            fam.append(("irr_hi_%d" % n, np.sort(b2)))
    return fam


def dir_sets(seed: int = 0, sizes=(1, 2, 3, 4, 5, 6, 8)):
    out = []
    for nd in sizes:
        if nd == 1:
            out.append(("d1", np.array([[0.0, 45.0, 200.0][seed % 3]])))
            continue
        dd = 360.0 / nd
        d0 = [0.0, 5.0, 7.5, dd / 3][(seed + nd) % 4]
        if d0 >= dd:
            d0 = dd / 2
        out.append(("d%d_%g" % (nd, d0), d0 + dd * np.arange(nd)))
    return out


def structured(nf: int, nd: int, alpha, kmax: int = 2) -> np.ndarray:
    """Complete structured families on an nf x nd grid: zero, constants, every impulse (each non-zero
    height), every pair of impulses with every height pair, the two ramps along each axis, checkerboards.
    Returns (N, nf, nd)."""
    cells = nf * nd
    nz = [a for a in alpha if a != 0]
    base = min(alpha)
    out = []
    out.append(np.full(cells, base))
    for a in nz:
        out.append(np.full(cells, a))
    for c in range(cells):
        for a in nz:
            v = np.full(cells, base)
            v[c] = a
            out.append(v)
    if kmax >= 2:
        for c1, c2 in itertools.combinations(range(cells), 2):
            for a1 in nz:
                for a2 in nz:
                    v = np.full(cells, base)
                    v[c1] = a1
                    v[c2] = a2
                    out.append(v)
    hi = max(alpha)
    fi, di = np.meshgrid(np.arange(nf), np.arange(nd), indexing="ij")
    for g in (fi, di, fi[::-1], di[:, ::-1], fi + di):
        g = g.astype(float)
        if g.max() > 0:
            out.append((base + (hi - base) * g / g.max()).ravel())
    out.append(np.where((fi + di) % 2 == 0, hi, base).astype(float).ravel())
    out.append(np.where((fi + di) % 2 == 1, hi, base).astype(float).ravel())
    arr = np.array(out, dtype=np.float64).reshape(-1, nf, nd)
    return arr


def bumps(nf: int, nd: int, k: int, heights, base=0.0, width=True, max_n=None) -> np.ndarray:
    """k bumps at every k-tuple of positions with every assignment (permutation) of the k heights.
    A bump is the peak cell plus (if width) half-height 4-neighbours (dir axis circular). (N, nf, nd)."""
    cells = nf * nd
    out = []
    for pos in itertools.combinations(range(cells), k):
        for hs in itertools.permutations(heights[:k]):
            v = np.full((nf, nd), base, dtype=float)
            for p, h in zip(pos, hs):
                i, j = divmod(p, nd)
                v[i, j] = max(v[i, j], h)
                if width:
                    for (a, b) in ((i - 1, j), (i + 1, j), (i, (j - 1) % nd), (i, (j + 1) % nd)):
                        if 0 <= a < nf:
                            v[a, b] = max(v[a, b], h / 2.0)
            out.append(v)
            if max_n and len(out) >= max_n:
                return np.array(out)
    return np.array(out)


def distinct_values(nf: int, nd: int, seed: int = 0, zeros: int = 0) -> np.ndarray:
    """One spectrum with a distinct positive value in every bin (membership readable from output)."""
    n = nf * nd
    perm = np.array([(i * 7 + 3 + seed) % n for i in range(n)]) if np.gcd(7, n) == 1 else np.arange(n)
    v = 1.0 + perm.astype(float) + 0.25 * ((perm * 5) % 3)
    v = v.reshape(nf, nd)
    if zeros:
        v = v.copy()
        v.ravel()[:: max(2, n // zeros)] = 0.0
    return v
