"""C06 - each spectrum in a dataset is processed independently of the others (differential, E1).

op(batch).isel(pos) == op(batch.isel(pos)) at every position of every layout of non-spectral dimensions; replacing one
spectrum changes no other position's result (bitwise); Dataset accessor == efth accessor.
"""
from __future__ import annotations

import itertools
import numpy as np

from mc import common
from mc.common import Violation
from mc.props import c05

PROP = "C06"
LEVEL = "exploration"
FREQ = c05.FREQ.copy()
DIRS = np.arange(8) * 45.0 + 5.0
F32_DERIVED = {"gamma": 2e-6, "alpha": 2e-6, "fp": 2e-6}  # float64 results computed from float32 peak frequencies
NSPEC = 32
QUICK_PAIR_OPS = ["hs", "tp", "dpm", "dspr", "gamma", "smooth(3,3)", "interp(freq)", "ptm1", "ptm3", "scale_by_hs", "split(f,d)", "stats(limits)"]


def menu():
    """30 pairwise distinct spectra (nf=6, nd=8): two-bump spectra with varying positions/heights plus degenerate ones."""
    nf, nd = len(FREQ), len(DIRS)
    i, j = np.meshgrid(np.arange(nf), np.arange(nd), indexing="ij")
    out = []
    k = 0
    for (i1, j1, h1), (i2, j2, h2) in itertools.product([(1, 1, 40.0), (2, 6, 25.0), (3, 3, 60.0), (1, 7, 33.0), (4, 0, 18.0)],
                                                          [(4, 5, 10.0), (2, 2, 22.0), (3, 7, 5.0), (1, 4, 47.0), (4, 2, 31.0), (2, 0, 14.0)]):
        if k >= NSPEC - 6:
            break
        d1 = np.minimum((j - j1) % nd, (j1 - j) % nd)
        d2 = np.minimum((j - j2) % nd, (j2 - j) % nd)
        v = h1 / (1 + (i - i1) ** 2 + d1 ** 2) + h2 / (1 + (i - i2) ** 2 + d2 ** 2) + 0.001 * k
        out.append(v)
        k += 1
    out.append(np.zeros((nf, nd)))                                        # zero energy
    out.append(np.full((nf, nd), 1.5))                                    # constant
    out.append(np.tile((1.0 + np.arange(nf))[:, None], (1, nd)) * 0.5)    # monotone in frequency: no interior peak
    v = np.zeros((nf, nd))
    v[2, 3] = 9.0
    out.append(v)                                                         # single bin
    out.append(out[0] * 1e-9)                                             # millimetre-calm spectrum next to storms
    out.append(out[5] * 1e5)                                              # and an enormous one
    arr = np.array(out)
    assert len({a.tobytes() for a in arr}) == len(arr) == NSPEC
    return arr


def layouts(tier):
    names = ["time", "site", "lat", "lon", "part"]
    out = [()]
    for n in (1, 2, 3):
        for combo in itertools.permutations(names, n):
            if "lat" in combo and "lon" in combo or n < 3 or True:
                out.append(combo)
    # sizes: rotate through {1,2,3}
    res = []
    for k, dims in enumerate(out):
        sizes = tuple([(2, 3, 1), (3, 1, 2), (1, 2, 3), (2, 2, 3)][k % 4][: len(dims)])
        res.append((dims, sizes))
    if tier == "quick":
        # all 0-, 1- and 2-dim layouts in every order (26) + a spread of 3-dim ones
        small = [r for r in res if len(r[0]) <= 2]
        big = [r for r in res if len(r[0]) == 3][::4]
        return small + big
    return res


def build(dims, sizes, idx, wind=True, order=None):
    """Dataset with non-spectral dims `dims`; idx: array of menu indices with shape sizes. Spectral dims last unless order given."""
    import xarray as xr

    M = menu()
    data = M[idx.reshape(-1)].reshape(tuple(sizes) + M.shape[1:])
    coords = {"freq": FREQ.copy(), "dir": DIRS.copy()}
    for d, n in zip(dims, sizes):
        if d == "time":
            coords[d] = (np.datetime64("2020-05-01") + np.arange(n) * np.timedelta64(3, "h")).astype("datetime64[ns]")
        elif d in ("lat", "lon"):
            coords[d] = 10.0 + np.arange(n) * 0.5
        else:
            coords[d] = np.arange(n)
    da = xr.DataArray(data, dims=list(dims) + ["freq", "dir"], coords=coords, name="efth")
    aux = {}
    pc = {d: coords[d] for d in dims}
    flat = np.arange(int(np.prod(sizes)) if sizes else 1, dtype=float)
    if wind == "shared":
        # positions share wind speed/direction (pairwise) but differ in depth, or share depth but differ in wind
        aux["wspd"] = xr.DataArray((12.0 + 6.0 * (flat // 2 % 2)).reshape(sizes), dims=list(dims), coords=pc)
        aux["wdir"] = xr.DataArray((40.0 + 0.0 * flat).reshape(sizes), dims=list(dims), coords=pc)
        aux["dpt"] = xr.DataArray(np.array([4.0, 4000.0, 9.0, 9.0, 300.0, 4.0])[(flat.astype(int)) % 6].reshape(sizes), dims=list(dims), coords=pc)
    else:
        aux["wspd"] = xr.DataArray((4.0 + 3.7 * flat).reshape(sizes), dims=list(dims), coords=pc)
        aux["wdir"] = xr.DataArray(((37.0 * flat) % 360).reshape(sizes), dims=list(dims), coords=pc)
        aux["dpt"] = xr.DataArray(np.where(flat.astype(int) % 3 == 1, 2500.0 + 100.0 * flat, 8.0 + 11.0 * flat).reshape(sizes), dims=list(dims), coords=pc)
    return da, aux


def ops_table():
    ops = c05.operations(DIRS)
    ops = {k: v for k, v in ops.items() if k != "hmax"}
    # depth-dependent statistics with the per-position depth field (not a scalar)
    ops["mss(depth=field)"] = (lambda da, aux: da.spec.mss(depth=aux["dpt"]), "stat")
    ops["uss(depth=field)"] = (lambda da, aux: da.spec.uss(depth=aux["dpt"]), "stat")
    ops["celerity(depth=field)"] = (lambda da, aux: da.spec.celerity(depth=aux["dpt"]), "stat")
    ops["wavelen(depth=field)"] = (lambda da, aux: da.spec.wavelen(depth=aux["dpt"]), "stat")
    return ops


def sel_pos(canon_res, dims, pos):
    """extract one position from a canonical result: dict name -> (dims, values, coords)"""
    out = {}
    for k, (rd, v, co) in canon_res.items():
        index = tuple(pos[dims.index(d)] if d in dims else slice(None) for d in rd)
        nd = tuple(d for d in rd if d not in dims)
        out[k] = (nd, v[index], {d: c for d, c in co.items() if d not in dims})
    return out


def run_layout(it):
    common.load_wavespectra()
    dims, sizes = it["dims"], it["sizes"]
    ops = ops_table()
    npos = int(np.prod(sizes)) if sizes else 1
    rng_idx = (np.arange(npos) * 7 + it["k"] * 3) % NSPEC
    idx = rng_idx.reshape(sizes) if sizes else rng_idx.reshape(())
    da, aux = build(dims, sizes, idx)
    res = {"evals": 0, "n_nontrivial": 0, "violations": [], "samples": [], "outcomes": {}, "parts": {}}
    positions = list(itertools.product(*[range(n) for n in sizes])) if sizes else [()]
    # replaced-position variant: position p0 gets another menu spectrum
    p0 = positions[len(positions) // 2]
    idx2 = idx.copy()
    if sizes:
        idx2[p0] = (idx[p0] + 11) % NSPEC
    else:
        idx2 = np.array((int(idx) + 11) % NSPEC)
    da2, aux2 = build(dims, sizes, idx2)
    seen = set()
    for name, (fn, kind) in ops.items():
        if "part" in dims and (name.startswith("ptm") or name.startswith("bbox")):
            continue  # partitioning an already partitioned dataset: the output dimension would collide (out of domain)
        full = c05.run_op(fn, da, aux)
        res["evals"] += 1
        if isinstance(full, Exception):
            sig = "%s|raises-%s-on-batch|ndims=%d" % (name, type(full).__name__, len(dims))
            if sig not in seen:
                seen.add(sig)
                res["violations"].append(Violation(PROP, sig, "%s raised on layout %s%s: %s" % (name, dims, sizes, str(full)[:200]), dict(kind="layout", dims=list(dims), sizes=list(sizes), k=it["k"], op=name)))
            continue
        for p in positions:
            sub = da.isel({d: i for d, i in zip(dims, p)})
            auxs = {k: v.isel({d: i for d, i in zip(dims, p)}) for k, v in aux.items()}
            single = c05.run_op(fn, sub, auxs)
            res["evals"] += 1
            if isinstance(single, Exception):
                msg = "single spectrum raised %r while the batch did not" % single
            else:
                try:
                    msg = c05.compare(sel_pos(full, list(dims), p), single, F32_DERIVED.get(name, 1e-10))
                except Exception as e:  # noqa
                    msg = "cannot align batch and single results: %r" % e
            if msg:
                sig = "%s|batch-position-equals-single-spectrum|%s" % (name, "dims=" + "+".join(dims) if dims else "no-leading-dims")
                if sig not in seen:
                    seen.add(sig)
                    res["violations"].append(Violation(PROP, sig, "%s on layout %s%s position %s: %s" % (name, dims, sizes, p, msg),
                                                       dict(kind="layout", dims=list(dims), sizes=list(sizes), k=it["k"], op=name)))
        if len(positions) > 1:
            full2 = c05.run_op(fn, da2, aux2)
            res["evals"] += 1
            bad = None
            if isinstance(full2, Exception):
                bad = "raised after one spectrum was replaced: %r" % full2
            else:
                for p in positions:
                    if p == p0:
                        continue
                    a, b = sel_pos(full, list(dims), p), sel_pos(full2, list(dims), p)
                    for k in a:
                        if not np.array_equal(a[k][1], b[k][1], equal_nan=True):
                            bad = "position %s changed when the spectrum at %s was replaced (%s)" % (p, p0, k)
                            break
                    if bad:
                        break
            if bad:
                sig = "%s|other-positions-unchanged|%s" % (name, "dims=" + "+".join(dims))
                if sig not in seen:
                    seen.add(sig)
                    res["violations"].append(Violation(PROP, sig, "%s on layout %s%s: %s" % (name, dims, sizes, bad), dict(kind="layout", dims=list(dims), sizes=list(sizes), k=it["k"], op=name)))
    # the same batch stored with a non-spectral dimension AFTER freq (e.g. (freq, time, dir)): results must not change
    if dims and len(dims) <= 2 and "part" not in dims:
        order_t = list(dims[:-1]) + ["freq", dims[-1], "dir"]
        da_t = da.transpose(*order_t).copy()
        for name, (fn, kind) in ops.items():
            full = c05.run_op(fn, da, aux)
            full_t = c05.run_op(fn, da_t, aux)
            res["evals"] += 2
            if isinstance(full, Exception) and isinstance(full_t, Exception):
                continue
            msg = c05.compare(full_t, full, F32_DERIVED.get(name, 1e-10))
            if msg:
                sig = "%s|same-result-with-a-non-spectral-dimension-stored-after-freq|%s" % (name, "dims=" + "+".join(dims))
                if sig not in seen:
                    seen.add(sig)
                    res["violations"].append(Violation(PROP, sig, "%s on layout %s stored as %s: %s" % (name, dims, order_t, msg),
                                                       dict(kind="layout", dims=list(dims), sizes=list(sizes), k=it["k"], op=name)))
    # wind-dependent partitions again with wind/depth fields in which positions share some of the values
    if npos > 1 and "part" not in dims:
        das, auxs_all = build(dims, sizes, idx, wind="shared")
        for name in ("ptm1", "ptm2", "ptm4", "mss(depth=field)", "celerity(depth=field)"):
            fn = ops[name][0]
            full = c05.run_op(fn, das, auxs_all)
            res["evals"] += 1
            for p in positions:
                sub = das.isel({d: i for d, i in zip(dims, p)})
                auxp = {k: v.isel({d: i for d, i in zip(dims, p)}) for k, v in auxs_all.items()}
                single = c05.run_op(fn, sub, auxp)
                res["evals"] += 1
                if isinstance(full, Exception) or isinstance(single, Exception):
                    msg = None if (isinstance(full, Exception) and isinstance(single, Exception)) else "raise mismatch: batch %r single %r" % (full, single)
                else:
                    msg = c05.compare(sel_pos(full, list(dims), p), single, 1e-10)
                if msg:
                    sig = "%s|batch-position-equals-single-spectrum|positions-share-wind-or-depth" % name
                    if sig not in seen:
                        seen.add(sig)
                        res["violations"].append(Violation(PROP, sig, "%s on layout %s%s position %s with shared wind values: %s" % (name, dims, sizes, p, msg),
                                                           dict(kind="layout", dims=list(dims), sizes=list(sizes), k=it["k"], op=name)))
    res["n_nontrivial"] = len(ops) * (npos if npos > 1 else 0)
    res["parts"]["layouts"] = res["evals"]
    res["samples"].append(dict(layout=list(dims), sizes=list(sizes), menu_indices=np.asarray(idx).tolist()))
    return res


def run_pairs(it):
    """all ordered pairs (a, b) of menu spectra on a 2-position layout"""
    common.load_wavespectra()
    ops = ops_table()
    names = it["ops"]
    dim = it["dim"]
    res = {"evals": 0, "n_nontrivial": 0, "violations": [], "samples": [], "outcomes": {}, "parts": {}}
    singles = {}
    seen = set()
    # wind per position is fixed by position index, so singles are keyed by (spectrum, position)
    for a in it["rows"]:
        for b in range(NSPEC):
            idx = np.array([a, b])
            da, aux = build((dim,), (2,), idx)
            for name in names:
                fn = ops[name][0]
                full = c05.run_op(fn, da, aux)
                res["evals"] += 1
                for p, s in ((0, a), (1, b)):
                    key = (name, s, p)
                    if key not in singles:
                        sub = da.isel({dim: p})
                        auxs = {k: v.isel({dim: p}) for k, v in aux.items()}
                        singles[key] = c05.run_op(fn, sub, auxs)
                        res["evals"] += 1
                    single = singles[key]
                    if isinstance(full, Exception) or isinstance(single, Exception):
                        msg = None if (isinstance(full, Exception) and isinstance(single, Exception)) else "raise mismatch: batch %r single %r" % (full, single)
                        if isinstance(full, Exception) and not isinstance(single, Exception):
                            # the other spectrum may be the one that raises
                            other = singles.get((name, b if p == 0 else a, 1 - p))
                            if isinstance(other, Exception) or other is None:
                                msg = None
                    else:
                        msg = c05.compare(sel_pos(full, [dim], (p,)), single, F32_DERIVED.get(name, 1e-10))
                    if msg:
                        sig = "%s|batch-position-equals-single-spectrum|pair-on-%s" % (name, dim)
                        if sig not in seen:
                            seen.add(sig)
                            res["violations"].append(Violation(PROP, sig, "%s with spectra (%d,%d) on %s=2, position %d: %s" % (name, a, b, dim, p, msg),
                                                               dict(kind="pair", dim=dim, a=int(a), b=int(b), op=name)))
            res["n_nontrivial"] += 1
    res["parts"]["ordered-pairs"] = res["evals"]
    return res


def run_dsacc(it):
    """Dataset accessor == efth accessor for every re-exported method"""
    common.load_wavespectra()
    ops = ops_table()
    idx = (np.arange(6) * 5) % NSPEC
    da, aux = build(("time", "site"), (3, 2), idx.reshape(3, 2))
    ds = da.to_dataset()
    ds["wspd"], ds["wdir"], ds["dpt"] = aux["wspd"], aux["wdir"], aux["dpt"]
    res = {"evals": 0, "n_nontrivial": 0, "violations": [], "samples": [], "outcomes": {}, "parts": {}}

    class Wrap:  # lets the c05 lambdas (which use da.spec...) run on the Dataset accessor
        def __init__(self, ds):
            self.spec = ds.spec

    for name, (fn, kind) in ops.items():
        a = c05.run_op(fn, da, aux)
        b = c05.run_op(fn, Wrap(ds), aux)
        res["evals"] += 2
        res["n_nontrivial"] += 1
        msg = c05.compare(b, a, 1e-12)
        if msg:
            res["violations"].append(Violation(PROP, "%s|dataset-accessor-equals-efth-accessor|" % name, "%s: %s" % (name, msg), dict(kind="dsacc", op=name)))
    res["parts"]["dataset-vs-efth"] = res["evals"]
    return res


MISSING_OPS = None  # every operation of the table except the partition methods (the watershed has no notion of a missing bin)


def run_missing(it):
    """Datasets with missing values: a land point (all-NaN spectrum) stored FIRST and a spectrum with one masked interior bin. Every
    position of the batch result must equal the result on that spectrum alone, and masking must not leak to other positions."""
    common.load_wavespectra()
    dims, sizes = tuple(it["dims"]), tuple(it["sizes"])
    ops = ops_table()
    npos = int(np.prod(sizes))
    idx = ((np.arange(npos) * 7 + it["k"] * 3) % (NSPEC - 6)).reshape(sizes)  # two-bump spectra only
    da, aux = build(dims, sizes, idx)
    positions = list(itertools.product(*[range(n) for n in sizes]))
    vals = da.values.copy()
    vals[positions[0]] = np.nan
    hole = positions[-1]
    vals[hole + (2, 3)] = np.nan
    da = da.copy(data=vals)
    res = {"evals": 0, "n_nontrivial": 0, "violations": [], "samples": [], "outcomes": {}, "parts": {}}
    for name, (fn, kind) in ops.items():
        if it.get("op") and name != it["op"]:
            continue
        if name.startswith(("ptm", "bbox", "hp01")) or "partition" in name:
            continue
        full = c05.run_op(fn, da, aux)
        res["evals"] += 1
        if isinstance(full, Exception):
            res["outcomes"]["missing:%s:raises" % name] = 1
            continue  # operations that refuse missing values are out of scope here; C20 owns raising
        for p in positions:
            sub = da.isel({d: i for d, i in zip(dims, p)})
            auxs = {k: v.isel({d: i for d, i in zip(dims, p)}) for k, v in aux.items()}
            single = c05.run_op(fn, sub, auxs)
            res["evals"] += 1
            res["n_nontrivial"] += 1
            if isinstance(single, Exception):
                continue
            try:
                msg = c05.compare(sel_pos(full, list(dims), p), single, F32_DERIVED.get(name, 1e-10))
            except Exception as e:  # noqa
                msg = "cannot align batch and single results: %r" % e
            if msg:
                what = "land-point" if p == positions[0] else ("masked-bin" if p == hole else "complete-spectrum")
                res["violations"].append(Violation(PROP, "%s|batch-position-equals-single-spectrum|missing-values,%s" % (name, what),
                                                   "%s on layout %s%s with a land point stored first and a masked bin at the last position; position %s: %s" % (name, dims, sizes, p, msg),
                                                   dict(kind="missing", dims=list(dims), sizes=list(sizes), k=it["k"], op=name)))
                break
    res["parts"]["missing-values"] = res["evals"]
    return res


# ---------------------------------------------------------------------------------------------
# parametric fits (iterative optimisers): a spectrum's fit must not depend on what else is in the batch
# ---------------------------------------------------------------------------------------------
FIT_FREQ = np.arange(0.04, 0.42, 0.015)
FIT_NAMES = ["jon_10", "jon_5", "gauss_swell", "narrow", "bimodal", "zero", "mono", "impulse", "flat", "bimodal2", "young"]
# peak/tail statistics on the same 26-frequency menu: the (1.35 fp, 2 fp) tail window holds 5-9 bins for the swells, none for the
# young sea peaking at 0.355 Hz, and the spectra called mono, zero and flat have no peak at all
TAIL_OPS = ["alpha", "gamma", "tp", "fp"]


def fit_menu():
    """1-D spectra on 26 frequencies: shapes the optimisers fit, shapes they cannot fit (NaN alone), and shapes in between."""
    f = FIT_FREQ

    def jon(hs, tp, gamma):
        fp = 1.0 / tp
        sig = np.where(f <= fp, 0.07, 0.09)
        s = f ** -5.0 * np.exp(-1.25 * (f / fp) ** -4.0) * gamma ** np.exp(-((f - fp) ** 2) / (2 * sig ** 2 * fp ** 2))
        return s * (hs / 4.0) ** 2 / np.sum(s * np.gradient(f))

    def gau(hs, tp, gw):
        s = np.exp(-((f - 1.0 / tp) ** 2) / (2 * gw ** 2))
        return s * (hs / 4.0) ** 2 / max(np.sum(s * np.gradient(f)), 1e-300)

    imp = np.zeros(f.size)
    imp[7] = 5.0
    m = [jon(2, 10, 3.3), jon(1.5, 5, 2.0), gau(1.0, 14, 0.01), gau(2.0, 16.6, 0.002), gau(2.0, 16.6, 0.008) + jon(1.8, 4.5, 3.3),
         np.zeros(f.size), np.linspace(0.1, 2, f.size), imp, np.full(f.size, 0.7), jon(3, 12, 5) + jon(2.5, 3.5, 1.5), jon(0.8, 1.0 / 0.355, 3.3)]
    return np.array(m)


def fit_build(idx, dim, directional):
    import xarray as xr

    M = fit_menu()[np.asarray(idx)]
    n = len(idx)
    co = {dim: (np.datetime64("2020-05-01") + np.arange(n) * np.timedelta64(3, "h")).astype("datetime64[ns]") if dim == "time" else np.arange(n), "freq": FIT_FREQ.copy()}
    if directional:
        d = np.arange(4) * 90.0
        w = np.array([0.5, 0.25, 0.0, 0.25]) / 90.0
        return xr.DataArray(M[:, :, None] * w[None, None, :], dims=[dim, "freq", "dir"], coords=dict(co, dir=d), name="efth")
    return xr.DataArray(M, dims=[dim, "freq"], coords=co, name="efth")


def fit_call(da, which):
    import warnings
    with warnings.catch_warnings():
        warnings.simplefilter("ignore")
        try:
            if which in TAIL_OPS:
                return {which: np.asarray(getattr(da.spec, which)().values, dtype=np.float64)}
            ds = getattr(da.spec, which)(spectra=False)
            return {k: np.asarray(ds[k].values, dtype=np.float64) for k in ds.data_vars}
        except Exception as e:  # noqa
            return e


def run_fits(it):
    """Every ordered pair (a, b) of the fit menu as a 2-position batch, and (a, unfittable, b) as a 3-position batch: each position of the
    batch fit must equal the fit of that spectrum alone (NaN where the lone fit is NaN)."""
    common.load_wavespectra()
    res = {"evals": 0, "n_nontrivial": 0, "violations": [], "samples": [], "outcomes": {}, "parts": {}}
    dim, directional = it["dim"], bool(it["directional"])
    n = len(FIT_NAMES)
    seen = set()
    for which in it["fits"]:
        single = {}
        for s in range(n):
            single[s] = fit_call(fit_build([s], dim, directional), which)
            res["evals"] += 1
            r = single[s]
            k = "%s:alone:%s" % (which, "raises" if isinstance(r, Exception) else ("nan" if all(np.isnan(v).all() for v in r.values()) else "finite"))
            res["outcomes"][k] = res["outcomes"].get(k, 0) + 1
        a = it["a"]
        batches = [[a, b] for b in range(n)] + [[a, 3, b] for b in range(n) if it.get("triples")]
        for idx in batches:
            if it.get("only") and list(it["only"]) != idx:
                continue
            full = fit_call(fit_build(idx, dim, directional), which)
            res["evals"] += 1
            res["n_nontrivial"] += 1
            for p, sp in enumerate(idx):
                one = single[sp]
                if isinstance(full, Exception) or isinstance(one, Exception):
                    bad = isinstance(one, Exception) != isinstance(full, Exception) and not any(isinstance(single[q], Exception) for q in idx)
                    msg = "batch %r, alone %r" % (full, one) if bad else None
                else:
                    msg = None
                    for k in one:
                        x, y = full[k].ravel()[p], one[k].ravel()[0]
                        tol = 2e-6 if which in TAIL_OPS else 1e-7
                        if not ((np.isnan(x) and np.isnan(y)) or (np.isfinite(x) and np.isfinite(y) and abs(x - y) <= tol * max(1.0, abs(y)))):
                            msg = "%s of '%s' is %r in the batch, %r alone" % (k, FIT_NAMES[sp], float(x), float(y))
                            break
                if msg:
                    sig = "%s|batch-position-equals-single-spectrum|%s" % (which, "after-other-spectra" if p > 0 else "before-other-spectra")
                    if sig not in seen:
                        seen.add(sig)
                        res["violations"].append(Violation(PROP, sig, "%s on batch %s (dim %s, %s), position %d: %s" % (
                            which, [FIT_NAMES[q] for q in idx], dim, "2-D" if directional else "1-D", p, msg),
                            dict(kind="fits", a=int(a), only=[int(q) for q in idx], dim=dim, directional=directional, fits=[which])))
    res["parts"]["fits"] = res["evals"]
    return res


def replay(case):
    common.load_wavespectra()
    if case["kind"] == "fits":
        return run_fits(dict(a=int(case["a"]), only=case["only"], dim=case["dim"], directional=case["directional"], fits=case["fits"], triples=True))["violations"]
    if case["kind"] == "missing":
        return run_missing(dict(dims=case["dims"], sizes=[int(x) for x in case["sizes"]], k=int(case["k"]), op=case["op"]))["violations"]
    if case["kind"] == "layout":
        r = run_layout(dict(dims=tuple(case["dims"]), sizes=tuple(int(x) for x in case["sizes"]), k=int(case["k"])))
        return [v for v in r["violations"] if v.case.get("op") == case["op"]]
    if case["kind"] == "pair":
        r = run_pairs(dict(dim=case["dim"], rows=[int(case["a"])], ops=[case["op"]]))
        return r["violations"]
    r = run_dsacc({})
    return [v for v in r["violations"] if v.case.get("op") == case["op"]]


def run(rep, tier, seed, parts=None):
    common.load_wavespectra()
    ops = ops_table()
    rep.rule = ("every layout of 0-3 non-spectral dimensions drawn from {time, site, lat, lon, part} in every order (quick: all 0/1/2-dim "
                "layouts and every 4th 3-dim one; thorough: all 86) with sizes in {1,2,3}, positions filled from a menu of 30 pairwise "
                "distinct spectra (incl. zero, constant, peak-less, single-bin) with per-position wind and depth (all distinct, and a second field in which positions share wind speed/direction or depth); %d operations (all public "
                "methods except hmax); for every position the batch result must equal the result on the extracted single spectrum (also with a non-spectral dimension stored after freq for the 1- and 2-dimension layouts), and "
                "replacing one spectrum must leave every other position bitwise unchanged; all 900 ordered pairs of menu spectra on a "
                "2-position layout (quick: 12 operations, thorough: all); Dataset accessor vs efth accessor for every operation; 4 layouts with missing values (an all-NaN land point stored first, one masked interior bin) for every operation except the watershed methods; fit_jonswap / fit_gaussian on every ordered pair of a 10-spectrum menu (fittable, unfittable = NaN alone, bimodal) "
                "as 2-position batches and (a, unfittable, b) 3-position batches, 1-D and directional: every position equals the lone fit; alpha / gamma / tp / fp on the same batches with an 11th spectrum (a young sea whose tail window holds no frequency). "
                "Non-trivial = (operation, position) in a layout with more than one position / each ordered pair." % len(ops))
    rep.assumptions = ["partition methods are not applied to layouts that already have a 'part' dimension (their output dimension would collide)",
                       "gamma / alpha / fp are float64 values computed from float32 peak frequencies; numpy evaluates float32 powers of arrays and of single elements with different code paths, so they are compared at 2e-6 instead of 1e-10",
                       "hmax is excluded as the statement says; ptm1_track is excluded because tracking is by definition a function of the whole time axis"]
    items = []
    if parts is None or "layouts" in parts:
        for k, (dims, sizes) in enumerate(layouts(tier)):
            items.append(dict(kind="layout", dims=dims, sizes=sizes, k=k + seed))
    if parts is None or "pairs" in parts:
        names = QUICK_PAIR_OPS if tier == "quick" else list(ops)
        dim = ["site", "time", "lat"][seed % 3]
        for a in range(NSPEC):
            items.append(dict(kind="pairs", dim=dim, rows=[a], ops=names))
    if parts is None or "dsacc" in parts:
        items.append(dict(kind="dsacc"))
    if parts is None or "missing" in parts:
        for k, (dims, sizes) in enumerate([(("site",), (3,)), (("time", "site"), (2, 3)), (("lat", "lon"), (2, 2)), (("site", "time"), (3, 2))]):
            items.append(dict(kind="missing", dims=dims, sizes=sizes, k=k + seed))

    if parts is None or "fits" in parts:
        for a in range(len(FIT_NAMES)):
            for which in ("fit_jonswap", "fit_gaussian"):
                items.append(dict(kind="fits", a=a, dim=["time", "site"][(a + seed) % 2], directional=(a + seed) % 3 == 0, fits=[which],
                                  triples=(tier == "thorough" or a in (0, 3))))
            items.append(dict(kind="fits", a=a, dim=["time", "site"][(a + seed) % 2], directional=(a + seed) % 3 != 0, fits=list(TAIL_OPS), triples=True))

    def dispatch(it):
        return {"layout": run_layout, "pairs": run_pairs, "dsacc": run_dsacc, "missing": run_missing, "fits": run_fits}[it["kind"]](it)

    for res in common.pmap(dispatch, items):
        rep.merge(res)
    rep.extra["operations"] = list(ops)
    rep.extra["layouts"] = len([i for i in items if i["kind"] == "layout"])
