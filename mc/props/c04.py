"""C04 - one connected basin per regional maximum on the circular grid (E5 C driver + python wrapper level)."""
from __future__ import annotations

import numpy as np

from mc import common, gen, wsref
from mc.common import Violation
from mc.cdrv import run as drv

PROP = "C04"
LEVEL = "exploration"
IHMAX = [1, 2, 3, 4, 5, 10, 100, 1000]


def jobs(tier, seed):
    a3 = gen.alphabet(seed, 3)
    a4 = gen.alphabet(seed, 4)
    a2 = (a3[0], a3[2])
    out = []

    def add(fam, alpha, shapes, ihmax=IHMAX, nshard=1, name=None, shifts=True):
        for i in range(nshard):
            out.append(dict(family=fam, alpha=list(alpha), shapes=shapes, ihmax=ihmax, shifts=shifts, shard=(i, nshard), name=name or fam))

    small = drv.all_shapes(9)
    add("product", a3, small, nshard=4, name="product3<=9cells")
    if tier == "quick":
        add("product", a3, drv.all_shapes(11, 10), nshard=16, name="product3<=11cells")
        for s in drv.all_shapes(12, 12):
            add("product", a3, [s], nshard=8, name="product3=12cells")
        add("product", a2, drv.all_shapes(14, 10), nshard=8, name="product2<=14cells")
        add("product", a4, drv.all_shapes(6), name="product4<=6cells")
        # four levels on 12 cells (a saddle bin between two basins with a lower bin hanging off it needs >= 3x4 and 4 levels)
        add("product", a4, [(3, 4), (4, 3), (2, 6), (6, 2)], ihmax=[100], nshard=16, name="product4=12cells", shifts=False)
        big = [(4, 6), (5, 8), (8, 8), (6, 3), (3, 7)]
        add("impulse2", a3, big, ihmax=[2, 3, 5, 100], nshard=2)
        add("bump3", a4, [(4, 6), (3, 5)], ihmax=[2, 3, 5, 100], nshard=4)
    else:
        add("product", a3, drv.all_shapes(11, 10), nshard=16, name="product3<=11cells")
        for s in drv.all_shapes(12, 12):
            add("product", a3, [s], nshard=16, name="product3=12cells")
        for s in [(2, 7), (7, 2), (1, 14), (14, 1), (1, 13), (13, 1)]:
            add("product", a3, [s], nshard=32, name="product3=13-14cells")
        add("product", a2, drv.all_shapes(18, 10), nshard=32, name="product2<=18cells")
        add("product", a4, drv.all_shapes(10), nshard=32, name="product4<=10cells")
        add("product", a4, drv.all_shapes(12, 12), ihmax=[3, 5, 100], nshard=64, name="product4=12cells")
        big = [(4, 6), (5, 8), (8, 8), (6, 3), (3, 7), (7, 5), (2, 16), (16, 2)]
        add("impulse2", a3, big, ihmax=[2, 3, 5, 10, 100], nshard=8)
        add("bump3", a4, [(4, 6), (3, 5), (5, 8), (6, 6)], ihmax=[2, 3, 5, 100], nshard=16)
    add("misc", a3, drv.all_shapes(64, 1, 8), ihmax=IHMAX, name="misc<=8x8")
    # values whose whole range is below 1e-9 (a varying, non-constant spectrum)
    tiny = tuple(v * 1e-10 for v in (0.0, 1.0, 3.0))
    add("product", tiny, drv.all_shapes(6, 2), ihmax=[2, 5, 100], name="tiny-range")
    return out


def to_violation(v, job):
    nk, nth = v["nk"], v["nth"]
    clause = v["what"]
    pred = "shape-%s" % ("1xN" if nk == 1 else "Nx1" if nth == 1 else "NxM")
    if ":" in clause:
        pred = ""
    sig = "specpart.partition|%s|%s" % (clause, pred)
    case = dict(level="c", nk=nk, nth=nth, ihmax=v["ihmax"], shift=v.get("shift", 0), z=v["z"])
    return Violation(PROP, sig, "%s on %dx%d grid ihmax=%d shift=%d z=%s" % (clause, nk, nth, v["ihmax"], v.get("shift", 0), v["z"]), case)


def run_job(job):
    r = drv.run_driver(job)
    res = {"evals": 0, "n_nontrivial": 0, "violations": [], "samples": [], "outcomes": {}, "parts": {}}
    st = r["stats"]
    if st is None or r["rc"] not in (0, 1):
        d = r["death"][0] if r["death"] else None
        case = dict(level="c", nk=d["nk"], nth=d["nth"], ihmax=d["ihmax"], z=d["z"], shift=d.get("shift", 0)) if d else dict(level="c", job=r["job"])
        res["violations"].append(Violation(PROP, "specpart.partition|driver-died|", "driver exited rc=%s: %s" % (r["rc"], r["stderr"][-800:]), case))
        return res
    res["evals"] = st["calls"]
    res["n_nontrivial"] = st["checked_nontrivial"]
    res["parts"][job["name"]] = st["calls"]
    res["parts"]["ties_skipped"] = st["ties_skipped"]
    res["parts"]["shift_comparisons"] = st["shiftcmp"]
    for i, h in enumerate(st["hist"]):
        if h:
            res["outcomes"]["basins=%d" % i] = h
    for v in r["viol"]:
        res["violations"].append(to_violation(v, job))
    for s in r["samples"][:1]:
        res["samples"].append(dict(engine="cdrv", family=job["family"], nk=s["nk"], nth=s["nth"], ihmax=s["ihmax"], z=s["z"]))
    return res


# ---- python wrapper level: transposition / Fortran-ordered output are inside the loop -------------------------
def py_item(item):
    common.load_wavespectra()
    from wavespectra.partition import specpart
    from wavespectra.partition.partition import np_ptm3

    nf, nd, alpha, ihs = item["nf"], item["nd"], item["alpha"], item["ihmax"]
    E = gen.product_array(nf * nd, alpha).reshape(-1, nf, nd)
    res = {"evals": 0, "n_nontrivial": 0, "violations": [], "samples": [], "outcomes": {}, "parts": {}}
    seen = set()
    freq = 0.05 * 1.1 ** np.arange(nf)
    dirs = np.arange(nd) * (360.0 / nd)
    for b in range(E.shape[0]):
        z = E[b]
        z32 = z.astype(np.float32)
        for ih in ihs:
            lab = specpart.partition(z32, ih)
            res["evals"] += 1
            clause = None
            if lab.shape != z.shape:
                clause = "shape"
            else:
                clause = wsref.check_labels(z.tolist(), ih, lab.tolist())
            if clause and clause.startswith("skip"):
                continue
            nb = int(lab.max())
            if nb >= 2:
                res["n_nontrivial"] += 1
            if clause is None and nd > 1:
                # circular shifts along dir (axis 1) keep the set partition
                for s in range(1, nd):
                    lab2 = specpart.partition(np.ascontiguousarray(np.roll(z32, s, axis=1)), ih)
                    res["evals"] += 1
                    if not wsref.same_partition(np.roll(lab, s, axis=1).ravel().tolist(), lab2.ravel().tolist()):
                        clause = "shift-changes-partition"
                        break
            if clause is None:
                # the wrapper must give the same labels whatever the memory layout of the float32 input
                big = np.full((nf, nd * 2), -7.0, dtype=np.float32)
                big[:, ::2] = z32
                for lname, arr in (("fortran", np.asfortranarray(z32)), ("strided", big[:, ::2]), ("negstride", np.ascontiguousarray(z32[::-1])[::-1])):
                    try:
                        labl = specpart.partition(arr, ih)
                    except Exception as e:  # noqa
                        labl = None
                    res["evals"] += 1
                    if labl is None or not np.array_equal(labl, lab):
                        clause = "layout-dependent:" + lname
                        break
            if clause is None and ih == ihs[-1] and nb >= 1:
                # np_ptm3(parts=None) returns one partition per basin, together the input
                parts = np_ptm3(z, z, freq, dirs, parts=None, ihmax=ih)
                res["evals"] += 1
                if parts.shape[0] != nb or not np.array_equal(parts.sum(axis=0), z):
                    clause = "np_ptm3(parts=None)-count-or-sum"
            if clause and clause not in seen:
                seen.add(clause)
                case = dict(level="py", z=z.tolist(), ihmax=ih)
                res["violations"].append(Violation(PROP, "py.specpart.partition|%s|" % clause,
                                                   "%s for z=%s ihmax=%d labels=%s" % (clause, z.tolist(), ih, lab.tolist()), case))
    res["parts"]["python-wrapper"] = res["evals"]
    res["samples"].append(dict(engine="python", nf=nf, nd=nd, ihmax=ihs, z=E[E.shape[0] // 3].tolist()))
    return res


def replay(case):
    if case.get("level") == "py":
        common.load_wavespectra()
        from wavespectra.partition import specpart
        z = np.array(case["z"], dtype=float)
        lab = specpart.partition(z.astype(np.float32), int(case["ihmax"]))
        clause = wsref.check_labels(z.tolist(), int(case["ihmax"]), lab.tolist())
        if clause is None and z.shape[1] > 1:
            for s in range(1, z.shape[1]):
                lab2 = specpart.partition(np.ascontiguousarray(np.roll(z.astype(np.float32), s, axis=1)), int(case["ihmax"]))
                if not wsref.same_partition(np.roll(lab, s, axis=1).ravel().tolist(), lab2.ravel().tolist()):
                    clause = "shift-changes-partition"
        if clause and not clause.startswith("skip"):
            return [Violation(PROP, "py.specpart.partition|%s|" % clause, "%s labels=%s" % (clause, lab.tolist()), case)]
        return []
    # C level: run the single case through the driver by using a 1-symbol-per-cell alphabet trick: call python ext instead
    # (same C source, rebuilt), with the driver's orientation (z is [k*nth+t])
    common.load_wavespectra()
    from wavespectra.partition import specpart
    nk, nth = int(case["nk"]), int(case["nth"])
    z = np.array(case["z"], dtype=np.float32).reshape(nk, nth)
    lab = specpart.partition(z, int(case["ihmax"]))
    clause = wsref.check_labels(z.astype(float).tolist(), int(case["ihmax"]), lab.tolist())
    out = []
    if clause and not clause.startswith("skip"):
        out.append(Violation(PROP, "specpart.partition|%s|" % clause, "%s labels=%s" % (clause, lab.tolist()), case))
    elif nth > 1:
        for s in range(1, nth):
            lab2 = specpart.partition(np.ascontiguousarray(np.roll(z, s, axis=1)), int(case["ihmax"]))
            if not wsref.same_partition(np.roll(lab, s, axis=1).ravel().tolist(), lab2.ravel().tolist()):
                out.append(Violation(PROP, "specpart.partition|shift-changes-partition|", "shift %d changes partition" % s, case))
                break
    return out


def run(rep, tier, seed, parts=None):
    common.load_wavespectra()
    common.build_cdriver(False)
    rep.rule = ("C driver: every assignment of a 2/3/4-value alphabet to every cell of every grid shape up to the stated cell bound "
                "(full product), complete impulse/impulse-pair/3-bump/misc families on shapes up to 8x8, x 8 level counts x every "
                "circular shift of the direction axis, each label map checked by an independent flood-fill oracle; the same product "
                "through the python extension wrapper for <=8 cells. Non-trivial = (spectrum, ihmax) with >= 2 regional maxima; "
                "constant spectra and spectra with a value exactly on a level-rounding boundary are excluded (counted).")
    rep.assumptions = [
        "discretisation ties (value exactly half-way between two levels) are don't-care and skipped",
        "the C driver links the repo's specpart.c directly; the python-level part covers specpart_wrap.c",
    ]
    rep.extra["alphabet"] = list(gen.alphabet(seed, 4))
    # vacuity guard: alphabet values on a level-rounding boundary turn whole products into don't-care ties
    ties = gen.level_ties(gen.alphabet(seed, 4), IHMAX)
    rep.extra["alphabet_level_ties(lo,mid,hi,ihmax)"] = [list(t) for t in ties]
    if len(set(t[3] for t in ties)) > 1:
        raise RuntimeError("alphabet %r puts values on level boundaries for several level counts: %r" % (gen.alphabet(seed, 4), ties))
    js = jobs(tier, seed) if (parts is None or "c" in parts) else []
    pj = []
    if parts is None or "py" in parts:
        a3 = gen.alphabet(seed, 3)
        shapes = [(1, 2), (2, 1), (2, 2), (1, 3), (3, 1), (2, 3), (3, 2), (1, 6), (2, 4), (4, 2)] + ([(3, 3), (1, 8)] if tier == "thorough" else [])
        for nf, nd in shapes:
            pj.append(dict(nf=nf, nd=nd, alpha=a3, ihmax=[2, 3, 100]))

    def dispatch(j):
        return py_item(j) if "nf" in j else run_job(j)

    allj = sorted(js + pj, key=lambda j: 0 if "nf" in j else 1)
    for res in common.pmap(dispatch, allj):
        rep.merge(res)
