"""Try a quick textual mutant or a patch against scratch copies of the repo.

usage: python -m mc.trymut <PROP[,PROP..]> <relpath> <old> <new> [--tests] [--tier quick]
       python -m mc.trymut <PROP[,PROP..]> --patch file.diff [--tests]
Copies VERIF_REPO (/repo) to a scratch dir outside /repo and /verif, applies the change, optionally runs
the pinned test-suite there, runs the checks with VERIF_REPO pointing at the copy, removes the copy.
"""
import os
import shutil
import subprocess
import sys
import tempfile


def main():
    args = sys.argv[1:]
    tests = "--tests" in args
    if tests:
        args.remove("--tests")
    tier = "quick"
    if "--tier" in args:
        i = args.index("--tier")
        tier = args[i + 1]
        del args[i:i + 2]
    props = args[0].split(",")
    src = "/repo"
    tmp = tempfile.mkdtemp(prefix="wsmut_", dir="/tmp")
    dst = os.path.join(tmp, "repo")
    try:
        shutil.copytree(src, dst, ignore=shutil.ignore_patterns(".git", "__pycache__", "docs", "*.egg-info"))
        if args[1] == "--patch":
            r = subprocess.run(["patch", "-p1", "-d", dst, "-i", os.path.abspath(args[2])], capture_output=True, text=True)
            print(r.stdout.strip())
            if r.returncode:
                print(r.stderr)
                return 2
        else:
            rel, old, new = args[1], args[2], args[3]
            p = os.path.join(dst, rel)
            s = open(p).read()
            if s.count(old) < 1:
                print("pattern not found")
                return 2
            s = s.replace(old, new, 1)
            open(p, "w").write(s)
        rc_all = 0
        if tests:
            # rebuild extension in place for the test-suite if C changed
            so = [f for f in os.listdir(os.path.join(dst, "wavespectra/partition")) if f.endswith(".so")]
            env = dict(os.environ, PYTHONPATH=dst)
            sys.path.insert(0, "/verif")
            os.environ["VERIF_REPO"] = dst
            from mc import common
            built = common.build_ext()
            for f in so:
                shutil.copy(built, os.path.join(dst, "wavespectra/partition", f))
            r = subprocess.run(["/venv/bin/python", "-m", "pytest", "-q", "-x", "-p", "no:cacheprovider", "--timeout=900",
                                "-q", "--deselect", "tests/io/test_awac.py"] + BASE_DESELECT, cwd=dst, env=env, capture_output=True, text=True)
            tail = r.stdout.strip().splitlines()[-3:]
            print("TESTS:", " | ".join(tail))
        for prop in props:
            env = dict(os.environ, VERIF_REPO=dst)
            r = subprocess.run(["/venv/bin/python", "-m", "mc.check", prop, "--tier", tier], cwd="/verif", env=env, capture_output=True, text=True)
            lines = [ln for ln in r.stdout.splitlines() if ln.startswith(("VIOLATION", "KNOWN", "  signature", "  message", prop))]
            print("\n".join(lines[:14]))
            if r.returncode not in (0, 1):
                print(r.stderr[-2000:])
            print("==> %s exit %d (%s)" % (prop, r.returncode, "DETECTED" if r.returncode == 1 else "missed"))
            rc_all |= r.returncode
        return 0
    finally:
        shutil.rmtree(tmp, ignore_errors=True)
        # restore evidence written for the mutant run by re-running is the caller's business


BASE_DESELECT = []

if __name__ == "__main__":
    sys.exit(main())
