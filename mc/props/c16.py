"""C16 - smoothing is a local (circular in direction) running average that keeps the grid.

Bounded-exhaustive: direction/frequency grids x EVERY pair of odd windows up to the grid size x stored direction order
x dimension order x extra dims x dtype x entry point; spectra = impulse basis + constants + full alphabet products on a
6-cell block that straddles the 0/360 seam (smoothing is linear, so the impulse basis decides it per grid/window).
The oracle is a plain loop over bins and window offsets, written without any library call.
"""
from __future__ import annotations

import itertools
import numpy as np

from mc import common, gen
from mc.common import Violation

PROP = "C16"
LEVEL = "exploration"

ULPS = 16.0  # tolerance in units of eps(dtype) * max|input over the window|


# ---------------------------------------------------------------------------------------------
# finite alphabets: grids
# ---------------------------------------------------------------------------------------------
def freq_grid(nf, seed):
    off = [0.0, 0.003, 0.007][seed % 3]
    base = np.array([0.04, 0.05, 0.08, 0.1, 0.17, 0.2, 0.31])[:nf] + off
    if nf == 1:
        base = np.array([0.1 + off])
    return [float(x) for x in base]


def dir_grids(seed, tier):
    """(name, sorted directions, is_full_circle). Full-circle spacings are whole or dyadic degrees; every label is an exact float32."""
    out = []
    # nd -> spacing; first directions are whole or dyadic and < spacing
    full = [(2, 180.0), (3, 120.0), (4, 90.0), (5, 72.0), (8, 45.0), (9, 40.0), (12, 30.0), (16, 22.5)]
    if tier == "thorough":
        full += [(6, 60.0), (10, 36.0), (15, 24.0), (32, 11.25)]
    starts = [5.0, 7.5, 0.0, 10.0, 0.25, 1.0]
    for k, (nd, dd) in enumerate(sorted(full)):
        d0 = starts[(seed + k) % len(starts)]
        assert d0 < dd
        out.append(("full%d_%g" % (nd, d0), [d0 + dd * j for j in range(nd)], True))
    # full circles labelled outside [0, 360): the [-180, 180) convention, north written as 360, an unwrapped record
    out.append(("full12_-180", [-180.0 + 30.0 * j for j in range(12)], True))
    out.append(("full9_40..360", [40.0 * j for j in range(1, 10)], True))
    out.append(("full4_200..470", [200.0 + 90.0 * j for j in range(4)], True))
    out.append(("part_0_90", [0.0, 30.0, 60.0, 90.0], False))
    out.append(("part_200_340", [200.0 + 20.0 * j for j in range(8)], False))
    out.append(("part_3of4", [5.0, 95.0, 185.0], False))  # one bin short of a full circle
    out.append(("part_irregular", [10.0, 30.0, 100.0, 200.0], False))
    out.append(("part_single", [[45.0, 0.0, 200.0][seed % 3]], False))
    if tier == "thorough":
        out.append(("part_11of12", [30.0 * j for j in range(11)], False))
        out.append(("part_0_337.5_gap", [22.5 * j for j in range(16) if j != 7], False))  # irregular: one bin missing inside
    for name, d, circ in out:
        a = np.asarray(d)
        assert np.array_equal(a.astype(np.float32).astype(np.float64), a) and (a >= -180).all() and (a < 720).all()
        assert circ == oracle_full_circle(d)
    return out


def oracle_full_circle(dirs_sorted):
    """A regular grid whose bins tile the circle exactly."""
    n = len(dirs_sorted)
    if n < 2:
        return False
    dd = dirs_sorted[1] - dirs_sorted[0]
    for j in range(1, n):
        if dirs_sorted[j] - dirs_sorted[j - 1] != dd:
            return False
    return dd * n == 360.0


def odd_windows(n):
    return [w for w in range(1, n + 1) if w % 2 == 1]


def even_windows(n):
    return [w for w in range(0, n + 2) if w % 2 == 0]


def stored_orders(nd, tier):
    """name -> index list into the sorted directions: sorted, every rotation, descending (thorough: every rotation of descending)."""
    out = [("sorted", list(range(nd)))]
    for r in range(1, nd):
        out.append(("rot%d" % r, [(j + r) % nd for j in range(nd)]))
    if nd > 1:
        out.append(("desc", list(range(nd - 1, -1, -1))))
        if tier == "thorough":
            for r in range(1, nd):
                out.append(("desc_rot%d" % r, [(nd - 1 - j + r) % nd for j in range(nd)]))
    return out


def order_pred(order):
    nd = len(order)
    if list(order) == list(range(nd)):
        return "dirs:sorted"
    if all((order[j + 1] - order[j]) % nd == 1 for j in range(nd - 1)):
        return "dirs:rotated"
    if list(order) == list(range(nd - 1, -1, -1)):
        return "dirs:descending"
    return "dirs:descending+rotated"


# ---------------------------------------------------------------------------------------------
# finite alphabets: spectra (in SORTED direction order), shape (N, nf, nd)
# ---------------------------------------------------------------------------------------------
def seam_block(nf, nd, ncells=6):
    """<=6 cells: two frequency rows (the first two) x three direction columns around the seam (last, first, second)."""
    rows = [0, 1] if nf >= 2 else [0]
    ncol = ncells // len(rows)
    cols = []
    for j in [nd - 1, 0, 1, nd - 2, 2, nd - 3]:
        if 0 <= j < nd and j not in cols:
            cols.append(j)
    cols = cols[:ncol]
    return [(i, j) for i in rows for j in cols]


def basis_spectra(nf, nd, alpha):
    """zero, constants, every impulse, one all-distinct spectrum, two ramps."""
    nz = [a for a in alpha if a != 0]
    out = [np.zeros((nf, nd))]
    for a in nz:
        out.append(np.full((nf, nd), a))
    h = max(alpha)
    for i in range(nf):
        for j in range(nd):
            v = np.zeros((nf, nd))
            v[i, j] = h
            out.append(v)
    out.append(gen.distinct_values(nf, nd))
    fi, di = np.meshgrid(np.arange(nf), np.arange(nd), indexing="ij")
    out.append(1.0 + di.astype(float))
    out.append(1.0 + fi.astype(float) * 3 + di[:, ::-1])
    return np.array(out)


def product_spectra(nf, nd, alpha, ncells=6):
    cells = seam_block(nf, nd, ncells)
    vals = gen.product_array(len(cells), alpha)
    out = np.full((vals.shape[0], nf, nd), float(min(alpha)))
    for c, (i, j) in enumerate(cells):
        out[:, i, j] = vals[:, c]
    return out


def single_spectra(nf, nd, alpha):
    """spectra sent one at a time as plain 2-D arrays: impulse in the seam corner, impulse in the opposite corner, all-distinct, ramp"""
    h = max(alpha)
    a = np.zeros((nf, nd))
    a[0, nd - 1] = h
    b = np.zeros((nf, nd))
    b[nf - 1, 0] = h
    fi, di = np.meshgrid(np.arange(nf), np.arange(nd), indexing="ij")
    return np.array([a, b, gen.distinct_values(nf, nd), 1.0 + fi * 3.0 + di[:, ::-1]])


def batch_for(kind, nf, nd, alpha, work=0):
    """work = nf*nd*fw*dw bounds the memory of one call: the product block shrinks to 4 cells / 3 letters on the largest grids"""
    if kind == "singles":
        return single_spectra(nf, nd, alpha)
    b = basis_spectra(nf, nd, alpha)
    if kind == "full":
        if len(alpha) > 3 and work > 1500:
            alpha = alpha[:3]
        b = np.concatenate([b, product_spectra(nf, nd, alpha, 6 if work <= 6000 else 4)], axis=0)
    if b.shape[0] % 2 == 1:
        b = np.concatenate([b, b[-1:] * 0.5], axis=0)
    return b


# ---------------------------------------------------------------------------------------------
# the reference: plain loops over bins and window offsets, vectorised over the batch only
# ---------------------------------------------------------------------------------------------
def reference(E, fw, dw, circular):
    """E (N,nf,nd) in sorted-direction order. Returns lo, hi, mean, amax (N,nf,nd) and fits (nf,nd)."""
    N, nf, nd = E.shape
    hf, hd = fw // 2, dw // 2
    lo = np.empty_like(E)
    hi = np.empty_like(E)
    mean = np.empty_like(E)
    amax = np.empty_like(E)
    fits = np.zeros((nf, nd), dtype=bool)
    for i in range(nf):
        fi = [i + a for a in range(-hf, hf + 1) if 0 <= i + a < nf]
        for j in range(nd):
            if circular:
                dj = [(j + b) % nd for b in range(-hd, hd + 1)]
            else:
                dj = [j + b for b in range(-hd, hd + 1) if 0 <= j + b < nd]
            mn = np.full(N, np.inf)
            mx = np.full(N, -np.inf)
            am = np.zeros(N)
            sm = np.zeros(N)
            for a in fi:
                for b in dj:
                    v = E[:, a, b]
                    mn = np.minimum(mn, v)
                    mx = np.maximum(mx, v)
                    am = np.maximum(am, np.abs(v))
                    sm = sm + v
            lo[:, i, j] = mn
            hi[:, i, j] = mx
            amax[:, i, j] = am
            fits[i, j] = (len(fi) == fw) and (len(dj) == dw)
            mean[:, i, j] = sm / (len(fi) * len(dj))
    return lo, hi, mean, amax, fits


# ---------------------------------------------------------------------------------------------
# building the input and calling the code under test
# ---------------------------------------------------------------------------------------------
def extra_shape(extra, N):
    if not extra:
        assert N == 1
        return ()
    if list(extra) == ["site"]:
        return (N,)
    a = 2 if (N % 2 == 0 and N > 1) else 1
    return (a, N // a)


def build(cfg, E):
    """E (N,nf,nd) in sorted-direction order -> DataArray stored as the configuration says."""
    import xarray as xr

    f = np.asarray(cfg["f"], dtype=np.float64)
    ds = np.asarray(cfg["dirs"], dtype=np.float64)
    order = [int(x) for x in cfg["order"]]
    N, nf, nd = E.shape
    stored = E[:, :, order]
    sdirs = ds[order]
    extra = list(cfg.get("extra", ["time", "site"]))
    shp = extra_shape(extra, N)
    arr = stored.reshape(shp + (nf, nd))
    if np.dtype(cfg.get("dtype", "float64")).kind in "iu":
        # integer-stored spectra (counts, unpacked shorts): the values in units of the smallest positive one
        pos = arr[arr > 0]
        arr = np.rint(arr / (pos.min() if pos.size else 1.0))
    arr = arr.astype(cfg.get("dtype", "float64"))
    cdt = cfg.get("cdtype", "f8")
    coords = {"freq": f.astype("f4") if cdt == "f4" else f,
              "dir": sdirs.astype({"f8": "f8", "f4": "f4", "i8": "i8"}[cdt])}
    names = extra + ["freq", "dir"]
    for k, nm in enumerate(extra):
        n = shp[k]
        if nm == "time":
            coords["time"] = (np.datetime64("2021-03-01T00:00:00", "ns") + np.arange(n) * np.timedelta64(3, "h")).astype("datetime64[ns]")
        else:
            coords["site"] = np.arange(1, n + 1)
            coords["lon"] = ("site", 150.0 + 0.25 * np.arange(n))
            coords["lat"] = ("site", -30.0 - 0.5 * np.arange(n))
    da = xr.DataArray(arr, dims=names, coords=coords, name="efth")
    dims = tuple(cfg.get("dims") or names)
    assert sorted(dims) == sorted(names), (dims, names)
    da = da.transpose(*dims)
    ch = cfg.get("chunks")
    if ch:
        da = da.chunk({k: v for k, v in ch.items() if k in da.dims})
    return da


def call(cfg, da, fw, dw):
    from wavespectra.core.utils import smooth_spec

    api = cfg.get("api", "accessor")
    if api == "accessor":
        return da, da.spec.smooth(fw, dw)
    if api == "accessor-kw":
        return da, da.spec.smooth(freq_window=fw, dir_window=dw)
    if api == "func":
        return da, smooth_spec(da, freq_window=fw, dir_window=dw)
    ds = da.to_dataset(name="efth")
    lead = [d for d in da.dims if d not in ("freq", "dir")]
    ds["wspd"] = (tuple(lead), np.full([da.sizes[d] for d in lead], 7.5))
    if api == "dataset-accessor":
        return ds["efth"], ds.spec.smooth(fw, dw)
    if api == "dataset-func":
        r = smooth_spec(ds, freq_window=fw, dir_window=dw)
        return ds["efth"], r["efth"]
    if api == "ptm3":
        return ds["efth"], da.spec.partition.ptm3(parts=2, smooth=True, freq_window=fw, dir_window=dw)
    raise ValueError(api)


def to_sorted(values, da, order, N):
    """values of an array with da's dims -> (N,nf,nd) float64 in sorted-direction order (by stored POSITION, not by output labels)."""
    nf, nd = da.sizes["freq"], da.sizes["dir"]
    lead = [d for d in ("time", "site") if d in da.dims]  # the order in which build() laid the batch out
    ax = [da.dims.index(d) for d in lead + ["freq", "dir"]]
    v = np.transpose(np.asarray(values), ax).reshape(N, nf, nd)
    out = np.empty((N, nf, nd), dtype=np.float64)
    for j in range(nd):
        out[:, :, order[j]] = v[:, :, j]
    return out


def grid_checks(da, out):
    """dims, their order, coordinate names/values/order. -> list of (clause, msg)"""
    import xarray as xr

    bad = []
    if not isinstance(out, xr.DataArray):
        return [("type", "result is %s, not a DataArray" % type(out).__name__)]
    if tuple(out.dims) != tuple(da.dims):
        bad.append(("dims-order" if sorted(out.dims) == sorted(da.dims) else "dims", "result dims %s, input dims %s" % (out.dims, da.dims)))
        return bad
    if out.shape != da.shape:
        return [("shape", "result shape %s, input %s" % (out.shape, da.shape))]
    if sorted(out.coords) != sorted(da.coords):
        bad.append(("coord-names", "result coordinates %s, input %s" % (sorted(out.coords), sorted(da.coords))))
    for c in da.coords:
        if c not in out.coords:
            continue
        a, b = da.coords[c], out.coords[c]
        if a.dims != b.dims:
            bad.append(("coord-dims:" + _cname(c), "coordinate %s has dims %s, input %s" % (c, b.dims, a.dims)))
        elif not np.array_equal(np.asarray(a.values), np.asarray(b.values)):
            bad.append(("coord-values:" + _cname(c), "coordinate %s is %s, input has %s" % (c, np.asarray(b.values).tolist(), np.asarray(a.values).tolist())))
        elif np.asarray(a.values).dtype != np.asarray(b.values).dtype:
            bad.append(("coord-dtype:" + _cname(c), "coordinate %s came back as %s, input is %s" % (c, b.dtype, a.dtype)))
    return bad


def _cname(c):
    return c if c in ("freq", "dir") else "other"


def first_bad(ok):
    i = np.argwhere(~ok)[0]
    return tuple(int(x) for x in i)


def value_checks(E_used, res, fw, dw, circular, eps, ref=None):
    """E_used, res (N,nf,nd) sorted order. -> list of (batch idx, clause, msg)"""
    bad = []
    N, nf, nd = E_used.shape
    lo, hi, mean, amax, fits = ref if ref is not None else reference(E_used, fw, dw, circular)
    tol = ULPS * eps * amax
    if np.isnan(res).any():
        i = first_bad(~np.isnan(res))
        bad.append((i[0], "not-nan", "result is NaN at (freq %d, dir(sorted) %d)" % (i[1], i[2])))
        return bad
    if fw == 1 and dw == 1:
        ok = np.abs(res - E_used) <= tol
        if not ok.all():
            i = first_bad(ok)
            bad.append((i[0], "window1-identity", "window (1,1): result %r != input %r at (freq %d, dir(sorted) %d)" % (res[i], E_used[i], i[1], i[2])))
            return bad
    ok = (res >= lo - tol) & (res <= hi + tol)
    if not ok.all():
        i = first_bad(ok)
        where = "window-fits" if fits[i[1], i[2]] else "window-clipped"
        bad.append((i[0], "window-bound:" + where, "result %r outside [min %r, max %r] of the input over the %dx%d window around (freq %d, dir(sorted) %d)" % (
            res[i], lo[i], hi[i], fw, dw, i[1], i[2])))
    okm = (np.abs(res - mean) <= tol) | ~fits[None, :, :]
    if not okm.all():
        i = first_bad(okm)
        bad.append((i[0], "window-mean", "result %r != window mean %r (%dx%d window fits around (freq %d, dir(sorted) %d))" % (
            res[i], mean[i], fw, dw, i[1], i[2])))
    nonneg = (E_used >= 0).all(axis=(1, 2))
    okn = (res >= 0).all(axis=(1, 2)) | ~nonneg
    if not okn.all():
        i = int(np.argwhere(~okn)[0][0])
        bad.append((i, "non-negative", "non-negative input, result min %r" % res[i].min()))
    const = (E_used == E_used[:, :1, :1]).all(axis=(1, 2))
    okc = (np.abs(res - E_used) <= tol).all(axis=(1, 2)) | ~const
    if not okc.all():
        i = int(np.argwhere(~okc)[0][0])
        bad.append((i, "constant", "constant input %r, result ranges %r..%r" % (E_used[i, 0, 0], res[i].min(), res[i].max())))
    return bad


def run_call(cfg, E, fw, dw, ref=None):
    """One call of the code under test on a batch. -> (list of (idx|None, clause, msg), res sorted (or None), E_used)"""
    da = build(cfg, E)
    N = E.shape[0]
    order = [int(x) for x in cfg["order"]]
    try:
        src, out = call(cfg, da, fw, dw)
        vals = np.asarray(out.values)
    except Exception as e:  # noqa
        return [(None, "raises:" + type(e).__name__, "odd windows (%d,%d) raised %s: %s" % (fw, dw, type(e).__name__, str(e)[:300]))], None, None
    gb = grid_checks(src, out)
    if gb:
        return [(None, c, m) for c, m in gb], None, None
    E_used = to_sorted(src.values, src, order, N)
    res = to_sorted(vals, src, order, N)
    sdt = np.asarray(src.values).dtype
    eps = max(np.finfo(sdt).eps if sdt.kind == "f" else np.finfo(np.float64).eps, np.finfo(vals.dtype).eps if vals.dtype.kind == "f" else 0.0)
    use_ref = ref if (ref is not None and np.dtype(cfg.get("dtype", "float64")) == np.float64) else None
    bad = value_checks(E_used, res, fw, dw, bool(cfg["circular"]), eps, use_ref)
    return bad, res, E_used


# ---------------------------------------------------------------------------------------------
# signatures / cases
# ---------------------------------------------------------------------------------------------
def dims_pred(dims, extra):
    names = list(extra) + ["freq", "dir"]
    dims = list(dims or names)
    p = [] if list(extra) == ["time", "site"] else ["extra:" + ("+".join(extra) if extra else "none")]
    if dims == names:
        return ",".join(p)
    if dims.index("dir") < dims.index("freq"):
        p.append("dims:dir-before-freq")
    elif dims[-2:] != ["freq", "dir"]:
        p.append("dims:spectral-dims-not-last")
    else:
        p.append("dims:leading-dims-permuted")
    return ",".join(p)


def win_pred(fw, dw, nf, nd):
    a = "fw=1" if fw == 1 else ("fw=nf>3" if (fw == nf and fw > 3) else "fw>1")
    b = "dw=1" if dw == 1 else ("dw=nd>3" if (dw == nd and dw > 3) else "dw>1")
    return a + "," + b


def signature(cfg, clause, fw, dw, op="smooth"):
    nf, nd = len(cfg["f"]), len(cfg["dirs"])
    p = ["fullcircle" if cfg["circular"] else "partial", "nf=1" if nf == 1 else "nf>1", order_pred(cfg["order"]),
         dims_pred(cfg.get("dims"), cfg.get("extra", ["time", "site"])), win_pred(fw, dw, nf, nd)]
    p = [x for x in p if x]
    if cfg.get("dtype", "float64") != "float64":
        p.append("dtype:" + cfg["dtype"])
    if cfg.get("cdtype", "f8") != "f8":
        p.append("coords:" + cfg["cdtype"])
    if cfg.get("chunks"):
        p.append("dask:" + "+".join(sorted(cfg["chunks"])))
    if cfg.get("api", "accessor") != "accessor":
        p.append("api:" + cfg["api"])
    return "%s|%s|%s" % (op, clause, ",".join(p))


def make_case(cfg, efth, fw, dw, kind="smooth", **kw):
    c = dict(kind=kind, f=list(cfg["f"]), dirs=list(cfg["dirs"]), circular=bool(cfg["circular"]), order=list(cfg["order"]),
             dims=list(cfg["dims"]) if cfg.get("dims") else None, extra=list(cfg.get("extra", ["time", "site"])),
             dtype=cfg.get("dtype", "float64"), cdtype=cfg.get("cdtype", "f8"), api=cfg.get("api", "accessor"),
             chunks=cfg.get("chunks"), fw=int(fw), dw=int(dw), efth=np.asarray(efth, dtype=float))
    c.update(kw)
    return c


def cfg_of_case(case):
    return dict(f=[float(x) for x in case["f"]], dirs=[float(x) for x in case["dirs"]], circular=bool(case["circular"]),
                order=[int(x) for x in case["order"]], dims=tuple(case["dims"]) if case.get("dims") else None,
                extra=list(case.get("extra", ["time", "site"])), dtype=case.get("dtype", "float64"), cdtype=case.get("cdtype", "f8"),
                api=case.get("api", "accessor"), chunks=case.get("chunks") or None)


def replay(case):
    common.load_wavespectra()
    kind = case.get("kind", "smooth")
    cfg = cfg_of_case(case)
    fw, dw = int(case["fw"]), int(case["dw"])
    E = np.asarray(case["efth"], dtype=float)[None]
    out = []
    if kind == "smooth":
        bad, _, _ = run_call(cfg, E, fw, dw)
        for (i, clause, msg) in bad:
            out.append(Violation(PROP, signature(cfg, clause, fw, dw), msg, case))
    elif kind == "shift":
        for (i, clause, m) in shift_check(cfg, E, fw, dw, int(case["shift"]))[0]:
            out.append(Violation(PROP, signature(cfg, clause, fw, dw), m, case))
    elif kind == "even":
        r = even_check(cfg, E, fw, dw)
        if r[0] == "no-raise":
            out.append(Violation(PROP, even_signature(cfg, fw, dw), r[1], case))
    elif kind == "dask-equal":
        for (i, clause, m) in dask_equal_check(cfg, E, fw, dw):
            out.append(Violation(PROP, signature(cfg, clause, fw, dw), m, case))
    elif kind == "partition":
        for (clause, m) in partition_check(cfg, E[0], fw, dw):
            out.append(Violation(PROP, signature(cfg, clause, fw, dw, op="ptm3(smooth=True)"), m, case))
    return out


# ---------------------------------------------------------------------------------------------
# the other clauses
# ---------------------------------------------------------------------------------------------
def shift_check(cfg, E, fw, dw, k, r1=None):
    """smooth(circular shift by k bins of the direction axis) == circular shift of smooth, labels unchanged. -> (bad, r1)"""
    N = E.shape[0]
    order = [int(x) for x in cfg["order"]]
    try:
        if r1 is None:
            src, o1 = call(cfg, build(cfg, E), fw, dw)
            r1 = to_sorted(o1.values, src, order, N)
        E2 = np.roll(E, k, axis=2)
        src2, o2 = call(cfg, build(cfg, E2), fw, dw)
        r2 = to_sorted(o2.values, src2, order, N)
    except Exception as e:  # noqa
        return [(None, "raises:" + type(e).__name__, "odd windows (%d,%d) raised %s: %s" % (fw, dw, type(e).__name__, str(e)[:300]))], None
    eps = np.finfo(np.dtype(cfg.get("dtype", "float64")) if np.dtype(cfg.get("dtype", "float64")).kind == "f" else np.float64).eps
    scale = np.abs(E).max(axis=(1, 2))[:, None, None]
    ok = np.abs(r2 - np.roll(r1, k, axis=2)) <= 2 * ULPS * eps * scale
    ok &= ~np.isnan(r2)
    if not ok.all():
        i = first_bad(ok)
        return [(i[0], "shift-commute", "shifting the direction axis by %d bins then smoothing gives %r, smoothing then shifting gives %r at (freq %d, dir(sorted) %d)" % (
            k, r2[i], np.roll(r1, k, axis=2)[i], i[1], i[2]))], r1
    return [], r1


def even_signature(cfg, fw, dw):
    which = ("freq" if fw % 2 == 0 else "") + ("+" if (fw % 2 == 0 and dw % 2 == 0) else "") + ("dir" if dw % 2 == 0 else "")
    zero = ",zero" if (fw == 0 or dw == 0) else ""
    return "smooth|even-window-rejected|even:%s%s,api:%s" % (which, zero, cfg.get("api", "accessor"))


def even_check(cfg, E, fw, dw):
    da = build(cfg, E)
    try:
        src, out = call(cfg, da, fw, dw)
        np.asarray(out.values)
    except Exception as e:  # noqa
        return ("raised:" + type(e).__name__, str(e)[:200])
    return ("no-raise", "windows (freq %d, dir %d) contain an even size but the call returned a result" % (fw, dw))


def dask_equal_check(cfg, E, fw, dw):
    """dask-backed input gives the same values as numpy-backed input."""
    c0 = dict(cfg, chunks=None)
    N = E.shape[0]
    order = [int(x) for x in cfg["order"]]
    try:
        s0, o0 = call(c0, build(c0, E), fw, dw)
        r0 = to_sorted(o0.values, s0, order, N)
        s1, o1 = call(cfg, build(cfg, E), fw, dw)
        r1 = to_sorted(o1.values, s1, order, N)
    except Exception as e:  # noqa
        return [(None, "raises:" + type(e).__name__, "odd windows (%d,%d) raised %s: %s" % (fw, dw, type(e).__name__, str(e)[:300]))]
    scale = np.abs(E).max(axis=(1, 2))[:, None, None]
    ok = np.abs(r1 - r0) <= ULPS * np.finfo(float).eps * scale
    if not ok.all():
        i = first_bad(ok)
        return [(i[0], "dask-equals-numpy", "dask-backed input gives %r, numpy-backed %r at (freq %d, dir(sorted) %d)" % (r1[i], r0[i], i[1], i[2]))]
    return []


def partition_check(cfg, spec, fw, dw):
    """ptm3(smooth=True, fw, dw) == the numpy partition routine fed with the reference-smoothed spectrum.
    Only used where the statement determines every smoothed value (full circle, fw == 1) and where the window means
    are exact (integer data that are multiples of the window size)."""
    from wavespectra.partition.partition import np_ptm3

    assert cfg["circular"] and fw == 1
    E = np.asarray(spec, dtype=float)[None]
    order = [int(x) for x in cfg["order"]]
    f = np.asarray(cfg["f"], dtype=float)
    sdirs = np.asarray(cfg["dirs"], dtype=float)[order]
    lo, hi, mean, amax, fits = reference(E, fw, dw, True)
    assert fits.all() and np.array_equal(mean, np.round(mean))
    c = dict(cfg, api="ptm3", extra=[], dims=None)
    da = build(c, E)
    try:
        got = da.spec.partition.ptm3(parts=3, smooth=True, freq_window=fw, dir_window=dw)
        gv = np.asarray(got.transpose("part", "freq", "dir").values, dtype=float)
    except Exception as e:  # noqa
        return [("raises:" + type(e).__name__, "ptm3(smooth=True, %d, %d) raised %s: %s" % (fw, dw, type(e).__name__, str(e)[:300]))]
    exp = np.asarray(np_ptm3(E[0][:, order], mean[0][:, order], f, sdirs, 3), dtype=float)
    if gv.shape != exp.shape or not np.allclose(gv, exp, rtol=1e-6, atol=0):
        return [("uses-smoothed-spectrum", "ptm3(smooth=True, freq_window=%d, dir_window=%d) differs from partitioning with the reference-smoothed spectrum "
                 "(partition sums %s vs %s)" % (fw, dw, gv.reshape(gv.shape[0], -1).sum(axis=1).tolist(), exp.reshape(exp.shape[0], -1).sum(axis=1).tolist()))]
    return []


def partition_spectrum(nf, nd, dw, seed):
    """two separated peaks plus a ridge, integer valued and a multiple of dw, so every dw-bin mean is an exact integer"""
    v = np.zeros((nf, nd))
    p1 = (1, (1 + seed) % nd)
    p2 = (nf - 2, (1 + seed + nd // 2) % nd)
    for i in range(nf):
        for j in range(nd):
            d1 = abs(i - p1[0]) + min((j - p1[1]) % nd, (p1[1] - j) % nd)
            d2 = abs(i - p2[0]) + min((j - p2[1]) % nd, (p2[1] - j) % nd)
            v[i, j] = max(0, 40 - 11 * d1) + max(0, 27 - 8 * d2) + ((i * 3 + j * 5) % 4)
    return v * dw



# ---------------------------------------------------------------------------------------------
# work items
# ---------------------------------------------------------------------------------------------
PERM_SUBSET_4D = [("time", "site", "freq", "dir"), ("time", "site", "dir", "freq"), ("dir", "freq", "time", "site"),
                  ("freq", "dir", "time", "site"), ("time", "dir", "site", "freq"), ("dir", "time", "site", "freq"),
                  ("freq", "time", "dir", "site"), ("site", "time", "freq", "dir")]
DIMS_QUICK = {("full4", 3), ("full5", 1), ("full8", 5), ("part_0_90", 3), ("full3", 5), ("full9", 3), ("part_irregular", 5)}  # (direction grid, nf) explored over all dimension orders in quick
CHUNKINGS = ({"site": 1, "time": 1}, {"freq": 2, "dir": 2}, {"dir": 3, "site": 1})


def in_dims_subset(tier, gname, nf):
    if tier == "thorough":
        return not gname.startswith("full32")
    g = gname.split("_")[0] if gname.startswith("full") else gname
    return (g, nf) in DIMS_QUICK


def orders_for(nd, tier):
    allo = stored_orders(nd, tier)
    if (tier == "thorough" and nd <= 16) or nd <= 8:
        return allo
    keep = {"sorted", "rot1", "rot%d" % (nd // 2), "rot%d" % (nd - 1), "desc"}
    return [o for o in allo if o[0] in keep]


def shifts_for(nd, tier, first):
    if not first:
        return [1]
    if (tier == "thorough" and nd <= 16) or nd <= 5:
        return list(range(1, nd))
    return sorted(set([1, nd // 2, nd - 1]))


def variants(tier, gname, nf, nd, fw, whole_degrees):
    """The list of (part, cfg-overrides, batch kind) explored for one window pair of one grid. Simplest first."""
    orders = orders_for(nd, tier)
    omap = dict(orders)
    rot1 = "rot1" if nd > 1 else "sorted"
    V = []
    # stored direction order, canonical 4-D layout
    for oname, order in orders:
        big = oname in ("sorted", rot1, "desc")
        V.append(("orders", dict(order=order), "full" if big else "basis"))
    sub = in_dims_subset(tier, gname, nf)
    # extra dimensions in every position of the dimension order
    if sub:
        p4 = list(itertools.permutations(["time", "site", "freq", "dir"]))
        p3 = list(itertools.permutations(["site", "freq", "dir"]))
        p2 = list(itertools.permutations(["freq", "dir"]))
        for oname, order in orders:
            for p in p4:
                if oname == rot1 or (oname in ("sorted", "desc") and (tier == "thorough" or p in PERM_SUBSET_4D)) or (tier == "thorough" and nd <= 10 and p in PERM_SUBSET_4D):
                    V.append(("dims4", dict(order=order, dims=p), "basis"))
        for oname in ([rot1] if tier == "quick" else ["sorted", rot1, "desc"]):
            if oname not in omap:
                continue
            for p in p3:
                V.append(("dims3", dict(order=omap[oname], dims=p, extra=["site"]), "basis"))
            for p in p2:
                V.append(("dims2", dict(order=omap[oname], dims=p, extra=[]), "singles"))
    # data dtype / coordinate dtype
    V.append(("dtype", dict(order=omap[rot1], dtype="float32"), "basis"))
    V.append(("dtype", dict(order=omap[rot1], dtype="int32"), "basis"))
    if tier == "thorough":
        V.append(("dtype", dict(order=omap["sorted"], dtype="int64"), "basis"))
    if tier == "thorough" or fw == 1:
        V.append(("dtype", dict(order=omap[rot1], cdtype="f4"), "basis"))
        if whole_degrees:
            V.append(("dtype", dict(order=omap[rot1], cdtype="i8"), "basis"))
    # entry points
    if sub:
        for api in ("func", "accessor-kw", "dataset-accessor", "dataset-func"):
            V.append(("api", dict(order=omap[rot1], api=api), "basis"))
        V.append(("api", dict(order=omap["sorted"], api="func"), "basis"))
        # dask-backed input
        for ci, ch in enumerate(CHUNKINGS):
            for oname in ((rot1, "sorted") if ci == 1 else (rot1,)):
                V.append(("dask", dict(order=omap[oname], chunks=ch), "small"))
    return V


def work_items(tier, seed):
    items = []
    nfs = (1, 3, 5) if tier == "quick" else (1, 2, 3, 4, 5)
    for gname, dirs, circ in dir_grids(seed, tier):
        nd = len(dirs)
        for nf in nfs:
            f = freq_grid(nf, seed)
            for fw in odd_windows(nf):
                for dw in odd_windows(nd):
                    items.append(dict(kind="pair", grid=gname, f=f, dirs=dirs, circular=circ, fw=fw, dw=dw, tier=tier, seed=seed))
            items.append(dict(kind="even", grid=gname, f=f, dirs=dirs, circular=circ, tier=tier, seed=seed))
    # partition(smooth=True)
    for gname, dirs, circ in dir_grids(seed, tier):
        if circ and len(dirs) in ((8, 9) if tier == "quick" else (5, 8, 9, 12, 16)):
            items.append(dict(kind="partition", grid=gname, f=freq_grid(5, seed), dirs=dirs, circular=True, tier=tier, seed=seed))
    items.sort(key=lambda it: (len(it["f"]) * len(it["dirs"]), it.get("fw", 0) * it.get("dw", 0), it["kind"]))
    return items


def new_res():
    return {"evals": 0, "n_nontrivial": 0, "samples": [], "outcomes": {}, "violations": [], "parts": {}, "counts": {}}


def bump(d, k, n=1):
    d[k] = d.get(k, 0) + n


FACTOR_DEFAULTS = (("chunks", None), ("api", "accessor"), ("cdtype", "f8"), ("dtype", "float64"), ("dims", None),
                   ("extra", ["time", "site"]), ("order", None))


def minimise(cfg, spec, fw, dw, clause, kind, kw):
    """Reset one input factor at a time to its plainest value (then the windows to 1, else 3) while the same clause keeps failing on
    the single spectrum, so that the signature names only the factors that matter. Returns (cfg, fw, dw) reduced, or None if the
    single spectrum passes."""
    def fails(c, a, b):
        vs = replay(make_case(c, spec, a, b, kind=kind, **kw))
        return any(v.signature.split("|")[1] == clause for v in vs)

    cur = dict(cfg)
    if not fails(cur, fw, dw):
        return None
    nd = len(cfg["dirs"])
    for key, default in FACTOR_DEFAULTS:
        if key == "chunks" and kind == "dask-equal":
            continue
        if key == "order":
            default = list(range(nd))
        have = cur.get(key, default)
        have = list(have) if isinstance(have, tuple) else have
        if have == default or (key == "dims" and have == list(cur.get("extra", ["time", "site"])) + ["freq", "dir"]):
            continue
        trial = dict(cur)
        trial[key] = default
        if key == "extra":
            trial["dims"] = None
        if fails(trial, fw, dw):
            cur = trial
    for small in (1, 3):
        if fw > small and fails(cur, small, dw):
            fw = small
        if dw > small and fails(cur, fw, small):
            dw = small
    return cur, fw, dw


def add_violations(res, seen, cfg, E, fw, dw, bad, kind, **kw):
    """first failing spectrum per signature, confirmed (and reduced to the factors that matter) on that single spectrum through replay()"""
    clauses = [c for (_, c, _) in bad]
    for (i, clause, msg) in bad:
        # a value that misses the window mean where the window fits may also leave the min/max band: one finding, not two
        if clause == "window-bound:window-fits" and "window-mean" in clauses:
            continue
        if clause in ("non-negative", "constant") and any(c.startswith("window-") for c in clauses):
            continue
        raw = "raw:" + signature(cfg, clause, fw, dw)
        if raw in seen:
            continue
        seen.add(raw)
        spec = E[i if i is not None else min(len(E) - 1, 4)]
        small = minimise(cfg, spec, fw, dw, clause, kind, kw)
        if small is None:
            case = make_case(cfg, spec, fw, dw, kind=kind, **kw)
            res["violations"].append(Violation(PROP, "smooth|batched-only|" + clause, "seen only inside a batch: " + msg,
                                               dict(case, batch_note="single-spectrum replay passes")))
            continue
        scfg, sfw, sdw = small
        sig = signature(scfg, clause, sfw, sdw)
        if sig in seen:
            continue
        seen.add(sig)
        case = make_case(scfg, spec, sfw, sdw, kind=kind, **kw)
        vs = [v for v in replay(case) if v.signature == sig]
        res["violations"].append(vs[0] if vs else Violation(PROP, sig, msg, case))


def run_pair(it):
    tier, seed = it["tier"], it["seed"]
    f, dirs, circ, fw, dw = it["f"], it["dirs"], it["circular"], it["fw"], it["dw"]
    nf, nd = len(f), len(dirs)
    alpha = gen.alphabet(seed, 3 if tier == "quick" else 4)
    res = new_res()
    seen = set()
    batches = {k: batch_for(k, nf, nd, alpha, nf * nd * fw * dw) for k in ("full", "basis", "singles")}
    batches["small"] = batches["singles"]
    refs = {k: reference(v, fw, dw, circ) for k, v in batches.items() if k != "small"}
    refs["small"] = refs["singles"]
    whole = all(float(x).is_integer() for x in dirs)
    base = dict(f=f, dirs=dirs, circular=circ)
    nontrivial = (fw > 1 or dw > 1)
    V = variants(tier, it["grid"], nf, nd, fw, whole)
    numpy_small = {}
    for part, over, bk in V:
        cfg = dict(base, **over)
        E = batches[bk]
        if bk == "singles":
            # 2-D input: one spectrum per call
            for i in range(E.shape[0]):
                Ei = E[i:i + 1]
                bad, r, eu = run_call(cfg, Ei, fw, dw)
                res["evals"] += 1
                bump(res["parts"], part)
                bump(res["parts"], "calls")
                res["n_nontrivial"] += int(nontrivial)
                add_violations(res, seen, cfg, Ei, fw, dw, bad, "smooth")
            continue
        bad, r, eu = run_call(cfg, E, fw, dw, refs[bk])
        res["evals"] += E.shape[0]
        bump(res["parts"], part, E.shape[0])
        bump(res["parts"], "calls")
        res["n_nontrivial"] += int(nontrivial) * E.shape[0]
        add_violations(res, seen, cfg, E, fw, dw, bad, "smooth")
        if part == "dask" and r is not None:
            # the same values as for numpy-backed input
            key = tuple(cfg["order"])
            if key not in numpy_small:
                c0 = dict(cfg, chunks=None)
                numpy_small[key] = run_call(c0, E, fw, dw, refs[bk])[1]
                bump(res["parts"], "calls")
            r0 = numpy_small[key]
            if r0 is not None:
                scale = np.abs(E).max(axis=(1, 2))[:, None, None]
                ok = np.abs(r - r0) <= ULPS * np.finfo(float).eps * scale
                if not ok.all():
                    i = first_bad(ok)
                    add_violations(res, seen, cfg, E, fw, dw, [(i[0], "dask-equals-numpy", "dask-backed input gives %r, numpy-backed %r at (freq %d, dir(sorted) %d)" % (
                        r[i], r0[i], i[1], i[2]))], "dask-equal")
        if r is not None and part == "orders" and list(cfg["order"]) == list(range(nd)):
            fits = refs[bk][4]
            bump(res["outcomes"], "cells:window-fits", int(fits.sum()))
            bump(res["outcomes"], "cells:window-clipped", int((~fits).sum()))
            changed = int((np.abs(r - eu) > 0).any(axis=(1, 2)).sum())
            bump(res["outcomes"], "spectra-changed-by-smoothing", changed)
            bump(res["outcomes"], "spectra-unchanged-by-smoothing", E.shape[0] - changed)
    # commutes with circular shifts of the direction axis
    if circ:
        E = batches["basis"]
        olist = stored_orders(nd, tier)
        use = olist if (tier == "thorough" and nd <= 16) else olist[:2]
        for oi, (oname, order) in enumerate(use):
            cfg = dict(base, order=order)
            r1 = None
            for k in shifts_for(nd, tier, oi == 0 or (tier == "thorough" and oname in ("rot1", "desc"))):
                k = k if oi == 0 else 1 + (oi % (nd - 1))
                bad, r1 = shift_check(cfg, E, fw, dw, k, r1)
                res["evals"] += E.shape[0]
                bump(res["parts"], "shift", E.shape[0])
                bump(res["parts"], "calls")
                res["n_nontrivial"] += int(nontrivial) * E.shape[0]
                add_violations(res, seen, cfg, E, fw, dw, bad, "shift", shift=k)
    if fw == max(odd_windows(nf)) and dw == max(odd_windows(nd)) and nf * nd >= 9:
        E = batches["full"]
        res["samples"].append(dict(grid=it["grid"], freq=f, dir_sorted=dirs, full_circle=circ, freq_window=fw, dir_window=dw,
                                   variants=len(V), spectra_per_call_full_batch=int(E.shape[0]), spectra_per_call_basis_batch=int(batches["basis"].shape[0]),
                                   efth_example=E[E.shape[0] // 2]))
    return res


def run_even(it):
    f, dirs, circ = it["f"], it["dirs"], it["circular"]
    nf, nd = len(f), len(dirs)
    res = new_res()
    seen = set()
    E = single_spectra(nf, nd, gen.alphabet(it["seed"], 3))[2:3]
    base = dict(f=f, dirs=dirs, circular=circ, order=[(j + 1) % nd for j in range(nd)])
    pairs = []
    for fw in even_windows(nf):
        for dw in list(range(0, nd + 2)):
            pairs.append((fw, dw))
    for dw in even_windows(nd):
        for fw in odd_windows(nf):
            pairs.append((fw, dw))
    for api in ("accessor", "func", "dataset-accessor", "dataset-func", "ptm3"):
        for (fw, dw) in pairs:
            cfg = dict(base, api=api, extra=[] if api == "ptm3" else ["time", "site"])
            r = even_check(cfg, E, fw, dw)
            res["evals"] += 1
            res["n_nontrivial"] += 1
            bump(res["parts"], "even")
            bump(res["outcomes"], "even-window:" + r[0])
            if r[0] == "no-raise":
                sig = even_signature(cfg, fw, dw)
                if sig in seen:
                    continue
                seen.add(sig)
                res["violations"].append(Violation(PROP, sig, r[1], make_case(cfg, E[0], fw, dw, kind="even")))
    return res


def run_partition(it):
    f, dirs = it["f"], it["dirs"]
    nf, nd = len(f), len(dirs)
    res = new_res()
    seen = set()
    for dw in odd_windows(nd):
        spec = partition_spectrum(nf, nd, dw, it["seed"])
        for oname, order in stored_orders(nd, "quick"):
            if oname == "desc":
                continue
            cfg = dict(f=f, dirs=dirs, circular=True, order=order, extra=[], api="ptm3")
            bad = partition_check(cfg, spec, 1, dw)
            res["evals"] += 1
            res["n_nontrivial"] += int(dw > 1)
            bump(res["parts"], "partition")
            for clause, msg in bad:
                sig = signature(cfg, clause, 1, dw, op="ptm3(smooth=True)")
                if sig in seen:
                    continue
                seen.add(sig)
                res["violations"].append(Violation(PROP, sig, msg, make_case(cfg, spec, 1, dw, kind="partition")))
    return res


def run_item(it):
    common.load_wavespectra()
    if it["kind"] == "pair":
        return run_pair(it)
    if it["kind"] == "even":
        return run_even(it)
    return run_partition(it)


def run(rep, tier, seed, parts=None):
    common.load_wavespectra()
    rep.rule = (
        "grids: nf in {1,3,5} (thorough 1..5) x direction grids {full circle nd=2,3,4,5,8,9,12,16 (thorough +6,10,15,32) with whole/dyadic "
        "spacing and a seed-chosen first direction; partial 0..90, 200..340, 3-of-4, irregular, single (thorough +11-of-12, gap)}; for each "
        "grid EVERY pair of odd windows (freq_window<=nf, dir_window<=nd) and every pair containing an even window (0,2,..,size+1) through "
        "5 entry points; per odd pair: stored direction order {sorted, every rotation (quick, nd>8: rotations 1, nd/2, nd-1), descending; "
        "thorough: every rotation of descending too} on a (time,site,freq,dir) batch; all 24 orders of the 4 dims, 6 of (site,freq,dir), 2 of "
        "(freq,dir) (quick: on (grid,nf) in full4/3, full5/1, full8/5, part_0_90/3; thorough: everywhere); float32 data; float32/int "
        "coordinates; 5 entry points; 3 dask chunkings compared with numpy; circular shifts of the direction axis (every shift for nd<=5, "
        "else 1, nd/2, nd-1; thorough every shift). Spectra per call: zero, constants, every impulse, an all-distinct spectrum, ramps (basis "
        "batch), plus every assignment of the alphabet to a 6-cell block across the 0/360 seam (full batch, sorted order). "
        "Non-trivial = a spectrum evaluated with a window > 1 in at least one dimension.")
    rep.extra["alphabet"] = list(gen.alphabet(seed, 3 if tier == "quick" else 4))
    rep.extra["tolerance"] = "%g * eps(dtype) * max|input over the window|" % ULPS
    rep.assumptions = [
        "where the 2-D window does not fit (frequency ends; direction ends of a partial grid) only the min/max bound over the clipped window is demanded",
        "an even window is 'rejected' when the call raises any exception (the type raised is recorded in distinct_outcomes)",
        "direction labels are exactly representable in float32 (the quantifier restricts the grids this way)",
        "ptm3(smooth=True) is compared with the library's numpy partition routine fed with the reference-smoothed spectrum, only where the statement "
        "fixes every smoothed value (full circle, freq_window=1) and window means are exact integers",
    ]
    items = work_items(tier, seed)
    if parts:
        items = [it for it in items if it["kind"] in parts]
    rep.extra["work_items"] = len(items)
    rep.extra["window_pairs"] = sum(1 for it in items if it["kind"] == "pair")
    for res in common.pmap(run_item, items):
        rep.merge(res)
