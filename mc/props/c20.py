"""C20 - valid spectra never crash the library, down to the native code (E1 degenerate menu + E5 sanitizer driver)."""
from __future__ import annotations

import math
import numpy as np

from mc import common, gen
from mc.common import Violation
from mc.cdrv import run as drv

PROP = "C20"
LEVEL = "exploration"
IHMAX = [1, 2, 3, 10, 100, 1000]
C20_CLAUSES = ("input-modified", "label-out-of-range", "shift-label-range")


# ---------------------------------------------------------------------------------------------
# native part: ASan + UBSan driver, shape changes at every call
# ---------------------------------------------------------------------------------------------
def c_jobs(tier, seed):
    a3 = gen.alphabet(seed, 3)
    a2 = (a3[0], a3[2])
    a4 = gen.alphabet(seed, 4)
    out = []

    def add(fam, alpha, shapes, ihmax=IHMAX, nshard=1, name=None, shifts=False, alarm=None):
        for i in range(nshard):
            out.append(dict(family=fam, alpha=list(alpha), shapes=shapes, ihmax=ihmax, shifts=shifts, shard=(i, nshard), name=name or fam,
                            interleave=True, asan=True, timeout=3000, alarm=alarm))

    all88 = drv.all_shapes(64, 1, 8)
    add("misc", a3, all88, name="misc-all-shapes<=8x8")
    add("impulse2", a3, [s for s in all88 if s[0] * s[1] <= 20], nshard=4, name="impulse2<=20cells")
    add("impulse2", a2, [s for s in all88 if s[0] * s[1] > 20], ihmax=[1, 2, 10, 1000], nshard=16, name="impulse2>20cells")
    add("product", a3, drv.all_shapes(8 if tier == "quick" else 10), nshard=8 if tier == "quick" else 32, name="product3", shifts=True)
    add("product", a2, drv.all_shapes(12 if tier == "quick" else 14, 9 if tier == "quick" else 11), nshard=8 if tier == "quick" else 32, name="product2")
    if tier == "thorough":
        add("product", a3, drv.all_shapes(12, 11), nshard=64, name="product3-11-12cells")
        add("bump3", a4, [(4, 6), (5, 8), (8, 8), (3, 5), (7, 3)], ihmax=[2, 10, 1000], nshard=32)
    else:
        add("bump3", a4, [(4, 6), (3, 5), (7, 3)], ihmax=[2, 10, 1000], nshard=8)
    # tiny value ranges and huge level counts
    add("product", tuple(v * 1e-10 for v in (0.0, 1.0, 3.0)), drv.all_shapes(6), ihmax=[1, 2, 1000], name="tiny-range")
    add("product", (0.0, 1e30, 3e38), drv.all_shapes(6), ihmax=[1, 2, 1000], name="huge-values")
    # level counts far above the number of bins and above a million ("ihmax from 1 upward": scratch arrays sized by the level count)
    add("misc", a3, [(1, 1), (2, 3), (8, 8)], ihmax=[65536, 1048577, 3000000], nshard=16, name="huge-level-counts", alarm=600)
    return out


def run_cjob(job):
    r = drv.run_driver(job)
    res = {"evals": 0, "n_nontrivial": 0, "violations": [], "samples": [], "outcomes": {}, "parts": {}}
    st = r["stats"]
    if r["death"] or st is None or r["rc"] not in (0, 1):
        d = r["death"][0] if r["death"] else None
        what = d["what"] if d else "no-report"
        case = dict(level="c", nk=d["nk"], nth=d["nth"], ihmax=d["ihmax"], z=d["z"]) if d else dict(level="c", job=r["job"])
        kind = "sanitizer-report" if what == "sanitizer" else ("timeout" if what == "timeout" else "driver-died")
        res["violations"].append(Violation(PROP, "specpart.partition|%s|" % kind, "native routine: %s (rc=%s) at %s\n%s" % (
            what, r["rc"], {k: v for k, v in case.items() if k != "z"}, r["stderr"][-1500:]), case))
        if st is None:
            return res
    res["evals"] = st["calls"]
    res["n_nontrivial"] = st["checked_nontrivial"]
    res["parts"][job["name"]] = st["calls"]
    for v in r["viol"]:
        if v["what"].split(":")[0] in C20_CLAUSES:
            res["violations"].append(Violation(PROP, "specpart.partition|%s|" % v["what"].split(":")[0], "%s on %dx%d ihmax=%d z=%s" % (
                v["what"], v["nk"], v["nth"], v["ihmax"], v["z"]), dict(level="c", nk=v["nk"], nth=v["nth"], ihmax=v["ihmax"], z=v["z"])))
    for s in r["samples"][:1]:
        res["samples"].append(dict(engine="cdrv-asan", family=job["family"], nk=s["nk"], nth=s["nth"], ihmax=s["ihmax"], z=s["z"]))
    return res


# ---------------------------------------------------------------------------------------------
# python part: degenerate menu x all public operations
# ---------------------------------------------------------------------------------------------
def grids(seed):
    out = []
    for nf in (1, 2, 3, 4, 6, 7, 9):
        f = (0.05 + 0.003 * (seed % 3)) * 1.1 ** np.arange(nf)
        for nd in (1, 2, 3, 4):
            d = np.arange(nd) * (360.0 / nd) + (0.0 if nd < 3 else 5.0)
            out.append((f, d))
    # highest frequency above the tail threshold, linear spacing
    for nf in (1, 2, 3, 5):
        out.append((np.linspace(0.2, 0.5, nf) if nf > 1 else np.array([0.4]), np.arange(4) * 90.0))
    return out


def spectra_menu(nf, nd, full=True):
    """name -> array (nf, nd)"""
    m = {}
    m["zero"] = np.zeros((nf, nd))
    m["constant"] = np.full((nf, nd), 2.0)
    cells = [(i, j) for i in range(nf) for j in range(nd)]
    if not full and len(cells) > 8:
        cells = sorted(set([(0, 0), (0, nd - 1), (nf - 1, 0), (nf - 1, nd - 1), (nf // 2, nd // 2), (1, 0), (nf - 2, nd - 1)]))
    for i, j in cells:
        v = np.zeros((nf, nd))
        v[i, j] = 3.0
        m["single-bin(%d,%d)" % (i, j)] = v
    for i in range(nf):
        v = np.full((nf, nd), 0.1)
        v[i, :] = 1.0 + np.arange(nd)
        m["peak-at-freq-%d" % i] = v
    v = np.tile((1.0 + np.arange(nf))[:, None], (1, nd))
    m["monotone-up"] = v
    m["monotone-down"] = v[::-1].copy()
    m["tiny"] = np.full((nf, nd), 1e-12) * (1 + np.arange(nd))[None, :]
    m["huge"] = np.full((nf, nd), 1e12) * (1 + np.arange(nf))[:, None]
    return m


def op_table():
    """name -> fn(da, aux). Results are forced (values read) so lazy errors surface."""
    T = {}
    for s in ["hs", "hrms", "hmax", "tp", "fp", "tm01", "tm02", "dm", "dp", "dpm", "dspr", "dpspr", "swe", "sw", "gw", "alpha", "gamma",
              "goda", "crsd", "uss_x", "uss_y", "uss", "mss", "to_energy", "oned", "celerity", "wavelen", "fdspr"]:
        T[s] = (lambda da, aux, s=s: getattr(da.spec, s)())
    T["tp(smooth=False)"] = lambda da, aux: da.spec.tp(smooth=False)
    T["alpha(smooth=False)"] = lambda da, aux: da.spec.alpha(smooth=False)
    T["gamma(scaled=False)"] = lambda da, aux: da.spec.gamma(scaled=False)
    T["hs(tail=False)"] = lambda da, aux: da.spec.hs(tail=False)
    T["momf(2)"] = lambda da, aux: da.spec.momf(2)
    T["momd(1)"] = lambda da, aux: da.spec.momd(1)[0]
    T["mss(depth=10)"] = lambda da, aux: da.spec.mss(depth=10.0)
    T["uss(depth=10)"] = lambda da, aux: da.spec.uss(depth=10.0)
    T["celerity(depth=10)"] = lambda da, aux: da.spec.celerity(depth=10.0)
    T["stats(list)"] = lambda da, aux: da.spec.stats(["hs", "tp", "dpm", "dspr"])
    T["stats(dict)"] = lambda da, aux: da.spec.stats({"hs": {"tail": False}, "tp": {"smooth": False}}, names=["a", "b"])
    T["smooth(1,1)"] = lambda da, aux: da.spec.smooth(1, 1)
    T["smooth(3,3)"] = lambda da, aux: da.spec.smooth(3, 3)
    T["interp(freq)"] = lambda da, aux: da.spec.interp(freq=np.array([0.04, 0.08, 0.2]))
    T["interp(dir)"] = lambda da, aux: da.spec.interp(dir=np.array([0.0, 45.0, 200.0, 350.0]))
    T["interp(freq,dir,m0=False)"] = lambda da, aux: da.spec.interp(freq=np.array([0.06, 0.3]), dir=np.array([10.0, 100.0]), maintain_m0=False)
    T["interp_like(self)"] = lambda da, aux: da.spec.interp_like(da)
    T["rotate(90)"] = lambda da, aux: da.spec.rotate(90.0)
    T["rotate(7.5)"] = lambda da, aux: da.spec.rotate(7.5)
    T["split(none)"] = lambda da, aux: da.spec.split()
    T["scale_by_hs"] = lambda da, aux: da.spec.scale_by_hs("2*hs+0.1")
    T["scale_by_hs(windows)"] = lambda da, aux: da.spec.scale_by_hs("1.5*hs", hs_min=0.1, tp_min=2.0, dpm_max=300.0)
    T["ptm1"] = lambda da, aux: da.spec.partition.ptm1(aux["wspd"], aux["wdir"], aux["dpt"])
    T["ptm2"] = lambda da, aux: da.spec.partition.ptm2(aux["wspd"], aux["wdir"], aux["dpt"])
    T["ptm3"] = lambda da, aux: da.spec.partition.ptm3()
    T["ptm3(smooth)"] = lambda da, aux: da.spec.partition.ptm3(smooth=True)
    T["ptm1(smooth,ihmax=1)"] = lambda da, aux: da.spec.partition.ptm1(aux["wspd"], aux["wdir"], aux["dpt"], smooth=True, ihmax=1)
    T["ptm4"] = lambda da, aux: da.spec.partition.ptm4(aux["wspd"], aux["wdir"], aux["dpt"])
    T["ptm5(inside)"] = lambda da, aux: da.spec.partition.ptm5(fcut=float(da.freq.values.mean()))
    T["ptm5(node)"] = lambda da, aux: da.spec.partition.ptm5(fcut=float(da.freq.values[0]))
    T["bbox"] = lambda da, aux: da.spec.partition.bbox([dict(fmin=float(da.freq.min()) * 0.5, fmax=float(da.freq.max()) * 0.9 + 0.01, dmin=1.0, dmax=100.0)])
    T["bbox(no-limits)"] = lambda da, aux: da.spec.partition.bbox([dict(fmin=float(da.freq.min()) * 0.5)])
    T["ptm1_track"] = lambda da, aux: da.spec.partition.ptm1_track(aux["wspd"], aux["wdir"], aux["dpt"])
    # a transform followed by a statistic: spectra without a direction dimension (oned(), isel(dir=k)) and band limits
    fmid = lambda da: (float(da.freq.values.min()) * 1.01, float(da.freq.values.max()) * 0.99)  # noqa
    T["oned().split(band)"] = lambda da, aux: da.spec.oned().spec.split(fmin=fmid(da)[0], fmax=fmid(da)[1]) if da.freq.size > 1 else da.spec.oned().spec.split()
    T["oned().stats(band)"] = lambda da, aux: da.spec.oned().spec.stats(["hs", "tp", "tm01"], fmax=fmid(da)[1]) if da.freq.size > 1 else da.spec.oned().spec.stats(["hs"])
    T["isel(dir=0).stats"] = lambda da, aux: da.isel(dir=0, drop=True).spec.stats(["hs", "tm02", "tp"])
    T["smooth().hs()"] = lambda da, aux: da.spec.smooth(1, 1).spec.hs()
    T["interp(freq).tp()"] = lambda da, aux: da.spec.interp(freq=np.array([0.04, 0.08, 0.2])).spec.tp()
    T["dataset.hs"] = lambda da, aux: da.to_dataset().spec.hs()
    T["dataset.stats"] = lambda da, aux: da.to_dataset().spec.stats(["hs", "tp"])
    return T


def force(r):
    import xarray as xr

    if isinstance(r, tuple):
        return [force(x) for x in r]
    if isinstance(r, xr.Dataset):
        return {k: np.asarray(v.values) for k, v in r.data_vars.items()}
    if isinstance(r, xr.DataArray):
        return np.asarray(r.values)
    return r


def build(f, d, S, layout):
    import xarray as xr

    c = {"freq": f, "dir": d}
    if layout == "none":
        da = xr.DataArray(S, dims=["freq", "dir"], coords=c, name="efth")
        aux = dict(wspd=xr.DataArray(10.0), wdir=xr.DataArray(30.0), dpt=xr.DataArray(40.0))
        return da, aux
    t = (np.datetime64("2020-01-01") + np.arange(3) * np.timedelta64(1, "h")).astype("datetime64[ns]")
    c["time"] = t
    if layout == "time":
        da = xr.DataArray(np.stack([S, S * 0.5, S]), dims=["time", "freq", "dir"], coords=c, name="efth")
        w = xr.DataArray(np.array([10.0, 0.0, 25.0]), dims=["time"], coords={"time": t})
        return da, dict(wspd=w, wdir=w * 3, dpt=w * 0 + 40.0)
    c["site"] = [1, 2]
    da = xr.DataArray(np.stack([np.stack([S, S * 2]), np.stack([S * 0, S]), np.stack([S, S])]), dims=["time", "site", "freq", "dir"], coords=c, name="efth")
    w = xr.DataArray(np.array([[10.0, 5.0], [0.0, 12.0], [25.0, 7.0]]), dims=["time", "site"], coords={"time": t, "site": [1, 2]})
    # the same coordinates attached in another order: a coords dict written the other way round, a per-site depth broadcast along time
    wdir = xr.DataArray(w.values * 3, dims=["time", "site"], coords={"site": [1, 2], "time": t})
    dpt = xr.DataArray(np.array([40.0, 15.0]), dims=["site"], coords={"site": [1, 2]}).broadcast_like(w)
    return da, dict(wspd=w, wdir=wdir, dpt=dpt)


def grid_pred(f, d):
    p = "nf=%s" % (len(f) if len(f) <= 3 else ">3")
    p += ",nd=%s" % (len(d) if len(d) <= 2 else ">2")
    return p


def spec_pred(name):
    return name.split("(")[0].split("-at-")[0]


def run_py(it):
    common.load_wavespectra()
    f, d = it["f"], it["d"]
    T = op_table()
    menu = spectra_menu(len(f), len(d), it.get("full", True))
    res = {"evals": 0, "n_nontrivial": 0, "violations": [], "samples": [], "outcomes": {}, "parts": {}}
    fails = {}  # (op, exc) -> {spectrum pred: first case}
    npred = {}
    for sname, S in menu.items():
        npred[spec_pred(sname)] = 1
        for layout in it["layouts"]:
            da, aux = build(f, d, S, layout)
            for oname, fn in T.items():
                if oname == "ptm1_track" and layout == "none":
                    continue
                res["evals"] += 1
                try:
                    force(fn(da, aux))
                    res["outcomes"]["returned"] = res["outcomes"].get("returned", 0) + 1
                except Exception as e:  # noqa
                    res["outcomes"]["raised"] = res["outcomes"].get("raised", 0) + 1
                    fails.setdefault((oname, type(e).__name__), {}).setdefault(spec_pred(sname), (
                        "%s on %s spectrum (nf=%d, nd=%d, layout %s) raised %s: %s" % (oname, sname, len(f), len(d), layout, type(e).__name__, str(e)[:300]),
                        dict(level="py", f=f, d=d, efth=S, layout=layout, op=oname, spectrum=sname)))
            res["n_nontrivial"] += 1
    for (oname, exc), byspec in fails.items():
        which = "any-spectrum" if len(byspec) == len(npred) else "+".join(sorted(byspec))
        msg, case = list(byspec.values())[0]
        res["violations"].append(Violation(PROP, "%s|raises-%s|%s,%s" % (oname, exc, grid_pred(f, d), which), msg, dict(case, which=which)))
    res["parts"]["python-degenerate"] = res["evals"]
    res["samples"].append(dict(engine="python", freq=f, dir=d, spectra=list(menu)[:6], ops=len(T)))
    return res


def invalid_args():
    """(name, fn(da, aux)) each must raise ValueError"""
    L = []
    L.append(("smooth(even freq window)", lambda da, aux: da.spec.smooth(2, 3)))
    L.append(("smooth(even dir window)", lambda da, aux: da.spec.smooth(3, 4)))
    L.append(("split(fmax<=fmin)", lambda da, aux: da.spec.split(fmin=0.2, fmax=0.1)))
    L.append(("split(fmax==fmin)", lambda da, aux: da.spec.split(fmin=0.1, fmax=0.1)))
    L.append(("split(dmax<=dmin)", lambda da, aux: da.spec.split(dmin=200.0, dmax=100.0)))
    L.append(("stats(unknown name)", lambda da, aux: da.spec.stats(["hs", "nosuchstat"])))
    L.append(("stats(non-callable attr)", lambda da, aux: da.spec.stats(["freq"])))
    L.append(("stats(names length)", lambda da, aux: da.spec.stats(["hs", "tp"], names=["a"])))
    L.append(("stats(not a container)", lambda da, aux: da.spec.stats("hs")))
    L.append(("bbox(overlap)", lambda da, aux: da.spec.partition.bbox([dict(fmin=0.05, fmax=0.2, dmin=0.0, dmax=180.0), dict(fmin=0.1, fmax=0.3, dmin=90.0, dmax=270.0)])))
    L.append(("bbox(fmin>=fmax)", lambda da, aux: da.spec.partition.bbox([dict(fmin=0.3, fmax=0.1)])))
    L.append(("hp01(wstype=3)", lambda da, aux: da.spec.partition.hp01(wstype=3)))
    L.append(("fit_jonswap(nothing requested)", lambda da, aux: da.spec.fit_jonswap(spectra=False, params=False)))
    L.append(("fit_gaussian(nothing requested)", lambda da, aux: da.spec.fit_gaussian(spectra=False, params=False)))
    L.append(("momd on 1d", lambda da, aux: da.spec.oned().spec.momd(1)))
    L.append(("dm on 1d", lambda da, aux: da.spec.oned().spec.dm()))
    L.append(("dspr on 1d", lambda da, aux: da.spec.oned().spec.dspr()))
    L.append(("dp on 1d", lambda da, aux: da.spec.oned().spec.dp()))
    L.append(("dpm on 1d", lambda da, aux: da.spec.oned().spec.dpm()))
    L.append(("uss_x on 1d", lambda da, aux: da.spec.oned().spec.uss_x()))
    L.append(("_interp_freq outside range", lambda da, aux: da.spec._interp_freq(5.0)))
    L.append(("sel(unknown method)", lambda da, aux: sel_ds(da).spec.sel([0.0], [0.0], method="cubic")))
    L.append(("Partition(non xarray)", lambda da, aux: __import__("wavespectra.partition.partition", fromlist=["Partition"]).Partition(np.zeros(3))))
    L.append(("interp_spec(3d)", lambda da, aux: __import__("wavespectra.core.utils", fromlist=["interp_spec"]).interp_spec(np.zeros((2, 2, 2)), [1, 2], [1, 2])))
    return L


def sel_ds(da):
    import xarray as xr
    ds = da.expand_dims(site=[1]).to_dataset()
    ds["lon"] = xr.DataArray([10.0], dims=["site"])
    ds["lat"] = xr.DataArray([0.0], dims=["site"])
    return ds


def run_invalid(it):
    common.load_wavespectra()
    f = 0.05 * 1.1 ** np.arange(8)
    d = np.arange(8) * 45.0
    S = gen.distinct_values(8, 8)
    da, aux = build(f, d, S, "none")
    res = {"evals": 0, "n_nontrivial": 0, "violations": [], "samples": [], "outcomes": {}, "parts": {}}
    for name, fn in invalid_args():
        res["evals"] += 1
        res["n_nontrivial"] += 1
        try:
            force(fn(da, aux))
            got = "returned"
        except ValueError:
            got = "ValueError"
        except Exception as e:  # noqa
            got = type(e).__name__ + ": " + str(e)[:200]
        res["outcomes"]["invalid->" + got.split(":")[0]] = res["outcomes"].get("invalid->" + got.split(":")[0], 0) + 1
        if got != "ValueError":
            res["violations"].append(Violation(PROP, "%s|invalid-argument-not-ValueError|%s" % (name, got.split(":")[0]),
                                               "invalid argument case '%s': expected ValueError, got %s" % (name, got), dict(level="invalid", name=name)))
    res["parts"]["invalid-arguments"] = res["evals"]
    res["samples"].append(dict(engine="python", invalid_argument_cases=[n for n, _ in invalid_args()][:8]))
    return res


def replay(case):
    common.load_wavespectra()
    if case.get("level") == "big":
        return run_big(dict(shape=case["shape"]))["violations"]
    if case.get("level") == "c":
        if "z" not in case:
            return []
        from wavespectra.partition import specpart
        nk, nth = int(case["nk"]), int(case["nth"])
        z = np.array(case["z"], dtype=np.float32).reshape(nk, nth)
        # replay through a one-case driver run (sanitized)
        job = dict(family="misc", alpha=[0.0, 1.0], shapes=[(nk, nth)], ihmax=[int(case["ihmax"])], shifts=False, asan=True, interleave=False, name="replay")
        r = run_cjob(job)
        specpart.partition(z, int(case["ihmax"]))
        return r["violations"]
    if case.get("level") == "invalid":
        r = run_invalid({})
        return [v for v in r["violations"] if v.case.get("name") == case["name"]]
    f, d, S = np.asarray(case["f"], float), np.asarray(case["d"], float), np.asarray(case["efth"], float)
    da, aux = build(f, d, S, case["layout"])
    fn = op_table()[case["op"]]
    try:
        force(fn(da, aux))
        return []
    except Exception as e:  # noqa
        sig = "%s|raises-%s|%s,%s" % (case["op"], type(e).__name__, grid_pred(f, d), case.get("which", spec_pred(case["spectrum"])))
        return [Violation(PROP, sig, "%s raised %s: %s" % (case["op"], type(e).__name__, e), case)]


def big_case(shape):
    """Two smooth humps on a grid of more than a million bins (scratch arrays sized by the number of bins)."""
    nk, nth = shape
    k = np.arange(nk, dtype=np.float64)[:, None] / max(nk - 1, 1)
    t = np.arange(nth, dtype=np.float64)[None, :] / max(nth, 1)
    if nth == 1:
        z = np.exp(-((k - 0.25) / 0.05) ** 2) + 0.5 * np.exp(-((k - 0.75) / 0.05) ** 2) + 0 * t
    elif nk == 1:
        z = np.exp(-((t - 0.25) / 0.05) ** 2) + 0.5 * np.exp(-((t - 0.75) / 0.05) ** 2) + 0 * k
    else:
        z = np.exp(-((k - 0.3) / 0.1) ** 2 - ((t - 0.25) / 0.1) ** 2) + 0.5 * np.exp(-((k - 0.7) / 0.1) ** 2 - ((t - 0.75) / 0.1) ** 2)
    return np.ascontiguousarray(z, dtype=np.float32)


def run_big(it):
    """The native routine through the extension on grids above a million bins: must return labels 1..n covering the grid (a crash of the
    worker is reported by the pool as a violation naming this item)."""
    from wavespectra.partition import specpart
    res = {"evals": 0, "n_nontrivial": 0, "violations": [], "samples": [], "outcomes": {}, "parts": {}}
    shape = tuple(it["shape"])
    z = big_case(shape)
    before = z.copy()
    for ihmax in (100, 1000):
        res["evals"] += 1
        case = dict(level="big", shape=list(shape), ihmax=ihmax)
        try:
            lab = np.asarray(specpart.partition(z, ihmax))
        except Exception as e:  # noqa
            res["violations"].append(Violation(PROP, "specpart.partition|raises-%s|grid>1e6-bins" % type(e).__name__, "partition raised on a %dx%d grid: %s" % (shape + (e,)), case))
            continue
        n = int(lab.max())
        ok = lab.shape == shape and lab.min() >= 1 and n >= 2 and len(np.unique(lab)) == n
        if not ok:
            res["violations"].append(Violation(PROP, "specpart.partition|label-out-of-range|grid>1e6-bins", "labels of a %dx%d two-hump grid: shape %s, min %s, max %s, distinct %d" % (
                shape + (lab.shape, lab.min(), lab.max(), len(np.unique(lab)))), case))
        if not np.array_equal(z, before):
            res["violations"].append(Violation(PROP, "specpart.partition|input-modified|grid>1e6-bins", "input changed by the call on a %dx%d grid" % shape, case))
        res["n_nontrivial"] += 1
        k = "big:%dx%d:basins=%d" % (shape + (n,))
        res["outcomes"][k] = res["outcomes"].get(k, 0) + 1
    res["parts"]["python-grids>1e6-bins"] = res["evals"]
    return res


def run(rep, tier, seed, parts=None):
    common.load_wavespectra()
    rep.rule = ("native: every grid shape 1x1..8x8 with misc/impulse/impulse-pair families, full products over 3-value alphabets up to "
                "8/10 cells and 2-value alphabets up to 12/14 cells, 3-bump families, tiny and huge value ranges, x ihmax {1,2,3,10,100,"
                "1000}, plus level counts 65536, 2**20+1 and 3e6 on 1x1, 2x3 and 8x8, run round-robin over the shapes so the grid shape changes at every call, under clang ASan+UBSan with a 60 s "
                "watchdog; python: ~70 public operations x degenerate spectra (zero, constant, every single-bin impulse, peak on every "
                "frequency incl. first/last, monotone, tiny, huge) x grids nf in {1,2,3,4,6,7,9} x nd in {1,2,3,4} (so 0, 1 and 2+ "
                "frequencies fall in the alpha window) x 3 layouts must not raise; the extension on two-hump grids of 1100x1000, 1x1.2e6 and 1.2e6x1 bins; 24 invalid-argument classes must raise ValueError. "
                "Non-trivial: native = (spectrum, ihmax) with >=2 basins; python = one (spectrum, layout) block of operations.")
    rep.assumptions = ["the driver links the repo's specpart.c; specpart_wrap.c is exercised by the python part without sanitizers",
                       "ASan leak detection is off: partinit/ptnghb leak one neighbour table per shape change (outside every property)",
                       "hp01 (documented as under development), plotting, fit_jonswap/fit_gaussian and file IO are outside this check"]
    items = []
    if parts is None or "c" in parts:
        common.build_cdriver(True)
        items += [dict(kind="c", job=j) for j in c_jobs(tier, seed)]
    if parts is None or "py" in parts:
        for f, d in grids(seed):
            if tier == "thorough":
                lay = ["none", "time", "time_site"]
            else:
                lay = ["none", "time_site"] if (len(f), len(d)) in ((1, 1), (2, 2), (3, 4), (7, 4), (9, 3), (1, 4)) else ["none"]
            items.append(dict(kind="py", f=f, d=d, layouts=lay, full=(tier == "thorough")))
        items.append(dict(kind="invalid"))
        for shape in ((1100, 1000), (1, 1200000), (1200000, 1)):
            items.append(dict(kind="big", shape=shape))

    def dispatch(it):
        if it["kind"] == "c":
            return run_cjob(it["job"])
        if it["kind"] == "big":
            return run_big(it)
        if it["kind"] == "py":
            return run_py(it)
        return run_invalid(it)

    for res in common.pmap(dispatch, items):
        rep.merge(res)
