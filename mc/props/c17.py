"""C17 - no operation modifies the data it is given (E2: every operation and every ordered pair of operations,
on every input variant, with a deep snapshot of every argument object before and after)."""
from __future__ import annotations

import copy
import hashlib
import inspect
import itertools
import os
import shutil
import tempfile
import numpy as np

from mc import common
from mc.common import Violation

PROP = "C17"
LEVEL = "exploration"
VARIANTS = ["numpy", "view", "readonly", "dask", "float32nan", "intdir"]


# ---------------------------------------------------------------------------------------------
# world of argument objects
# ---------------------------------------------------------------------------------------------
def make_world(variant, seed=0):
    """Everything a caller owns: dataset, arrays, lists, dicts. Returns dict name -> object (+ hidden '_buffers')."""
    import xarray as xr

    nt, ns, nf, nd = 3, 3, 6, 8
    f = 0.04 * 1.3 ** np.arange(nf)
    d = np.arange(nd) * 45.0
    i, j = np.meshgrid(np.arange(nf), np.arange(nd), indexing="ij")
    base = 30.0 / (1 + (i - 2) ** 2 + np.minimum((j - 3) % nd, (3 - j) % nd) ** 2) + 9.0 / (1 + (i - 4) ** 2 + np.minimum((j - 6) % nd, (6 - j) % nd) ** 2)
    data = np.stack([np.stack([base * (1 + 0.3 * t + 0.1 * s) + 0.01 * (t + s) for s in range(ns)]) for t in range(nt)])
    buffers = {}

    def own(name, arr):
        """return the array the caller hands over, according to the variant"""
        arr = np.ascontiguousarray(arr, dtype=float)
        if variant == "float32nan" and name == "efth":
            a = arr.astype(np.float32)
            a[1, 2] = np.nan              # one all-missing spectrum (e.g. a land point at one time)
            a[2, 0, 3, 4:6] = np.nan      # and a masked sector
            buffers[name] = a
            return a
        if variant == "view":
            big = np.full((2,) + arr.shape, -555.0)
            big[1] = arr
            buffers[name] = big
            return big[1]
        if variant == "readonly":
            a = arr.copy()
            a.flags.writeable = False
            buffers[name] = a
            return a
        buffers[name] = arr
        return arr

    times = (np.datetime64("2021-03-01T00:00:00") + np.arange(nt) * np.timedelta64(3, "h")).astype("datetime64[ns]")
    ds = xr.Dataset(
        {
            "efth": (("time", "site", "freq", "dir"), own("efth", data)),
            "wspd": (("time", "site"), own("wspd", 5.0 + 4.0 * np.arange(nt * ns).reshape(nt, ns))),
            "wdir": (("time", "site"), own("wdir", (30.0 * np.arange(nt * ns).reshape(nt, ns)) % 360)),
            "dpt": (("time", "site"), own("dpt", 20.0 + 10.0 * np.arange(nt * ns).reshape(nt, ns))),
            "lon": (("site",), own("lon", np.array([359.5, 0.5, 2.0]))),
            "lat": (("site",), own("lat", np.array([-1.0, 0.0, 1.0]))),
        },
        coords={"time": times, "site": np.array([1, 2, 3]), "freq": own("freq", f),
                "dir": (np.arange(nd, dtype=np.int64) * 45) if variant == "intdir" else own("dir", d)},   # whole degrees stored as integers
        attrs={"title": "caller dataset", "history": "made by the caller"},
    )
    ds["efth"].attrs = {"units": "m2/Hz/deg", "note": "mine"}
    ds["efth"].encoding = {"dtype": "float32", "_FillValue": -999.0}
    ds["freq"].attrs = {"units": "Hz"}
    if variant == "dask":
        ds = ds.chunk({"time": 1, "site": 2})
    w = {"ds": ds}
    w["other"] = xr.DataArray(own("other", base[::2, ::2] + 1.0), dims=["freq", "dir"], coords={"freq": f[::2].copy(), "dir": d[::2].copy()}, name="efth")
    w["newfreq"] = own("newfreq", np.array([0.03, 0.06, 0.09, 0.2]))
    w["newdir"] = own("newdir", np.array([350.0, 0.0, 10.0, 100.0, 200.0]))
    w["lons"] = [0.2, 359.8, 1.5]
    w["lats"] = [0.1, -0.5, 0.9]
    w["lons180"] = [-0.4, 0.3, 1.8]            # the other longitude convention (forces a convention swap inside sel)
    w["lons360_arr"] = own("lons360_arr", np.array([359.6, 0.3, 1.8]))   # query handed over as arrays, not lists
    w["lats_arr"] = own("lats_arr", np.array([0.1, -0.5, 0.9]))
    w["ds180"] = xr.Dataset({"efth": (("site", "freq", "dir"), own("ds180_efth", data[0]))},
                            coords={"site": np.array([1, 2, 3]), "freq": f.copy(), "dir": d.copy()})
    w["ds180"]["lon"] = (("site",), own("ds180_lon", np.array([-0.5, 0.5, 2.0])))
    w["ds180"]["lat"] = (("site",), own("ds180_lat", np.array([-1.0, 0.0, 1.0])))
    w["dset_lons"] = own("dset_lons", np.array([359.5, 0.5, 2.0]))
    w["dset_lats"] = own("dset_lats", np.array([-1.0, 0.0, 1.0]))
    # native-convention datasets (WW3 and SWAN netCDF layouts) owned by the caller
    w["ww3"] = xr.Dataset({"efth": (("time", "station", "frequency", "direction"), own("ww3_efth", data[:, :, :, :] * 57.3)),
                           "wnd": (("time", "station"), own("ww3_wnd", 5.0 + np.arange(nt * ns, dtype=float).reshape(nt, ns)))},
                          coords={"time": times, "station": np.arange(ns), "frequency": f.copy(), "direction": (d + 180.0) % 360})
    w["ncswan"] = xr.Dataset({"density": (("time", "points", "frequency", "direction"), own("swan_density", data * 57.3)),
                              "depth": (("time", "points"), own("swan_depth", 20.0 + np.arange(nt * ns, dtype=float).reshape(nt, ns)))},
                             coords={"time": times, "frequency": f.copy(), "direction": np.radians(d)})
    w["stats_list"] = ["hs", "tp", "dpm"]
    w["stats_dict"] = {"hs": {"tail": False}, "tp": {"smooth": False}}
    w["names"] = ["h", "t"]
    w["bboxes"] = [dict(fmin=0.05, fmax=0.07, dmin=10.0, dmax=100.0), dict(fmin=0.08, fmax=0.2)]
    w["freq_kwargs"] = {"freq": f.copy(), "hs": 2.0, "fp": 0.1}
    w["dir_kwargs"] = {"dir": d.copy(), "dm": 90.0, "dspr": 30.0}
    w["da1d"] = xr.DataArray(own("da1d", (data[:, :, :, :].sum(axis=3) * 45.0)[0]), dims=["site", "freq"], coords={"site": np.array([1, 2, 3]), "freq": f.copy()}, name="efth")
    # station dataset whose wind/depth are shared by all stations (no site dimension) and carry the caller's own attributes
    w["ds_shared"] = xr.Dataset({"efth": (("time", "site", "freq", "dir"), own("shared_efth", data)),
                                 "wspd": (("time",), own("shared_wspd", np.array([5.0, 9.0, 14.0]))),
                                 "dpt": ((), 35.0)},
                                coords={"time": times, "site": np.array([1, 2, 3]), "freq": f.copy(), "dir": d.copy()})
    w["ds_shared"]["lon"] = (("site",), own("shared_lon", np.array([359.5, 0.5, 2.0])))
    w["ds_shared"]["lat"] = (("site",), own("shared_lat", np.array([-1.0, 0.0, 1.0])))
    w["ds_shared"]["wspd"].attrs = {"long_name": "wind at the mast", "units": "knots", "height": "23 m"}
    w["ds_shared"]["dpt"].attrs = {"units": "fathom"}
    # one time step of a station dataset that has no lon/lat at all (time is left as a scalar coordinate)
    w["ds_t0"] = xr.Dataset({"efth": (("time", "site", "freq", "dir"), own("t0_efth", data))},
                            coords={"time": times, "site": np.array([1, 2, 3]), "freq": f.copy(), "dir": d.copy()}).isel(time=0)
    w["hsarr"] = xr.DataArray(own("hsarr", np.array([1.0, 2.0, 3.0])), dims=["site"], coords={"site": np.array([1, 2, 3])})
    w["_buffers"] = buffers
    return w


def fingerprint(obj):
    """deep, bitwise fingerprint of a caller-owned object"""
    import xarray as xr

    h = hashlib.sha256()

    def upd(tag, x):
        h.update(("<%s>" % tag).encode())
        if isinstance(x, np.ndarray):
            h.update(str(x.dtype).encode() + str(x.shape).encode() + str(x.flags["C_CONTIGUOUS"]).encode())
            h.update(np.ascontiguousarray(x).tobytes())
        else:
            h.update(repr(x).encode())

    def var(name, v):
        upd(name + ".dims", tuple(v.dims))
        upd(name + ".dtype", str(v.dtype))
        upd(name + ".chunks", getattr(v, "chunks", None))
        upd(name + ".values", np.asarray(v.values))
        upd(name + ".attrs", deep(v.attrs))
        upd(name + ".encoding", deep(v.encoding))

    def deep(x):
        if isinstance(x, dict):
            return tuple((k, deep(v)) for k, v in x.items())
        if isinstance(x, (list, tuple)):
            return tuple(deep(v) for v in x)
        if isinstance(x, np.ndarray):
            return (str(x.dtype), x.shape, x.tobytes())
        return repr(x)

    if isinstance(obj, xr.Dataset):
        upd("vars", tuple(obj.variables))
        upd("dims", tuple(obj.sizes.items()))
        upd("attrs", deep(obj.attrs))
        upd("encoding", deep(obj.encoding))
        for k in obj.variables:
            var(str(k), obj.variables[k])
    elif isinstance(obj, xr.DataArray):
        upd("name", obj.name)
        var("self", obj.variable)
        for k in obj.coords:
            var("coord." + str(k), obj.coords[k].variable)
    elif isinstance(obj, np.ndarray):
        upd("arr", obj)
    else:
        upd("obj", deep(obj))
    return h.hexdigest()


def snapshot(w):
    snap = {}
    for k, v in w.items():
        if k == "_buffers":
            for bk, bv in v.items():
                snap["buffer:" + bk] = fingerprint(bv)
        else:
            snap[k] = fingerprint(v)
    return snap


# ---------------------------------------------------------------------------------------------
# operation alphabet (introspection + argument menus)
# ---------------------------------------------------------------------------------------------
def arg_menu():
    """method name -> list of callables(w) -> (args, kwargs)"""
    A = {}
    A["momf"] = [lambda w: ((2,), {})]
    A["momd"] = [lambda w: ((1,), {})]
    A["fdspr"] = [lambda w: ((), {})]
    A["split"] = [lambda w: ((), dict(fmin=0.06, fmax=0.1, dmin=40.0, dmax=200.0)), lambda w: ((), dict(fmin=0.055))]
    A["stats"] = [lambda w: ((w["stats_list"],), {}), lambda w: ((w["stats_dict"],), dict(names=w["names"])),
                  lambda w: ((w["stats_list"],), dict(fmin=0.06, dmax=180.0))]
    A["rotate"] = [lambda w: ((45.0,), {}), lambda w: ((7.3,), {})]
    A["smooth"] = [lambda w: ((), dict(freq_window=3, dir_window=3))]
    A["interp"] = [lambda w: ((), dict(freq=w["newfreq"], dir=w["newdir"])), lambda w: ((), dict(freq=w["newfreq"], maintain_m0=False))]
    A["interp_like"] = [lambda w: ((w["other"],), {})]
    A["scale_by_hs"] = [lambda w: (("2*hs",), dict(hs_min=0.5, tp_max=15.0))]
    A["celerity"] = [lambda w: ((), {}), lambda w: ((), dict(depth=10.0))]
    A["wavelen"] = [lambda w: ((), dict(depth=10.0))]
    A["uss_x"] = [lambda w: ((), dict(depth=10.0))]
    A["mss"] = [lambda w: ((), dict(depth=10.0))]
    A["rmse"] = [lambda w: ((w["ds"].efth * 1.1,), {})]
    A["fit_jonswap"] = [lambda w: ((), {})]
    A["fit_gaussian"] = [lambda w: ((), {})]
    A["sel"] = [lambda w, m=m: ((w["lons"], w["lats"]), dict(method=m, tolerance=5.0)) for m in ("idw", "nearest", "bbox")] + \
               [lambda w: (([359.5, 2.0], [-1.0, 1.0]), dict(method=None))] + \
               [lambda w: ((w["lons"], w["lats"]), dict(method="nearest", tolerance=5.0, dset_lons=w["ds"].lon.values, dset_lats=w["ds"].lat.values))] + \
               [lambda w, m=m: ((w["lons180"], w["lats"]), dict(method=m, tolerance=5.0)) for m in ("idw", "nearest", "bbox")] + \
               [lambda w, m=m: ((w["lons180"], w["lats"]), dict(method=m, tolerance=5.0, dset_lons=w["dset_lons"], dset_lats=w["dset_lats"])) for m in ("idw", "nearest", "bbox")]
    A["hs"] = [lambda w: ((), {}), lambda w: ((), dict(tail=False))]
    A["tp"] = [lambda w: ((), {}), lambda w: ((), dict(smooth=False))]
    return A


SKIP = {"plot", "to_orcaflex", "to_zarr"}  # plotting / external model object / missing backend


def build_ops(w0):
    """list of (name, callable(w, tmpdir)) discovered by introspection"""
    common.load_wavespectra()
    import xarray as xr
    from wavespectra.specarray import SpecArray
    from wavespectra.specdataset import SpecDataset
    from wavespectra.partition.partition import Partition

    A = arg_menu()
    ops = []
    uncovered = []

    def force(r):
        if isinstance(r, tuple):
            for x in r:
                force(x)
        elif isinstance(r, (xr.Dataset, xr.DataArray)):
            r.compute()

    def add_method(owner, getter, mname):
        menus = A.get(mname)
        if menus is None:
            menus = [lambda w: ((), {})]
        for k, m in enumerate(menus):
            def op(w, tmp, getter=getter, mname=mname, m=m):
                args, kw = m(w)
                force(getattr(getter(w), mname)(*args, **kw))
            ops.append(("%s.%s#%d" % (owner, mname, k), op))

    for mname in sorted(dir(SpecArray)):
        if mname.startswith("_") or mname in SKIP:
            continue
        attr = getattr(SpecArray, mname)
        if isinstance(attr, property):
            ops.append(("da.spec.%s" % mname, lambda w, tmp, mname=mname: getattr(w["ds"].efth.spec, mname)))
            continue
        if not callable(attr):
            continue
        add_method("da.spec", lambda w: w["ds"].efth.spec, mname)
        if mname in ("hs", "tp", "stats", "smooth", "interp", "split", "dpm", "crsd", "oned"):
            add_method("ds.spec", lambda w: w["ds"].spec, mname)
    for mname in sorted(set(dir(SpecDataset)) - set(dir(SpecArray))):
        if mname.startswith("_") or mname in SKIP or not callable(getattr(SpecDataset, mname, None)):
            continue
        if mname.startswith("to_"):
            continue
        add_method("ds.spec", lambda w: w["ds"].spec, mname)
    ops.append(("ds.spec._check_and_stack_dims", lambda w, tmp: w["ds"].spec._check_and_stack_dims()))
    # partitions
    P = lambda w: w["ds"].spec.partition  # noqa
    wind = lambda w: (w["ds"].wspd, w["ds"].wdir, w["ds"].dpt)  # noqa
    ops.append(("partition.ptm1", lambda w, tmp: P(w).ptm1(*wind(w), swells=2).compute()))
    ops.append(("partition.ptm1(smooth)", lambda w, tmp: P(w).ptm1(*wind(w), swells=2, smooth=True).compute()))
    ops.append(("partition.ptm2", lambda w, tmp: P(w).ptm2(*wind(w), swells=2).compute()))
    ops.append(("partition.ptm3", lambda w, tmp: P(w).ptm3(parts=3).compute()))
    ops.append(("partition.ptm4", lambda w, tmp: P(w).ptm4(*wind(w)).compute()))
    ops.append(("partition.ptm5", lambda w, tmp: P(w).ptm5(fcut=0.09).compute()))
    ops.append(("partition.bbox", lambda w, tmp: P(w).bbox(w["bboxes"]).compute()))
    ops.append(("partition.hp01", lambda w, tmp: P(w).hp01(*wind(w), swells=2).compute()))
    ops.append(("partition.ptm1_track", lambda w, tmp: P(w).ptm1_track(*wind(w), swells=2).compute()))
    known_part = {"ptm1", "ptm2", "ptm3", "ptm4", "ptm5", "bbox", "hp01", "ptm1_track"}
    for mname in dir(Partition):
        if not mname.startswith("_") and callable(getattr(Partition, mname)) and mname not in known_part:
            uncovered.append("Partition." + mname)
    # writers (every to_* found on the Dataset accessor)
    W = {
        "to_swan": lambda w, tmp: w["ds"].spec.to_swan(os.path.join(tmp, "a.swn")),
        "to_octopus": lambda w, tmp: w["ds"].isel(site=[0]).spec.to_octopus(os.path.join(tmp, "a.oct")),
        "to_json": lambda w, tmp: w["ds"].spec.to_json(os.path.join(tmp, "a.json")),
        "to_netcdf": lambda w, tmp: w["ds"].spec.to_netcdf(os.path.join(tmp, "a.nc"), ncformat="NETCDF3_64BIT", compress=False, packed=False),
        "to_ww3": lambda w, tmp: w["ds"].spec.to_ww3(os.path.join(tmp, "b.nc"), ncformat="NETCDF3_64BIT"),
        "to_funwave": lambda w, tmp: w["ds"].isel(time=0, site=0).spec.to_funwave(os.path.join(tmp, "fw.txt"), clip=False),
    }
    # writers that cannot complete (target directory missing / back end not available): the call raises, the caller's data must be untouched
    def failing_writers(w, tmp):
        missing = os.path.join(tmp, "no", "such", "dir")
        for call in (lambda: w["ds"].spec.to_netcdf(os.path.join(missing, "a.nc"), ncformat="NETCDF3_64BIT", compress=False, packed=False),
                     lambda: w["ds"].spec.to_netcdf(os.path.join(tmp, "b.nc"), ncformat="NOSUCHFORMAT"),
                     lambda: w["ds"].spec.to_netcdf(os.path.join(tmp, "c.nc"), ncformat="NETCDF3_64BIT", compress=True),
                     lambda: w["ds"].spec.to_swan(os.path.join(missing, "a.swn")),
                     lambda: w["ds_t0"].spec.to_swan(os.path.join(tmp, "t0.swn")),
                     lambda: w["ds_t0"].spec.to_swan(os.path.join(tmp, "t0b.swn"), lons=w["lons"], lats=w["lats"]),
                     lambda: w["ds_t0"].spec.to_octopus(os.path.join(tmp, "t0.oct")),
                     lambda: w["ds"].spec.to_json(os.path.join(missing, "a.json")),
                     lambda: w["ds"].spec.to_ww3(os.path.join(missing, "a.nc"), ncformat="NETCDF3_64BIT"),
                     lambda: w["ds"].isel(site=[0]).spec.to_octopus(os.path.join(missing, "a.oct"))):
            try:
                call()
            except Exception:  # noqa  (raising is the expected outcome; what matters is the snapshot afterwards)
                pass

    ops.append(("writers that raise", failing_writers))
    for mname in sorted(dir(SpecDataset)):
        if mname.startswith("to_") and mname not in SKIP:
            if mname in W:
                ops.append(("ds.spec." + mname, W[mname]))
            elif mname not in dir(SpecArray):
                uncovered.append("SpecDataset." + mname)

    # free functions
    def f_regrid(w, tmp):
        from wavespectra.core.utils import regrid_spec
        regrid_spec(w["ds"], freq=w["newfreq"], dir=w["newdir"]).compute()

    def f_regrid_list(w, tmp):
        from wavespectra.core.utils import regrid_spec
        regrid_spec(w["ds"].efth, freq=[0.05, 0.1], dir=[0.0, 90.0]).compute()

    def f_smooth(w, tmp):
        from wavespectra.core.utils import smooth_spec
        smooth_spec(w["ds"], 3, 3).compute()

    def f_scaled(w, tmp):
        from wavespectra.core.utils import scaled
        scaled(w["ds"].isel(time=0), w["hsarr"]).compute()

    def f_construct(w, tmp):
        from wavespectra.construct import construct_partition
        construct_partition("jonswap", "cartwright", w["freq_kwargs"], w["dir_kwargs"]).compute()

    def f_reconstruct(w, tmp):
        from wavespectra.construct import partition_and_reconstruct
        partition_and_reconstruct(w["ds"].isel(time=[0], site=[0]), parts=2, partition_method="ptm3").compute()

    def f_unique(w, tmp):
        from wavespectra.core.utils import unique_times
        unique_times(w["ds"]).compute()

    def f_read_dataset(w, tmp):
        from wavespectra import read_dataset
        read_dataset(w["ds"]).compute()

    def f_sel_funcs(w, tmp):
        from wavespectra.core.select import sel_nearest, sel_idw, sel_bbox
        lo, la = np.array(w["lons"]), np.array(w["lats"])
        sel_nearest(w["ds"], lo, la, tolerance=5.0).compute()
        sel_idw(w["ds"], lo, la, tolerance=5.0).compute()
        sel_bbox(w["ds"], lo, la, tolerance=1.0).compute()

    def f_native(w, tmp):
        from wavespectra import read_dataset
        from wavespectra.input.ww3 import from_ww3
        from wavespectra.input.ncswan import from_ncswan
        read_dataset(w["ww3"]).compute()
        from_ww3(w["ww3"]).compute()
        read_dataset(w["ncswan"]).compute()
        from_ncswan(w["ncswan"]).compute()

    ops.append(("read_dataset/from_<model>(native)", f_native))

    # frequency-only (1-D) spectra owned by the caller: every statistic that accepts them
    for mname in ("hs", "hrms", "hmax", "tp", "fp", "tm01", "tm02", "swe", "sw", "gw", "alpha", "gamma", "goda", "mss", "momf", "oned", "to_energy", "celerity", "wavelen", "split", "scale_by_hs"):
        def op1d(w, tmp, mname=mname):
            args, kw = {"momf": ((2,), {}), "split": ((), dict(fmin=0.06, fmax=0.1)), "scale_by_hs": (("2*hs",), {}), "mss": ((), dict(depth=12.0))}.get(mname, ((), {}))
            r = getattr(w["da1d"].spec, mname)(*args, **kw)
            force(r)
            if mname == "mss":
                force(w["da1d"].spec.mss())
        ops.append(("da1d.spec." + mname, op1d))

    def f_sel180(w, tmp):
        for m in ("nearest", "idw", "bbox"):
            w["ds180"].spec.sel(w["lons360_arr"], w["lats_arr"], method=m, tolerance=5.0).compute()
        from wavespectra.core.select import sel_nearest
        sel_nearest(w["ds180"], w["lons360_arr"], w["lats_arr"], tolerance=5.0).compute()

    ops.append(("sel(array query, other convention)", f_sel180))

    def f_sel_shared(w, tmp):
        for m in ("bbox", "nearest", "idw"):
            w["ds_shared"].spec.sel(w["lons"], w["lats"], method=m, tolerance=5.0).compute()

    ops.append(("sel(dataset with shared wind/depth)", f_sel_shared))
    for nm, fn in (("regrid_spec", f_regrid), ("regrid_spec(lists)", f_regrid_list), ("smooth_spec", f_smooth), ("scaled", f_scaled),
                   ("construct_partition", f_construct), ("partition_and_reconstruct", f_reconstruct), ("unique_times", f_unique),
                   ("read_dataset(wavespectra)", f_read_dataset), ("core.select.*", f_sel_funcs)):
        ops.append((nm, fn))
    return ops, uncovered


def diff(before, after):
    return [k for k in before if before[k] != after.get(k)]


def run_ops(variant, names, OPS, baseline_exc=None):
    """apply the named ops in order on a fresh world; returns (changed keys per step, exceptions per step)"""
    w = make_world(variant)
    tmp = tempfile.mkdtemp(prefix="c17_", dir="/tmp")
    changed, excs = [], []
    try:
        snap = snapshot(w)
        for nm in names:
            exc = None
            try:
                OPS[nm](w, tmp)
            except Exception as e:  # noqa
                exc = "%s: %s" % (type(e).__name__, str(e)[:160])
            after = snapshot(w)
            changed.append(diff(snap, after))
            excs.append(exc)
            snap = after
    finally:
        shutil.rmtree(tmp, ignore_errors=True)
    return changed, excs


def obj_pred(keys):
    k = sorted(set(x.split(":")[-1] if x.startswith("buffer:") else x for x in keys))
    return "+".join(k)


def work(item):
    common.load_wavespectra()
    ops, _ = build_ops(None)
    OPS = dict(ops)
    res = {"evals": 0, "n_nontrivial": 0, "violations": [], "samples": [], "outcomes": {}, "parts": {}}
    variant = item["variant"]
    for names in item["seqs"]:
        changed, excs = run_ops(variant, names, OPS)
        res["evals"] += 1
        res["n_nontrivial"] += 1
        for step, (ch, exc) in enumerate(zip(changed, excs)):
            nm = names[step]
            if ch:
                sig = "%s|input-modified|%s%s" % (nm.split("#")[0], obj_pred(ch), "" if len(names) == 1 or step == 0 else ",after-" + names[0].split("#")[0])
                res["violations"].append(Violation(PROP, sig, "after %s (sequence %s, %s-backed input) the caller's %s changed" % (nm, list(names), variant, ch),
                                                   dict(variant=variant, seq=list(names))))
            if exc is not None:
                res["outcomes"]["raised"] = res["outcomes"].get("raised", 0) + 1
                base = item["baseline_exc"].get(nm)
                if variant == "readonly" and base is None and len(names) == 1:
                    res["violations"].append(Violation(PROP, "%s|writes-into-read-only-input|" % nm.split("#")[0],
                                                       "%s raised on read-only input but not on writable input: %s" % (nm, exc), dict(variant=variant, seq=list(names))))
            else:
                res["outcomes"]["returned"] = res["outcomes"].get("returned", 0) + 1
    res["parts"]["%s:%s" % (variant, "single" if len(item["seqs"][0]) == 1 else "pairs")] = res["evals"]
    return res


def replay(case):
    common.load_wavespectra()
    ops, _ = build_ops(None)
    OPS = dict(ops)
    names = case["seq"]
    base_exc = {}
    if case["variant"] == "readonly":
        ch0, ex0 = run_ops("numpy", names, OPS)
        base_exc = {n: e for n, e in zip(names, ex0)}
    changed, excs = run_ops(case["variant"], names, OPS)
    out = []
    for step, (ch, exc) in enumerate(zip(changed, excs)):
        nm = names[step]
        if ch:
            sig = "%s|input-modified|%s%s" % (nm.split("#")[0], obj_pred(ch), "" if len(names) == 1 or step == 0 else ",after-" + names[0].split("#")[0])
            out.append(Violation(PROP, sig, "caller's %s changed after %s" % (ch, nm), case))
        if exc is not None and case["variant"] == "readonly" and base_exc.get(nm) is None and len(names) == 1:
            out.append(Violation(PROP, "%s|writes-into-read-only-input|" % nm.split("#")[0], exc, case))
    return out


def run(rep, tier, seed, parts=None):
    common.load_wavespectra()
    ops, uncovered = build_ops(None)
    names = [n for n, _ in ops]
    rep.rule = ("operation alphabet built by introspection of SpecArray / SpecDataset / Partition plus free functions and writers (%d "
                "operations with argument menus); every operation alone on each input variant {numpy-backed, view into a larger caller "
                "buffer, read-only buffers, dask-backed}, and every ordered pair of operations on the same objects (quick: numpy-backed; "
                "thorough: numpy and view); before/after deep snapshot (values bitwise, dims, dtype, chunks, attrs, encodings, owning "
                "buffers incl. the bytes outside a view, query lists, keyword dicts). Non-trivial = every executed sequence." % len(names))
    rep.assumptions = ["an operation that raises on read-only buffers but not on writable ones is counted as a write attempt",
                       "plotting, to_orcaflex (needs an OrcaFlex model object) and to_zarr (backend not installed) are skipped"]
    rep.extra["operations"] = names
    rep.extra["uncovered_by_menu"] = uncovered
    # baseline exceptions on the numpy variant (single ops), used to interpret the read-only variant
    OPS = dict(ops)
    base_exc = {}

    def base(nm):
        common.load_wavespectra()
        ch, ex = run_ops("numpy", [nm], dict(build_ops(None)[0]))
        return nm, ex[0]

    for r in common.pmap(base, names):
        if isinstance(r, common.Hang):
            rep.merge(r)
            continue
        base_exc[r[0]] = r[1]
    rep.extra["operations_raising_on_plain_input"] = {k: v for k, v in base_exc.items() if v}
    items = []
    for v in VARIANTS:
        for i in range(0, len(names), 6):
            items.append(dict(variant=v, seqs=[(n,) for n in names[i:i + 6]], baseline_exc=base_exc))
    pair_variants = ["numpy"] if tier == "quick" else ["numpy", "view"]
    pairs = list(itertools.permutations(names, 2)) + [(n, n) for n in names]
    if seed % 2:
        pairs = pairs[::-1]
    for v in pair_variants:
        for i in range(0, len(pairs), 40):
            items.append(dict(variant=v, seqs=pairs[i:i + 40], baseline_exc=base_exc))
    if parts and "single" in parts:
        items = [it for it in items if len(it["seqs"][0]) == 1]
    for res in common.pmap(work, items):
        rep.merge(res)
    rep.samples = [dict(variant="view", sequence=[names[3]]), dict(variant="numpy", sequence=list(pairs[len(pairs) // 2])), dict(variant="dask", sequence=[names[-3]])]
