"""C01 - integrated parameters equal their defining integrals (bounded-exhaustive inputs, E1)."""
from __future__ import annotations

import math
import numpy as np

from mc import common, gen
from mc.common import Violation

PROP = "C01"
LEVEL = "exploration"
G = 9.81
D2R = math.pi / 180.0
R2D = 180.0 / math.pi

DEPTHS = [None, 0.5, 2.0, 5.0, 20.0, 100.0, 4000.0]


# ---------------------------------------------------------------------------------------------
# reference model: loops over bins, vectorised over the batch only
# ---------------------------------------------------------------------------------------------
def ref_df(f):
    n = len(f)
    if n == 1:
        return np.array([1.0])
    df = np.empty(n)
    df[0] = f[1] - f[0]
    df[-1] = f[-1] - f[-2]
    for i in range(1, n - 1):
        df[i] = (f[i + 1] - f[i - 1]) / 2.0
    return df


def ref_dd(d):
    if d is None or len(d) < 2:
        return 1.0
    dif = abs(d[1] - d[0]) % 360.0
    return min(dif, 360.0 - dif) if dif > 180 else dif


def exact_k(f, h):
    """Wavenumber from w^2 = g k tanh(k h) by bisection (g = 9.81)."""
    w2 = (2 * math.pi * f) ** 2
    lo, hi = 0.0, max(w2 / G, math.sqrt(w2 / (G * h))) * 2 + 1e-12
    for _ in range(200):
        mid = 0.5 * (lo + hi)
        if G * mid * math.tanh(mid * h) < w2:
            lo = mid
        else:
            hi = mid
    return 0.5 * (lo + hi)


class Ref:
    """All reference statistics of a batch E[N,nf,nd] (nd may be absent -> 1D)."""

    def __init__(self, f, d, E):
        self.f = np.asarray(f, dtype=np.float64)
        self.d = None if d is None else np.asarray(d, dtype=np.float64)
        self.E = np.asarray(E, dtype=np.float64)
        self.N = self.E.shape[0]
        self.nf = len(self.f)
        self.df = ref_df(self.f)
        self.dd = ref_dd(self.d)
        if self.d is None:
            self.S = self.E.copy()
        else:
            S = np.zeros((self.N, self.nf))
            for j in range(len(self.d)):
                S += self.E[:, :, j]
            self.S = S * self.dd

    def m(self, n):
        acc = np.zeros(self.N)
        for i in range(self.nf):
            acc += self.S[:, i] * self.df[i] * self.f[i] ** n
        return acc

    def etot(self, tail=True):
        e = self.m(0)
        if tail and self.f[-1] > 0.333:
            e = e + 0.25 * self.S[:, -1] * self.f[-1]
        return e

    def hs(self, tail=True):
        return 4 * np.sqrt(self.etot(tail))

    def hrms(self, tail=True):
        return np.sqrt(8 * self.etot(tail))

    def sc(self, weighted):
        """sum E sin(d), sum E cos(d) over all bins, df-weighted or not."""
        s = np.zeros(self.N)
        c = np.zeros(self.N)
        for i in range(self.nf):
            w = self.df[i] if weighted else 1.0
            for j in range(len(self.d)):
                s += self.E[:, i, j] * math.sin(self.d[j] * D2R) * w * self.dd
                c += self.E[:, i, j] * math.cos(self.d[j] * D2R) * w * self.dd
        return s, c

    def momd(self, mom, theta=90.0):
        ms = np.zeros((self.N, self.nf))
        mc = np.zeros((self.N, self.nf))
        for j in range(len(self.d)):
            a = (180 + theta - self.d[j]) * D2R
            ms += self.dd * self.E[:, :, j] * math.sin(a) ** mom
            mc += self.dd * self.E[:, :, j] * math.cos(a) ** mom
        return ms, mc

    def k(self, depth, wavenuma):
        if depth is None:
            return 2 * math.pi * self.f ** 2 / 1.56
        return np.asarray(wavenuma(self.f, depth), dtype=np.float64)


def circ_diff(a, b):
    d = np.abs((np.asarray(a, dtype=float) - np.asarray(b, dtype=float)) % 360.0)
    return np.minimum(d, 360.0 - d)


# ---------------------------------------------------------------------------------------------
# evaluation of one batch through the real accessor
# ---------------------------------------------------------------------------------------------
LAYOUTS = ["site", "time_site", "lat_lon", "none"]


def build(f, d, E, dtype, layout):
    import xarray as xr

    N = E.shape[0]
    data = E.astype(dtype)
    sdims = ["freq"] + (["dir"] if d is not None else [])
    coords = {"freq": np.asarray(f, dtype=float)}
    if d is not None:
        coords["dir"] = np.asarray(d, dtype=float)
    if layout == "none":
        assert N == 1
        return xr.DataArray(data[0], dims=sdims, coords=coords, name="efth"), ()
    if layout == "site":
        coords["site"] = np.arange(N)
        return xr.DataArray(data, dims=["site"] + sdims, coords=coords, name="efth"), (N,)
    a = 2 if N % 2 == 0 and N > 1 else 1
    b = N // a
    shp = (a, b)
    data = data.reshape(shp + data.shape[1:])
    if layout == "time_site":
        coords["time"] = np.array(["2020-01-01T00:00:00", "2020-01-01T03:00:00"][:a], dtype="datetime64[ns]")
        coords["site"] = np.arange(b)
        return xr.DataArray(data, dims=["time", "site"] + sdims, coords=coords, name="efth"), shp
    if layout == "lat_lon":
        coords["lat"] = np.arange(a) * 1.0
        coords["lon"] = np.arange(b) * 1.0
        return xr.DataArray(data, dims=["lat", "lon"] + sdims, coords=coords, name="efth"), shp
    raise ValueError(layout)


def _vals(x, N, trailing=()):
    v = np.asarray(x.values if hasattr(x, "values") else x, dtype=np.float64)
    return v.reshape((N,) + tuple(trailing))


def eval_batch(f, d, E, dtype="float64", layout="site", stats=None, oned_too=True):
    """Run every statistic on the batch, compare with the reference; returns (list of (idx, stat, clause, msg), info)."""
    ws = common.load_wavespectra()
    from wavespectra.core.utils import wavenuma
    from wavespectra.core import npstats

    f = np.asarray(f, dtype=float)
    d = None if d is None else np.asarray(d, dtype=float)
    E = np.asarray(E, dtype=float)
    N = E.shape[0]
    da, shp = build(f, d, E, dtype, layout)
    E_used = np.asarray(da.values, dtype=np.float64).reshape(E.shape)  # after dtype rounding
    R = Ref(f, d, E_used)
    f32 = np.dtype(dtype) == np.float32
    nterms = R.nf * (1 if d is None else len(d))
    rel = (3e-6 * math.sqrt(nterms) + 1e-6) if f32 else 1e-9
    rad_tol = 2e-5 if f32 else 1e-10
    bad = []
    info = {"dm_conv": set()}
    two = d is not None
    sp = da.spec

    def cmp(name, got, ref, mask=None, clause="integral", tol=None, abs_scale=None):
        t = rel if tol is None else tol
        got = np.asarray(got, dtype=np.float64)
        ref = np.asarray(ref, dtype=np.float64)
        if got.shape != ref.shape:
            bad.append((0, name, "shape", "result shape %s, expected %s" % (got.shape, ref.shape)))
            return
        scale = np.abs(ref) if abs_scale is None else np.broadcast_to(abs_scale, ref.shape)
        ok = np.abs(got - ref) <= t * scale + 1e-300
        ok |= np.isnan(got) & np.isnan(ref)
        ok |= np.isinf(got) & np.isinf(ref) & (np.sign(got) == np.sign(ref))
        if mask is not None:
            ok |= ~mask
        if not ok.all():
            idx = np.argwhere(~ok)
            i = tuple(idx[0])
            bad.append((int(i[0]), name, clause, "%s: got %r expected %r (rel tol %g) at batch index %s" % (
                name, float(got[i]), float(ref[i]), t, i)))

    want = lambda s: stats is None or s in stats

    # ---- heights
    m0 = R.m(0)
    if want("hs"):
        cmp("hs", _vals(sp.hs(), N), R.hs())
        cmp("hs(tail=False)", _vals(sp.hs(tail=False), N), R.hs(False))
    if want("hrms"):
        cmp("hrms", _vals(sp.hrms(), N), R.hrms())
    # ---- frequency moments
    for n in (0, 1, 2, 4):
        if want("momf"):
            cmp("momf(%d)" % n, _vals(sp.momf(n), N), R.m(n))
    m1, m2, m4 = R.m(1), R.m(2), R.m(4)
    pos = m0 > 0
    with np.errstate(all="ignore"):
        if want("tm01"):
            cmp("tm01", _vals(sp.tm01(), N), m0 / m1, mask=pos)
        if want("tm02"):
            cmp("tm02", _vals(sp.tm02(), N), np.sqrt(m0 / m2), mask=pos)
        if want("goda"):
            acc = np.zeros(N)
            for i in range(R.nf):
                acc += R.S[:, i] ** 2 * R.f[i] * R.df[i]
            cmp("goda", _vals(sp.goda(), N), 2 * acc / m0 ** 2, mask=pos)
        # widths: compare on the radicand
        if want("swe"):
            rad = 1.0 - m2 ** 2 / (m0 * m4)
            got = _vals(sp.swe(), N)
            exp_one = ~(rad >= 1e-6 - 1e-9)  # includes NaN
            dontcare = np.abs(rad - 1e-6) <= max(1e-9, rad_tol)
            ok = np.where(exp_one, got == 1.0, np.abs(got ** 2 - rad) <= rad_tol) | dontcare | ~pos
            if f32:
                ok |= (np.abs(rad) <= rad_tol * 10) & ((got == 1.0) | (got ** 2 <= rad_tol * 20))
            if not ok.all():
                i = int(np.argwhere(~ok)[0][0])
                bad.append((i, "swe", "integral", "swe: got %r, reference radicand %r" % (float(got[i]), float(rad[i]))))
        if want("sw"):
            rad = m0 * m2 / m1 ** 2 - 1.0
            got = _vals(sp.sw(), N)
            hsv = R.hs()
            masked = hsv < 0.001 * (1 - 1e-6)
            border = np.abs(hsv - 0.001) <= 0.001 * 1e-5
            ok = np.where(masked, np.isnan(got), (np.abs(got ** 2 - rad) <= rad_tol) | (np.isnan(got) & (rad < rad_tol))) | border | ~pos
            if not ok.all():
                i = int(np.argwhere(~ok)[0][0])
                bad.append((i, "sw", "integral", "sw: got %r, reference radicand %r hs %r" % (float(got[i]), float(rad[i]), float(hsv[i]))))
        if want("gw"):
            mh = (R.hs() / 4) ** 2
            rad = mh / (m0 / m2) - mh ** 2 / (m0 / m1) ** 2
            got = _vals(sp.gw(), N)
            sc = np.abs(mh / (m0 / m2)) + 1e-300
            ok = (np.abs(got ** 2 - rad) <= rad_tol * sc) | (np.isnan(got) & (rad < rad_tol * sc)) | ~pos
            if not ok.all():
                i = int(np.argwhere(~ok)[0][0])
                bad.append((i, "gw", "integral", "gw: got %r, reference radicand %r" % (float(got[i]), float(rad[i]))))
    # ---- dispersion-dependent integrals
    for depth in DEPTHS:
        k = R.k(depth, wavenuma)
        if want("mss"):
            acc = np.zeros(N)
            for i in range(R.nf):
                acc += k[i] ** 2 * R.S[:, i] * R.df[i]
            cmp("mss(depth=%s)" % depth, _vals(sp.mss(depth=depth), N), acc)
        if two and want("uss"):
            fk = 4 * math.pi * R.f * k
            ax = np.zeros(N)
            ay = np.zeros(N)
            at = np.zeros(N)
            aabs = np.zeros(N)
            for i in range(R.nf):
                for j in range(len(d)):
                    a = (180 + 90.0 - d[j]) * D2R
                    t = R.dd * fk[i] * R.E[:, i, j] * R.df[i]
                    ax += t * math.cos(a)
                    ay += t * math.sin(a)
                    at += t
                    aabs += np.abs(t)
            cmp("uss_x(depth=%s)" % depth, _vals(sp.uss_x(depth=depth), N), ax, abs_scale=aabs)
            cmp("uss_y(depth=%s)" % depth, _vals(sp.uss_y(depth=depth), N), ay, abs_scale=aabs)
            cmp("uss(depth=%s)" % depth, _vals(sp.uss(depth=depth), N), at)
    # ---- directional
    if two:
        nd = len(d)
        if want("momd"):
            for mom in (0, 1, 2):
                ms, mc = sp.momd(mom)
                rs, rc = R.momd(mom)
                sc = R.S + 1e-300
                cmp("momd(%d).sin" % mom, _vals(ms, N, (R.nf,)), rs, abs_scale=sc)
                cmp("momd(%d).cos" % mom, _vals(mc, N, (R.nf,)), rc, abs_scale=sc)
        if want("dm"):
            got = _vals(sp.dm(), N)
            tot = np.zeros(N)
            for j in range(nd):
                tot += R.E[:, :, j].sum(axis=1)
            tot = tot * R.dd
            convs = {}
            for wname, weighted in (("sum", False), ("dfweighted", True)):
                s, c = R.sc(weighted)
                scale = (tot * (R.df.max() if weighted else 1.0)) + 1e-300
                wellcond = np.sqrt(s ** 2 + c ** 2) > 1e-6 * scale
                ref = (np.arctan2(s, c) * R2D) % 360.0
                tol = 1e-2 if f32 else 1e-6
                convs[wname] = (circ_diff(got, ref) <= tol) | ~wellcond | ~pos
            # either convention, consistently over the batch
            if convs["sum"].all():
                info["dm_conv"].add("sum")
            elif convs["dfweighted"].all():
                info["dm_conv"].add("dfweighted")
            else:
                i = int(np.argwhere(~convs["sum"])[0][0])
                s, c = R.sc(False)
                bad.append((i, "dm", "integral", "dm: got %r expected %r (frequency-summed moments)" % (
                    float(got[i]), float((math.atan2(s[i], c[i]) * R2D) % 360))))
            inrange = ((got >= 0) & (got < 360)) | np.isnan(got)
            if not inrange.all():
                i = int(np.argwhere(~inrange)[0][0])
                bad.append((i, "dm", "range", "dm %r outside [0,360)" % float(got[i])))
        if want("dspr"):
            s, c = R.sc(True)
            e = m0
            with np.errstate(all="ignore"):
                rad = 1.0 - np.sqrt(s ** 2 + c ** 2) / e
            got = _vals(sp.dspr(), N)
            grad = (got * D2R) ** 2 / 2.0
            ok = (np.abs(grad - rad) <= rad_tol) | (np.isnan(got) & (rad < rad_tol)) | ~pos
            if not ok.all():
                i = int(np.argwhere(~ok)[0][0])
                bad.append((i, "dspr", "integral", "dspr: got %r (radicand %r), reference radicand %r" % (
                    float(got[i]), float(grad[i]), float(rad[i]))))
        if want("crsd"):
            acc = np.zeros((N, R.nf))
            aabs = np.zeros((N, R.nf))
            for j in range(nd):
                a = (180 + 90.0 - d[j]) * D2R
                acc += R.dd * R.E[:, :, j] * math.cos(a) * math.sin(a)
                aabs += R.dd * R.E[:, :, j]
            cmp("crsd", _vals(sp.crsd(), N, (R.nf,)), acc, abs_scale=aabs + 1e-300)
        if want("to_energy"):
            ref = np.empty_like(R.E)
            for i in range(R.nf):
                ref[:, i, :] = R.E[:, i, :] * R.df[i] * R.dd
            te = sp.to_energy().transpose(*([x for x in da.dims if x not in ("freq", "dir")] + ["freq", "dir"]))
            cmp("to_energy", _vals(te, N, (R.nf, nd)), ref)
    else:
        if want("to_energy"):
            ref = np.empty_like(R.E)
            for i in range(R.nf):
                ref[:, i] = R.E[:, i] * R.df[i]
            cmp("to_energy", _vals(sp.to_energy(), N, (R.nf,)), ref)
    # ---- hmax
    if want("hmax"):
        got = _vals(sp.hmax(), N)
        if layout == "time_site" and shp[0] > 1:
            with np.errstate(all="ignore"):
                nw = 10800.0 / np.sqrt(m0 / m2)
                frac = np.abs(nw - np.floor(nw) - 0.5)
                kk = np.sqrt(0.5 * np.log(np.round(nw)))
            mask = pos & (frac > 1e-6) & (np.round(nw) >= 1)
            cmp("hmax", got, kk * R.hs(), mask=mask)
        else:
            cmp("hmax", got, 1.86 * R.hs())
    # ---- 1D from 2D: frequency-integrated statistics agree
    if two and oned_too and want("oned"):
        o = sp.oned()
        cmp("oned", _vals(o.transpose(*([x for x in da.dims if x not in ("freq", "dir")] + ["freq"])), N, (R.nf,)), R.S)
        o1 = o.spec
        with np.errstate(all="ignore"):
            for name, a, b in (
                ("hs", o1.hs(), sp.hs()), ("hrms", o1.hrms(), sp.hrms()), ("tm01", o1.tm01(), sp.tm01()),
                ("tm02", o1.tm02(), sp.tm02()), ("momf(2)", o1.momf(2), sp.momf(2)), ("goda", o1.goda(), sp.goda()),
                ("mss", o1.mss(), sp.mss()), ("mss(depth=5)", o1.mss(depth=5.0), sp.mss(depth=5.0)),
                ("hmax", o1.hmax(), sp.hmax()), ("swe", o1.swe(), sp.swe()), ("sw", o1.sw(), sp.sw()),
                ("gw", o1.gw(), sp.gw()),
            ):
                t = 1e-5 if f32 else 1e-9
                if name in ("swe", "sw", "gw"):
                    t = 1e-2 if f32 else 1e-5
                    a2, b2 = _vals(a, N), _vals(b, N)
                    okk = (np.abs(a2 - b2) <= t * (np.abs(b2) + (1e-2 if f32 else 1e-4))) | (np.isnan(a2) & np.isnan(b2))
                    if not okk.all():
                        i = int(np.argwhere(~okk)[0][0])
                        bad.append((i, "oned." + name, "1d==2d", "%s of oned() %r != of 2D %r" % (name, float(a2[i]), float(b2[i]))))
                else:
                    cmp("oned." + name, _vals(a, N), _vals(b, N), clause="1d==2d", tol=t)
    # ---- numpy twins (per spectrum, 2D only, nf >= 2)
    if two and R.nf >= 2 and want("npstats"):
        nchk = min(N, 64)
        for b in range(nchk):
            spec = E_used[b]
            got = float(npstats.hs(spec, f, d))
            # trapezoid rule + tail
            S = R.S[b]
            e = 0.0
            for i in range(R.nf - 1):
                e += 0.5 * (f[i + 1] - f[i]) * (S[i] + S[i + 1])
            if f[-1] > 0.333:
                e += 0.25 * S[-1] * f[-1]
            ref = 4 * math.sqrt(e)
            if len(d) > 1 and abs(got - ref) > 1e-9 * abs(ref) + 1e-300:
                bad.append((b, "npstats.hs", "integral", "npstats.hs got %r expected %r" % (got, ref)))
                break
            if len(d) > 1:
                gdm = float(npstats.dm(spec, d))
                s = sum(spec[i, j] * math.sin(d[j] * D2R) for i in range(R.nf) for j in range(len(d)))
                c = sum(spec[i, j] * math.cos(d[j] * D2R) for i in range(R.nf) for j in range(len(d)))
                if math.hypot(s, c) > 1e-6 * (spec.sum() + 1e-300):
                    ref = (math.atan2(s, c) * R2D) % 360
                    if circ_diff(gdm, ref) > 1e-6:
                        bad.append((b, "npstats.dm", "integral", "npstats.dm got %r expected %r" % (gdm, ref)))
                        break
    return bad, info


def check_dispersion(tier):
    """wavenuma / celerity / wavelen against the linear dispersion relation."""
    common.load_wavespectra()
    import xarray as xr
    from wavespectra.core.utils import wavenuma, celerity, wavelen

    bad = []
    nfreq = 300 if tier == "quick" else 1200
    fs = np.exp(np.linspace(math.log(0.02), math.log(1.5), nfreq))
    depths = [0.5, 1.0, 2.0, 5.0, 10.0, 20.0, 50.0, 100.0, 1000.0, 4000.0]
    worst = 0.0
    n = 0
    for h in depths:
        kk = np.asarray(wavenuma(fs, h), dtype=float)
        cc = np.asarray(celerity(fs, h), dtype=float)
        ll = np.asarray(wavelen(fs, h), dtype=float)
        for i, f in enumerate(fs):
            ke = exact_k(f, h)
            n += 1
            e = abs(kk[i] / ke - 1)
            worst = max(worst, e)
            if e > 1e-3:
                bad.append((f, h, "wavenuma", "wavenuma(%g,%g)=%r exact %r rel err %g" % (f, h, kk[i], ke, e)))
            if abs(cc[i] / (2 * math.pi * f / ke) - 1) > 1e-3:
                bad.append((f, h, "celerity", "celerity(%g,%g)=%r exact %r" % (f, h, cc[i], 2 * math.pi * f / ke)))
            if abs(ll[i] / (2 * math.pi / ke) - 1) > 1e-3:
                bad.append((f, h, "wavelen", "wavelen(%g,%g)=%r exact %r" % (f, h, ll[i], 2 * math.pi / ke)))
    # deep water: exactly 1.56/f, 1.56/f^2, also through the accessor
    da = xr.DataArray(np.ones((len(fs), 2)), dims=["freq", "dir"], coords={"freq": fs, "dir": [0.0, 180.0]}, name="efth")
    for nm, got, ref in (
        ("celerity(None)", np.asarray(celerity(fs)), 1.56 / fs), ("wavelen(None)", np.asarray(wavelen(fs)), 1.56 / fs ** 2),
        ("spec.celerity()", da.spec.celerity().values, 1.56 / fs), ("spec.wavelen()", da.spec.wavelen().values, 1.56 / fs ** 2),
    ):
        n += len(fs)
        if not np.array_equal(np.asarray(got, dtype=float), ref):
            i = int(np.argwhere(np.asarray(got, dtype=float) != ref)[0][0])
            bad.append((fs[i], None, nm, "%s at f=%g: got %r expected exactly %r" % (nm, fs[i], float(got[i]), ref[i])))
    for h in (3.0, 30.0):
        got = da.spec.celerity(depth=h).values
        got2 = da.spec.wavelen(depth=h).values
        for i, f in enumerate(fs):
            ke = exact_k(f, h)
            n += 1
            if abs(got[i] / (2 * math.pi * f / ke) - 1) > 1e-3 or abs(got2[i] / (2 * math.pi / ke) - 1) > 1e-3:
                bad.append((f, h, "spec.celerity/wavelen", "accessor celerity/wavelen off dispersion at f=%g h=%g" % (f, h)))
    return bad, n, worst


# ---------------------------------------------------------------------------------------------
# work items
# ---------------------------------------------------------------------------------------------
def work_items(tier, seed):
    items = []
    alpha = gen.alphabet(seed, 3 if tier == "quick" else 4)
    maxcells = 8 if tier == "quick" else 9
    fams = gen.freq_families(seed)
    dsets = gen.dir_sets(seed)
    # uniformly spaced sectors (part of the circle), also straddling north with wrapped labels: the bin width is the step, not span/(n-1)
    off = [0.0, 2.5, 1.0][seed % 3]
    dsets = dsets + [("sec5_330", (np.array([330.0, 345.0, 0.0, 15.0, 30.0]) + off) % 360.0), ("sec3_350", (np.array([350.0, 10.0, 30.0]) + off) % 360.0),
                     ("sec2_355", np.array([355.0, 5.0])), ("sec4_300", (np.array([300.0, 320.0, 340.0, 0.0]) + off) % 360.0),
                     ("sec4_40", np.array([40.0, 50.0, 60.0, 70.0]) + off)]
    gi = 0
    for fname, f in fams:
        for dname, d in dsets:
            nf, nd = len(f), len(d)
            cells = nf * nd
            if cells > 40:
                continue
            gi += 1
            layout = LAYOUTS[gi % 3]
            dtype = "float32" if gi % 4 == 0 else "float64"
            if cells <= maxcells:
                items.append(dict(kind="product", f=f, d=d, alpha=alpha, layout=layout, dtype=dtype, grid=fname + "/" + dname))
            else:
                items.append(dict(kind="structured", f=f, d=d, alpha=alpha, layout=layout, dtype=dtype, grid=fname + "/" + dname))
            # both dtypes and all layouts on a small sub-family for every grid
            items.append(dict(kind="structured1", f=f, d=d, alpha=alpha, layout=LAYOUTS[(gi + 1) % 3],
                              dtype="float32" if dtype == "float64" else "float64", grid=fname + "/" + dname))
    # extreme energy scales (every defining integral is linear or a ratio: relative agreement must not depend on the scale)
    for k, (fname, f) in enumerate(fams):
        for dname, d in dsets[1::2]:
            if len(f) * len(d) > 24 or len(f) < 2:
                continue
            for scale in (1e-12, 1e9, 1e-5, 3e-7):  # the last two: significant heights of centimetres and millimetres (just above the 1 mm mask of sw)
                items.append(dict(kind="structured1", f=f, d=d, alpha=alpha, layout="site", dtype="float64", grid=fname + "/" + dname + "/x%g" % scale, scale=scale))
    # 1D spectra (no dir dimension at all)
    for fname, f in fams:
        if len(f) <= (8 if tier == "quick" else 9):
            items.append(dict(kind="product1d", f=f, d=None, alpha=alpha, layout="site", dtype="float64", grid=fname + "/1d"))
    items.sort(key=lambda it: (len(it["f"]) * (1 if it["d"] is None else len(it["d"]))))
    return items


def spectra_for(it):
    f, d = it["f"], it["d"]
    nf = len(f)
    if it["kind"] == "product":
        nd = len(d)
        return gen.product_array(nf * nd, it["alpha"]).reshape(-1, nf, nd)
    if it["kind"] == "product1d":
        return gen.product_array(nf, it["alpha"]).reshape(-1, nf)
    if it["kind"] == "structured":
        return gen.structured(nf, len(d), it["alpha"], kmax=2)
    if it["kind"] == "structured1":
        return gen.structured(nf, len(d), it["alpha"], kmax=1) * it.get("scale", 1.0)
    raise ValueError(it["kind"])


def nontrivial_mask(E):
    """energy in >=2 frequencies and (if 2D) >=2 directions"""
    if E.ndim == 3:
        return ((E.sum(axis=2) > 0).sum(axis=1) >= 2) & ((E.sum(axis=1) > 0).sum(axis=1) >= 2)
    return (E > 0).sum(axis=1) >= 2


def run_item(it):
    E = spectra_for(it)
    if E.shape[0] % 2 == 1 and it["layout"] != "site":
        E = np.concatenate([E, E[-1:]], axis=0)
    res = {"evals": 0, "nontrivial": [], "n_nontrivial": 0, "samples": [], "outcomes": {}, "violations": [], "parts": {}}
    CH = 4096
    for s in range(0, E.shape[0], CH):
        Eb = E[s:s + CH]
        if Eb.shape[0] % 2 == 1 and it["layout"] != "site":
            Eb = np.concatenate([Eb, Eb[-1:]], axis=0)
        bad, info = eval_batch(it["f"], it["d"], Eb, it["dtype"], it["layout"])
        res["evals"] += Eb.shape[0]
        res["n_nontrivial"] += int(nontrivial_mask(Eb).sum())
        for c in info["dm_conv"]:
            res["outcomes"]["dm_convention=" + c] = res["outcomes"].get("dm_convention=" + c, 0) + 1
        for (i, stat, clause, msg) in bad:
            case = dict(f=it["f"], d=it["d"], efth=Eb[i], dtype=it["dtype"], layout="none", stat=stat)
            # confirm un-batched (this is also exactly what --replay runs)
            vs = replay(case)
            if vs:
                res["violations"].extend(vs)
            else:
                res["violations"].append(Violation(PROP, "%s|batched-only" % stat.split("(")[0],
                                                   "violation seen only inside a batch (grid %s): %s" % (it["grid"], msg),
                                                   dict(case, layout=it["layout"], batch_note="single-spectrum replay passes")))
    res["parts"][it["kind"] + ("-extreme-scale" if it.get("scale") else "")] = res["evals"]
    if E.shape[0] > 5:
        j = E.shape[0] // 2
        res["samples"].append(dict(grid=it["grid"], freq=it["f"], dir=it["d"], dtype=it["dtype"], layout=it["layout"], efth=E[j]))
    return res


def classify(case, stat, clause):
    """signature = operation | clause | discriminating predicate of the input"""
    f = np.asarray(case["f"], dtype=float)
    d = case["d"]
    pred = []
    pred.append("nf=1" if len(f) == 1 else ("tail" if f[-1] > 0.333 else "notail"))
    if d is None:
        pred.append("1d")
    else:
        pred.append("nd=1" if len(d) == 1 else ("nd=2" if len(d) == 2 else "nd>2"))
    pred.append(case.get("dtype", "float64"))
    return "%s|%s|%s" % (stat.split("(")[0], clause, ",".join(pred))


def replay(case):
    f = np.asarray(case["f"], dtype=float)
    d = None if case.get("d") is None else np.asarray(case["d"], dtype=float)
    E = np.asarray(case["efth"], dtype=float)[None]
    if case.get("kind") == "dispersion":
        bad, n, worst = check_dispersion("quick")
        return [Violation(PROP, "%s|dispersion|" % b[2], b[3], dict(kind="dispersion")) for b in bad[:1]]
    bad, info = eval_batch(f, d, E, case.get("dtype", "float64"), "none")
    out = []
    for (i, stat, clause, msg) in bad:
        out.append(Violation(PROP, classify(case, stat, clause), msg, dict(case, stat=stat)))
    return out


def run(rep, tier, seed, parts=None):
    common.load_wavespectra()
    rep.rule = ("all assignments of a 3/4-value alphabet to every bin for grids of <=8/9 cells (full product), structured complete "
                "families (every impulse, every impulse pair with every height pair, constants, ramps, checkerboards) on larger "
                "grids up to 40 cells; x grid families (log/linear/irregular, last freq below/at/above 0.333 Hz, nf 1..5, nd 1..8 "
                "full circles from several starts plus uniformly spaced sectors of 2-5 bins incl. ones straddling north with wrapped labels, "
                "1D) x layout x dtype; every statistic compared with a plain bin-by-bin reference. Non-trivial = energy in >=2 "
                "frequencies and >=2 directions (>=2 frequencies for 1D).")
    rep.extra["alphabet"] = list(gen.alphabet(seed, 3 if tier == "quick" else 4))
    rep.assumptions = [
        "dm accepts either the frequency-summed or the df-weighted moment ratio, consistently over a batch (see DESIGN C01)",
        "drift/slope integrals use the library's own wavenuma for k; wavenuma itself is checked against bisection of the dispersion relation (g=9.81) on a 300..1200 x 10 (f,depth) grid",
        "batched evaluation is sound (checked un-batched by C06; every batched failure is re-run as a single spectrum before it is reported)",
    ]
    items = work_items(tier, seed)
    if parts is None or "disp" in parts:
        bad, n, worst = check_dispersion(tier)
        rep.evaluations += n
        rep.parts["dispersion"] = n
        rep.extra["dispersion_worst_rel_err"] = worst
        seen = set()
        for b in bad:
            sig = "%s|dispersion|" % b[2]
            if sig in seen:
                continue
            seen.add(sig)
            rep.violations.append(Violation(PROP, sig, b[3], dict(kind="dispersion", f=[b[0]], d=None, efth=[0.0], depth=b[1])))
    if parts is None or "stats" in parts:
        for res in common.pmap(run_item, items):
            rep.merge(res)
    rep.extra["grids"] = len(items)
