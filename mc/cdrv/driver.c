/* E5: exhaustive driver for the native watershed routine (specpart.c from the repo under test).
 *
 * usage: driver <family> <ihmax,ihmax,...> <alphabet v0,v1,...> <shifts 0|1> <interleave 0|1> <shape nkxnth> [shape ...]
 *   family: product   every assignment of the alphabet to every cell (a^cells cases per shape)
 *           impulse2  base=alphabet[0]; every single impulse and every pair of impulses with every height pair
 *           bump3     every triple of bump positions with every rank order of three heights (bump = peak + half-height
 *                     4-neighbours, direction axis circular); heights are alphabet[1..3]
 *           misc      constants, ramps, stripes, checkerboards, plateaus
 *   interleave=1: round-robin over the shapes so the grid shape changes at every call (exercises partinit's
 *           free/realloc path and the shape-keyed early return); 0: shape by shape.
 *
 * For every case and every ihmax the real partition() is called and the label map is checked by an independent
 * flood-fill oracle (see check_case). With shifts=1 the spectrum is also partitioned under every circular shift of the
 * direction axis and the partitions are compared as set partitions.
 *
 * Output: "VIOL <clause> nk= nth= ihmax= shift= z=..." lines (first 40), "SAMPLE ..." lines, one "STATS ..." line.
 * Sanitizer deaths and timeouts print "DEATH <what> nk= nth= ihmax= z=..." for the call in flight.
 */
#include <math.h>
#include <signal.h>
#include <stdio.h>
#include <stdlib.h>
#include <string.h>
#include <unistd.h>
#include "specpart.h"

#define MAXC 256
#define MAXSH 64

static int cur_nk, cur_nth, cur_ihmax, cur_shift;
static float cur_z[MAXC];
static long n_cases = 0, n_calls = 0, n_nontrivial = 0, n_ties = 0, n_const = 0, n_viol = 0, n_shiftcmp = 0;
static long hist[MAXC + 1];
static int printed = 0, samples = 0;
static long shard_i = 0, shard_n = 1;
static int alarm_s = 20;

static void print_case(const char *tag, const char *what, int nk, int nth, int ihmax, int shift, const float *z) {
  int i;
  printf("%s %s nk=%d nth=%d ihmax=%d shift=%d z=", tag, what, nk, nth, ihmax, shift);
  for (i = 0; i < nk * nth; i++) printf(i ? ",%.9g" : "%.9g", z[i]);
  printf("\n");
  fflush(stdout);
}

static void on_death(void) { print_case("DEATH", "sanitizer", cur_nk, cur_nth, cur_ihmax, cur_shift, cur_z); }
static void on_alarm(int sig) {
  (void)sig;
  print_case("DEATH", "timeout", cur_nk, cur_nth, cur_ihmax, cur_shift, cur_z);
  _exit(3);
}
#if defined(__has_feature)
#if __has_feature(address_sanitizer)
#define HAVE_ASAN 1
#endif
#endif
#ifdef HAVE_ASAN
void __sanitizer_set_death_callback(void (*cb)(void));
#endif

static void viol(const char *clause0, int nk, int nth, int ihmax, int shift, const float *z) {
  char clause[128];
  float lo = z[0], hi = z[0];
  int q;
  for (q = 1; q < nk * nth; q++) { if (z[q] < lo) lo = z[q]; if (z[q] > hi) hi = z[q]; }
  snprintf(clause, sizeof clause, "%s%s", clause0, ((double)hi - (double)lo < 1e-9 && hi != lo) ? ":value-range<1e-9" : "");
  n_viol++;
  if (printed < 40) {
    print_case("VIOL", clause, nk, nth, ihmax, shift, z);
    printed++;
  }
}

/* 8-neighbours with the direction axis (second index) circular; returns count. cell id = k*nth + t */
static int nbrs(int nk, int nth, int c, int *out) {
  int k = c / nth, t = c % nth, n = 0, dk, dt;
  for (dk = -1; dk <= 1; dk++)
    for (dt = -1; dt <= 1; dt++) {
      int kk = k + dk, tt;
      if (dk == 0 && dt == 0) continue;
      if (kk < 0 || kk >= nk) continue;
      tt = ((t + dt) % nth + nth) % nth;
      if (kk == k && tt == t) continue; /* nth == 1: wraps onto itself */
      out[n++] = kk * nth + tt;
    }
  return n;
}

static int call_partition(int nk, int nth, int ihmax, int shift, const float *z, int *lab /* [k*nth+t] */) {
  /* exact-size heap buffers, like the arrays the python wrapper hands over: an overrun hits an ASan red zone */
  float *spec = (float *)malloc(sizeof(float) * nk * nth);
  int *ipart = (int *)malloc(sizeof(int) * nk * nth);
  int k, t;
  memcpy(spec, z, sizeof(float) * nk * nth);
  cur_nk = nk; cur_nth = nth; cur_ihmax = ihmax; cur_shift = shift;
  memcpy(cur_z, z, sizeof(float) * nk * nth);
  for (k = 0; k < nk * nth; k++) ipart[k] = -12345;
  partition(spec, ipart, nk, nth, ihmax);
  n_calls++;
  if (memcmp(spec, z, sizeof(float) * nk * nth) != 0) viol("input-modified", nk, nth, ihmax, shift, z);
  for (k = 0; k < nk; k++)
    for (t = 0; t < nth; t++) lab[k * nth + t] = ipart[k + nk * t];
  free(spec);
  free(ipart);
  return 0;
}

/* returns: 0 ok / checked, 1 constant (excluded), 2 tie in discretisation (don't-care, excluded) */
static int check_case(int nk, int nth, int ihmax, const float *z, int shifts) {
  int n = nk * nth, i, j, lab[MAXC], lev[MAXC], comp[MAXC], stack[MAXC], nb[8];
  double zmin = z[0], zmax = z[0];
  int constant, tie = 0, nmin = 0, ncomp = 0, maxlab = 0;
  call_partition(nk, nth, ihmax, 0, z, lab);
  for (i = 1; i < n; i++) { if (z[i] < zmin) zmin = z[i]; if (z[i] > zmax) zmax = z[i]; }
  constant = (zmax == zmin);
  if (constant) {
    /* statement excludes constant spectra; only memory safety / termination apply (C20) */
    for (i = 0; i < n; i++) if (lab[i] < 0 || lab[i] > n) { viol("label-out-of-range", nk, nth, ihmax, 0, z); break; }
    return 1;
  }
  /* independent discretisation: exact ties are don't-care */
  for (i = 0; i < n; i++) {
    double q = (zmax - (double)z[i]) * (ihmax - 1.0) / (zmax - zmin);
    double fr = q - floor(q);
    if (fabs(fr - 0.5) < 1e-5) tie = 1;
    lev[i] = (int)floor(q + 0.5);
    if (lev[i] < 0) lev[i] = 0;
    if (lev[i] > ihmax - 1) lev[i] = ihmax - 1;
  }
  if (tie) return 2;
  /* connected components of equal level; regional minima = components with no lower neighbour */
  for (i = 0; i < n; i++) comp[i] = -1;
  {
    int ismin[MAXC];
    for (i = 0; i < n; i++) {
      int sp = 0, lower = 0;
      if (comp[i] >= 0) continue;
      comp[i] = ncomp; stack[sp++] = i;
      while (sp) {
        int c = stack[--sp], m = nbrs(nk, nth, c, nb);
        for (j = 0; j < m; j++) {
          if (lev[nb[j]] == lev[c] && comp[nb[j]] < 0) { comp[nb[j]] = ncomp; stack[sp++] = nb[j]; }
          else if (lev[nb[j]] < lev[c]) lower = 1;
        }
      }
      ismin[ncomp] = !lower;
      if (!lower) nmin++;
      ncomp++;
    }
    /* every bin labelled >= 1, labels are 1..nmin */
    for (i = 0; i < n; i++) {
      if (lab[i] < 1) { viol("unlabelled-bin", nk, nth, ihmax, 0, z); return 0; }
      if (lab[i] > maxlab) maxlab = lab[i];
    }
    if (maxlab != nmin) { viol("basin-count!=regional-maxima", nk, nth, ihmax, 0, z); return 0; }
    {
      int used[MAXC + 2], minsin[MAXC + 2], seen[MAXC];
      memset(used, 0, sizeof(used)); memset(minsin, 0, sizeof(minsin));
      for (i = 0; i < n; i++) used[lab[i]] = 1;
      for (i = 1; i <= maxlab; i++) if (!used[i]) { viol("label-gap", nk, nth, ihmax, 0, z); return 0; }
      /* each regional minimum lies entirely in one label; each label holds exactly one */
      {
        int lab_of_comp[MAXC];
        for (i = 0; i < ncomp; i++) lab_of_comp[i] = -1;
        for (i = 0; i < n; i++) if (ismin[comp[i]]) {
          if (lab_of_comp[comp[i]] == -1) { lab_of_comp[comp[i]] = lab[i]; minsin[lab[i]]++; }
          else if (lab_of_comp[comp[i]] != lab[i]) { viol("regional-maximum-split", nk, nth, ihmax, 0, z); return 0; }
        }
        for (i = 1; i <= maxlab; i++) if (minsin[i] != 1) { viol("basin-without-exactly-one-maximum", nk, nth, ihmax, 0, z); return 0; }
      }
      /* each label connected */
      memset(seen, 0, sizeof(seen));
      {
        int done[MAXC + 2];
        memset(done, 0, sizeof(done));
        for (i = 0; i < n; i++) {
          int sp = 0;
          if (seen[i]) continue;
          if (done[lab[i]]) { viol("basin-not-connected", nk, nth, ihmax, 0, z); return 0; }
          done[lab[i]] = 1; seen[i] = 1; stack[sp++] = i;
          while (sp) {
            int c = stack[--sp], m = nbrs(nk, nth, c, nb);
            for (j = 0; j < m; j++) if (!seen[nb[j]] && lab[nb[j]] == lab[c]) { seen[nb[j]] = 1; stack[sp++] = nb[j]; }
          }
        }
      }
    }
  }
  hist[nmin]++;
  if (nmin >= 2) n_nontrivial++;
  /* shift invariance along the direction axis */
  if (shifts && nth > 1) {
    int s, k, t, lab2[MAXC], map[MAXC + 2], rmap[MAXC + 2];
    float zs[MAXC];
    for (s = 1; s < nth; s++) {
      for (k = 0; k < nk; k++) for (t = 0; t < nth; t++) zs[k * nth + (t + s) % nth] = z[k * nth + t];
      call_partition(nk, nth, ihmax, s, zs, lab2);
      n_shiftcmp++;
      memset(map, 0, sizeof(map)); memset(rmap, 0, sizeof(rmap));
      for (k = 0; k < nk; k++) for (t = 0; t < nth; t++) {
        int a = lab[k * nth + t], b = lab2[k * nth + (t + s) % nth];
        if (a < 0 || b < 0 || a > n || b > n) { viol("shift-label-range", nk, nth, ihmax, s, z); return 0; }
        if (map[a] == 0 && rmap[b] == 0) { map[a] = b; rmap[b] = a; }
        else if (map[a] != b || rmap[b] != a) { viol("shift-changes-partition", nk, nth, ihmax, s, z); return 0; }
      }
    }
  }
  return 0;
}

/* ---------------------------------------------------------------- families */
static double alpha[16];
static int na;

static long ipow(long a, int b) { long r = 1; while (b-- > 0) { r *= a; if (r > (1L << 52)) return -1; } return r; }
static long choose2(long n) { return n * (n - 1) / 2; }
static long choose3(long n) { return n * (n - 1) * (n - 2) / 6; }

static long fam_count(const char *fam, int nk, int nth) {
  long c = nk * nth, nz = na - 1;
  if (!strcmp(fam, "product")) return ipow(na, (int)c);
  if (!strcmp(fam, "impulse2")) return c * nz + choose2(c) * nz * nz;
  if (!strcmp(fam, "bump3")) return c >= 3 ? choose3(c) * 6 : 0;
  if (!strcmp(fam, "misc")) return 2 + 4 + 2 + 2 + 2 * c;
  return 0;
}

static void bump(float *z, int nk, int nth, int c, double h) {
  int k = c / nth, t = c % nth;
  int kk[4] = {k - 1, k + 1, k, k}, tt[4] = {t, t, (t + nth - 1) % nth, (t + 1) % nth}, i;
  if (z[c] < h) z[c] = (float)h;
  for (i = 0; i < 4; i++) if (kk[i] >= 0 && kk[i] < nk) { int q = kk[i] * nth + tt[i]; if (z[q] < h / 2) z[q] = (float)(h / 2); }
}

static void fam_fill(const char *fam, int nk, int nth, long idx, float *z) {
  int c = nk * nth, i;
  long nz = na - 1;
  if (!strcmp(fam, "product")) {
    for (i = c - 1; i >= 0; i--) { z[i] = (float)alpha[idx % na]; idx /= na; }
    return;
  }
  for (i = 0; i < c; i++) z[i] = (float)alpha[0];
  if (!strcmp(fam, "impulse2")) {
    if (idx < c * nz) { z[idx / nz] = (float)alpha[1 + idx % nz]; return; }
    idx -= c * nz;
    {
      long pair = idx / (nz * nz), hh = idx % (nz * nz), a = 0, b;
      /* unrank pair (a<b) */
      while (pair >= c - 1 - a) { pair -= c - 1 - a; a++; }
      b = a + 1 + pair;
      z[a] = (float)alpha[1 + hh / nz]; z[b] = (float)alpha[1 + hh % nz];
    }
    return;
  }
  if (!strcmp(fam, "bump3")) {
    static const int perm[6][3] = {{0,1,2},{0,2,1},{1,0,2},{1,2,0},{2,0,1},{2,1,0}};
    long tri = idx / 6; int p = (int)(idx % 6), a, b, d; long cnt = 0;
    for (a = 0; a < c; a++) for (b = a + 1; b < c; b++) for (d = b + 1; d < c; d++) {
      if (cnt == tri) {
        bump(z, nk, nth, a, alpha[1 + perm[p][0] % (na - 1)]);
        bump(z, nk, nth, b, alpha[1 + perm[p][1] % (na - 1)]);
        bump(z, nk, nth, d, alpha[1 + perm[p][2] % (na - 1)]);
        return;
      }
      cnt++;
    }
    return;
  }
  if (!strcmp(fam, "misc")) {
    double hi = alpha[na - 1], lo = alpha[0];
    int k, t;
    if (idx == 0) return;                                   /* constant low */
    if (idx == 1) { for (i = 0; i < c; i++) z[i] = (float)hi; return; } /* constant high */
    idx -= 2;
    if (idx < 4) {                                          /* ramps */
      for (k = 0; k < nk; k++) for (t = 0; t < nth; t++) {
        double g = idx == 0 ? k : idx == 1 ? t : idx == 2 ? nk - 1 - k : k + t;
        z[k * nth + t] = (float)(lo + (hi - lo) * g / (nk + nth));
      }
      return;
    }
    idx -= 4;
    if (idx < 2) { for (k = 0; k < nk; k++) for (t = 0; t < nth; t++) z[k * nth + t] = (float)(((k + t + idx) % 2) ? hi : lo); return; }
    idx -= 2;
    if (idx < 2) { for (k = 0; k < nk; k++) for (t = 0; t < nth; t++) z[k * nth + t] = (float)(((idx ? k : t) % 2) ? hi : lo); return; }
    idx -= 2;
    if (idx < c) { for (i = 0; i < c; i++) z[i] = (float)hi; z[idx] = (float)lo; return; }      /* single hole in plateau */
    idx -= c;
    for (i = 0; i < c; i++) z[i] = (float)(i <= idx ? hi : lo);                                   /* growing plateau */
    return;
  }
}

int main(int argc, char **argv) {
  const char *fam;
  int ihm[32], nih = 0, shifts, inter, nsh = 0, sk[MAXSH], st[MAXSH], s, i;
  long cnt[MAXSH], pos[MAXSH], remaining = 0;
  char *p;
  float z[MAXC];
  if (argc < 7) { fprintf(stderr, "usage\n"); return 2; }
  fam = argv[1];
  for (p = strtok(argv[2], ","); p; p = strtok(NULL, ",")) ihm[nih++] = atoi(p);
  for (p = strtok(argv[3], ","); p; p = strtok(NULL, ",")) alpha[na++] = atof(p);
  shifts = atoi(argv[4]);
  inter = atoi(argv[5]);
  for (i = 6; i < argc && nsh < MAXSH; i++) {
    if (sscanf(argv[i], "%dx%d", &sk[nsh], &st[nsh]) != 2 || sk[nsh] * st[nsh] > MAXC) { fprintf(stderr, "bad shape %s\n", argv[i]); return 2; }
    cnt[nsh] = fam_count(fam, sk[nsh], st[nsh]);
    if (cnt[nsh] < 0) { fprintf(stderr, "space too large for %s\n", argv[i]); return 2; }
    pos[nsh] = 0; remaining += cnt[nsh]; nsh++;
  }
#ifdef HAVE_ASAN
  __sanitizer_set_death_callback(on_death);
#endif
  signal(SIGALRM, on_alarm);
  {
    const char *e = getenv("DRV_SHARD");
    if (e && sscanf(e, "%ld/%ld", &shard_i, &shard_n) != 2) { shard_i = 0; shard_n = 1; }
    e = getenv("DRV_ALARM");   /* watchdog period per 256 cases; raised by jobs whose single calls are slow (level counts in the millions) */
    if (e && atoi(e) > 0) alarm_s = atoi(e);
  }
  s = 0;
  while (remaining > 0) {
    int r;
    if (pos[s] >= cnt[s]) { s = (s + 1) % nsh; continue; }
    pos[s]++; remaining--;
    if (shard_n > 1 && ((pos[s] - 1) % shard_n) != shard_i) { if (inter) s = (s + 1) % nsh; continue; }
    fam_fill(fam, sk[s], st[s], pos[s] - 1, z);
    if ((n_cases & 255) == 0) alarm(alarm_s);
    n_cases++;
    for (i = 0; i < nih; i++) {
      r = check_case(sk[s], st[s], ihm[i], z, shifts);
      if (r == 1) { n_const++; }
      else if (r == 2) n_ties++;
      else if (samples < 4 && (n_cases % 97) == 5) { print_case("SAMPLE", fam, sk[s], st[s], ihm[i], 0, z); samples++; }
    }
    if (inter) s = (s + 1) % nsh;
  }
  alarm(0);
  printf("STATS cases=%ld calls=%ld checked_nontrivial=%ld ties_skipped=%ld constant=%ld violations=%ld shiftcmp=%ld hist=", n_cases, n_calls,
         n_nontrivial, n_ties, n_const, n_viol, n_shiftcmp);
  for (i = 0; i <= 16; i++) printf(i ? ",%ld" : "%ld", hist[i]);
  printf("\n");
  return n_viol ? 1 : 0;
}
