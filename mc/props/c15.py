"""C15 - constructed parametric spectra have the parameters they were built from (bounded-exhaustive menus, E1).

Every case is one call of the real constructor (scalar parameters) or one batched call (parameters given as
DataArrays over extra dimensions, every element of the batch being one case); the result is compared with a
closed-form / plain-loop reference and measured with the real accessor.
"""
from __future__ import annotations

import itertools
import math

import numpy as np

from mc import common
from mc.common import Violation

PROP = "C15"
LEVEL = "exploration"

G_STD = 9.80665  # standard gravity (what the spectral-shape docstrings call g)
G_DISP = 9.81  # gravity used for the dispersion relation bounds (1/9.81 = 0.10194 is what wavenuma is built on)
D2R = math.pi / 180.0
R2D = 180.0 / math.pi

HS_TOL = 1e-10  # requested hs vs accessor hs (float64)
FORM_TOL = 1e-9  # closed form vs constructor (float64, pointwise)
EQ_TOL = 1e-12  # two library expressions of the same closed form (jonswap(gamma=1) vs pm), normalisation, oned
PHI_TOL = 3e-3  # tma depth factor built on the Chen&Thomson wavenumber (<=1e-3 in k, d ln(phi)/d ln(k) <= 2) + margin
DISC_TOL = 1e-9  # measured dm (deg) / dspr (relative) vs own discrete first moments
REQ_ROUND = 1e-9  # rounding allowance on top of the derived aliasing bounds (requested vs measured dm / dspr)
S_LIMIT = math.sqrt(2.0) * 180.0 / math.pi - 1e-9  # spread (deg) from which the cos^2s exponent is <= 0
INT_OK = {"dm", "dpm", "dspr", "dpspr", "dep", "gamma"}
FREQ_PARAMS = {
    "pierson_moskowitz": ["fp", "alpha", "hs"],
    "jonswap": ["fp", "alpha", "gamma", "sigma_a", "sigma_b", "hs"],
    "tma": ["fp", "dep", "alpha", "gamma", "sigma_a", "sigma_b", "hs"],
    "gaussian": ["hs", "fp", "gw"],
}


# ---------------------------------------------------------------------------------------------
# parameter sets: scalars or arrays over named extra dimensions (and/or "freq")
# ---------------------------------------------------------------------------------------------
def S(v):
    return {"v": v}


def A(dims, v):
    return {"dims": list(dims), "v": v}


class PSet:
    """specs: name -> {"v": scalar} | {"dims": [...], "v": nested list} | None."""

    def __init__(self, specs, freq=None):
        self.specs = {k: v for k, v in specs.items() if v is not None}
        self.freq = None if freq is None else np.asarray(freq, dtype=float)
        self.extra, self.sizes = [], {}
        for name, sp in self.specs.items():
            dims = sp.get("dims") or []
            shp = np.asarray(sp["v"]).shape
            assert len(shp) == len(dims), (name, shp, dims)
            for ax, d in enumerate(dims):
                if d == "freq":
                    assert self.freq is not None and shp[ax] == len(self.freq)
                elif d not in self.extra:
                    self.extra.append(d)
                    self.sizes[d] = shp[ax]
                else:
                    assert self.sizes[d] == shp[ax]
        self.shape = tuple(self.sizes[d] for d in self.extra)

    def has(self, name):
        return name in self.specs

    def dims(self, name):
        return list(self.specs[name].get("dims") or [])

    def is_da(self, name):
        return bool(self.specs[name].get("dims"))

    def freqdep(self, names):
        return any(self.has(n) and "freq" in self.dims(n) for n in names)

    def arr(self, name, dtype=float):
        """numpy array of shape (*extra, nf or 1)"""
        sp = self.specs[name]
        v = np.asarray(sp["v"], dtype=dtype)
        dims = self.dims(name)
        target = self.extra + ["freq"]
        order = [dims.index(d) for d in target if d in dims]
        v = v.transpose(order) if order else v
        shp = [(self.sizes[d] if d != "freq" else len(self.freq)) if d in dims else 1 for d in target]
        return v.reshape(shp)

    def xr(self, name):
        import xarray as xr

        sp = self.specs[name]
        dims = self.dims(name)
        if not dims:
            v = sp["v"]
            if isinstance(v, (bool, np.bool_)):
                return bool(v)
            # whole-number directions / spreads / depths / gammas go in as python ints (as the test-suite passes them)
            return int(v) if name in INT_OK and float(v).is_integer() else float(v)
        v = np.asarray(sp["v"])
        coords = {d: (self.freq if d == "freq" else np.arange(v.shape[i])) for i, d in enumerate(dims)}
        return xr.DataArray(v if v.dtype == bool else v.astype(float), dims=dims, coords=coords, name=name)

    def collapse(self, idx):
        """specs of the single element idx (index into the extra dims); a freq dimension is kept."""
        out = {}
        for name, sp in self.specs.items():
            dims = self.dims(name)
            if not dims:
                out[name] = sp
                continue
            v = np.asarray(sp["v"])
            sel = tuple(slice(None) if d == "freq" else idx[self.extra.index(d)] for d in dims)
            w = v[sel]
            if "freq" in dims:
                out[name] = A(["freq"], w.tolist())
            else:
                out[name] = S(w.item())
        return out


def coord_in(vals, kind, name):
    import xarray as xr

    vals = np.asarray(vals, dtype=float)
    if kind == "list":
        return [float(x) for x in vals]
    if kind == "dataarray":
        return xr.DataArray(vals, coords={name: vals}, dims=(name,), name=name)
    if kind == "dataarray-unnamed":  # what a user builds by hand: the dimension is called freq/dir, the array itself has no name
        return xr.DataArray(vals, coords={name: vals}, dims=(name,))
    return vals


def extract(out, extra, tail_dims):
    """values of a DataArray as (*extra, *tail_dims); returns (array|None, message)"""
    want = list(extra) + list(tail_dims)
    if sorted(out.dims) != sorted(want):
        return None, "result dims %s, expected the dimensions %s" % (tuple(out.dims), tuple(want))
    return np.asarray(out.transpose(*want).values, dtype=np.float64), ""


# ---------------------------------------------------------------------------------------------
# reference model (closed forms pointwise; every integral is a plain loop over bins)
# ---------------------------------------------------------------------------------------------
def ref_df(f):
    n = len(f)
    if n == 1:
        return np.array([1.0])
    df = np.empty(n)
    df[0] = f[1] - f[0]
    df[-1] = f[-1] - f[-2]
    for i in range(1, n - 1):
        df[i] = (f[i + 1] - f[i - 1]) / 2.0
    return df


def ref_m0(Sf, f, tail=True):
    df = ref_df(f)
    e = np.zeros(Sf.shape[:-1])
    for i in range(len(f)):
        e = e + Sf[..., i] * df[i]
    if tail and f[-1] > 0.333:
        e = e + 0.25 * Sf[..., -1] * f[-1]
    return e


def ref_hs_trapz(Sf, f):
    """npstats flavour: trapezoid rule + the same tail"""
    e = np.zeros(Sf.shape[:-1])
    for i in range(len(f) - 1):
        e = e + 0.5 * (f[i + 1] - f[i]) * (Sf[..., i] + Sf[..., i + 1])
    if f[-1] > 0.333:
        e = e + 0.25 * Sf[..., -1] * f[-1]
    return 4 * np.sqrt(e)


def ref_scale(Sf, f, hs):
    with np.errstate(all="ignore"):
        return Sf * ((hs[..., 0] / (4 * np.sqrt(ref_m0(Sf, f)))) ** 2)[..., None]


def ref_pm(f, fp, alpha):
    with np.errstate(all="ignore"):
        return alpha * G_STD ** 2 / (2 * math.pi) ** 4 / f ** 5 * np.exp(-1.25 * (fp / f) ** 4)


def ref_jonswap(f, fp, alpha, gamma, sa, sb):
    sig = np.where(f <= fp, sa, sb)
    with np.errstate(all="ignore"):
        r = np.exp(-0.5 * ((f - fp) / (sig * fp)) ** 2)
        return ref_pm(f, fp, alpha) * np.exp(r * np.log(gamma))


_KCACHE = {}


def exact_k(f, h, g=G_DISP):
    key = (float(f), float(h), g)
    if key in _KCACHE:
        return _KCACHE[key]
    w2 = (2 * math.pi * f) ** 2
    lo, hi = 0.0, max(w2 / g, math.sqrt(w2 / (g * h))) * 2 + 1e-12
    for _ in range(200):
        mid = 0.5 * (lo + hi)
        if g * mid * math.tanh(mid * h) < w2:
            lo = mid
        else:
            hi = mid
    _KCACHE[key] = 0.5 * (lo + hi)
    return _KCACHE[key]


def phi_exact(f, dep):
    """Kitaigorodskii depth factor with the exact linear-dispersion wavenumber; dep shape (*extra, 1)."""
    out = np.empty(dep.shape[:-1] + (len(f),))
    flat = dep.reshape(-1)
    res = out.reshape(-1, len(f))
    memo = {}
    for n, h in enumerate(flat):
        h = float(h)
        if h not in memo:
            row = np.empty(len(f))
            for i, fi in enumerate(f):
                x = exact_k(float(fi), h) * h
                row[i] = math.tanh(x) ** 2 / (1 + (2 * x / math.sinh(2 * x) if x < 350 else 0.0))
            memo[h] = row
        res[n] = memo[h]
    return out


def deep_bound(f, dep):
    """Upper bound of 1 - phi from x = k*depth >= 0.99*k0*depth (k >= k0 = w^2/g; 1% covers the wavenumber
    approximation): 1 - tanh^2 x = sech^2 x <= 4 e^-2x and 2x/sinh 2x = 4x e^-2x/(1 - e^-4x), so
    1 - phi <= 4 e^-2x (1 + x)/(1 - e^-4x) =: B(x).  dep shape (*extra, 1) -> (*extra, nf)."""
    k0 = (2 * math.pi * f) ** 2 / G_DISP
    x = 0.99 * k0 * dep
    with np.errstate(all="ignore"):
        b = 4 * np.exp(-2 * x) * (1 + x) / (1 - np.exp(-4 * x))
    return np.where(x > 0.5, b, np.inf)


def ref_gaussian(f, hs, fp, gw):
    with np.errstate(all="ignore"):
        return (hs / 4) ** 2 / (gw * math.sqrt(2 * math.pi)) * np.exp(-0.5 * ((f - fp) / gw) ** 2)


def ref_shape(shape, f, P):
    """unscaled closed form, shape (*extra, nf)"""
    full = P.shape + (len(f),)
    if shape == "pierson_moskowitz":
        r = ref_pm(f, P.arr("fp"), P.arr("alpha"))
    elif shape in ("jonswap", "tma"):
        r = ref_jonswap(f, P.arr("fp"), P.arr("alpha"), P.arr("gamma"), P.arr("sigma_a"), P.arr("sigma_b"))
        if shape == "tma":
            r = r * phi_exact(f, np.broadcast_to(P.arr("dep"), P.shape + (1,)))
    elif shape == "gaussian":
        r = ref_gaussian(f, P.arr("hs"), P.arr("fp"), P.arr("gw"))
    else:
        raise ValueError(shape)
    return np.broadcast_to(r, full).copy()


def circ_diff(a, b):
    d = np.abs((np.asarray(a, dtype=float) - np.asarray(b, dtype=float)) % 360.0)
    return np.minimum(d, 360.0 - d)


def ref_cartwright(d, dm, dspr, under_90=False, tie_keep=None):
    """dm, dspr: arrays (...,) -> G (..., nd), normalised so that sum(G)*360/nd == 1; also the tie mask.
    under_90: a node within 1e-9 deg of 90 deg from dm is a tie: kept iff tie_keep[..., j] (default: kept)."""
    nd = len(d)
    s = 2.0 / (dspr * D2R) ** 2 - 1.0
    g = np.empty(np.shape(dm) + (nd,))
    tie = np.zeros(np.shape(dm), dtype=bool)
    for j in range(nd):
        dth = np.abs(((d[j] - dm + 180.0) % 360.0) - 180.0)
        with np.errstate(all="ignore"):
            v = np.exp(2 * s * np.log(np.cos(0.5 * dth * D2R)))
        v = np.where(np.cos(0.5 * dth * D2R) <= 0, np.where(s > 0, 0.0, np.inf), v)
        if under_90:
            near = np.abs(dth - 90.0) <= 1e-9
            tie |= near
            keep = ((dth <= 90.0) & ~near) | (near & (True if tie_keep is None else tie_keep[..., j]))
            v = np.where(keep, v, 0.0)
        g[..., j] = v
    tot = np.zeros(np.shape(dm))
    for j in range(nd):
        tot = tot + g[..., j]
    with np.errstate(all="ignore"):
        g = g / (tot * (360.0 / nd))[..., None]
    return g, tie


def ref_asym_params(f, dm, dpm, dspr, dpspr, fm, fp):
    """frequency dependent direction / spread of the Bunney et al. scheme as documented in the source comments;
    inputs (*extra, 1|nf) -> theta, sigma of shape (*extra, nf)"""
    dd = dm - dpm
    ds = np.maximum(dspr - dpspr, 0.0)
    df = np.maximum(fm - fp, 0.001)
    theta = dpm + (dd / df) * (f - fp)
    theta = np.minimum(1.5 * dpm, np.maximum(0.5 * dpm, theta))
    sigma = dpspr + (ds / df) * (f - fp)
    sigma = np.maximum(0.5 * dspr, np.minimum(1.5 * np.maximum(dspr, dpspr), sigma))
    sigma = np.where(sigma >= 0.14, sigma, 0.14)
    return theta, sigma


def moments(Gd, d, dd):
    """first circular moments over the last axis by a plain loop: (sum G sin, sum G cos) * dd"""
    ms = np.zeros(Gd.shape[:-1])
    mc = np.zeros(Gd.shape[:-1])
    for j in range(len(d)):
        ms = ms + Gd[..., j] * math.sin(d[j] * D2R)
        mc = mc + Gd[..., j] * math.cos(d[j] * D2R)
    return ms * dd, mc * dd


_ALIAS = {}


def alias_bounds(nd, dspr):
    """Rigorous bounds on what an nd-point uniform full-circle grid can measure for the continuous cos^2s(theta/2),
    s = 2/dspr^2 - 1 (whose exact first moment is s/(s+1), i.e. spread == dspr and direction == dm).
    Fourier series: G = (1/2pi) sum_k c_k e^{ik theta}, c_0 = 1, c_k/c_{k-1} = (s-k+1)/(s+k).  The grid sums alias
    k = m*nd -+ 1 into the first moment and k = m*nd into the zeroth one:
        |M1 - c_1| <= A1 = sum_{m>=1} |c_{m nd - 1}| + |c_{m nd + 1}|,   |M0 - 1| <= A0 = 2 sum_{m>=1} |c_{m nd}|
    for every position of dm relative to the nodes.  Returns (dm tolerance in degrees, lowest dspr, highest dspr)."""
    key = (int(nd), float(dspr))
    if key in _ALIAS:
        return _ALIAS[key]
    s = 2.0 / (dspr * D2R) ** 2 - 1.0
    p = 2 * s + 1
    M = 400
    K = M * nd + 1
    cs = [1.0]
    for k in range(1, K + 1):
        cs.append(cs[-1] * (s - k + 1) / (s + k))
    c1 = cs[1]
    a1 = sum(abs(cs[m * nd - 1]) + abs(cs[m * nd + 1]) for m in range(1, M + 1))
    # imaginary part of M1 (what turns the direction): sum_m (c_{m nd-1} - c_{m nd+1}) sin(m nd phi)
    b1 = sum(abs(cs[m * nd - 1] - cs[m * nd + 1]) for m in range(1, M + 1))
    a0 = 2 * sum(abs(cs[m * nd]) for m in range(1, M + 1))
    # tail k > K: |c_k| <= |c_K| ((K+1+s)/(k+1+s))^p because c_k/c_{k-1} = -(1 - p/(k+s)) and 1-x <= e^-x; three
    # residues per period: 3 |c_K| (K+1+s)^p * integral_M^inf (x nd + s)^-p dx
    if cs[K] == 0.0:
        tail = 0.0
    elif p > 1:
        tail = 3 * abs(cs[K]) * (K + 1 + s) * ((K + 1 + s) / (K - 1 + s)) ** (p - 1) / (nd * (p - 1))
    else:
        tail = float("inf")
    a1 += tail
    b1 += tail
    a0 += tail
    if not (a1 < c1 and a0 < 1):
        out = (float("inf"), 0.0, float("inf"))
    else:
        hi = min(1.0, (c1 + a1) / (1 - a0))
        lo = (c1 - a1) / (1 + a0)
        out = (math.asin(min(1.0, b1 / (c1 - a1))) * R2D, math.sqrt(2 * (1 - hi)) * R2D, math.sqrt(2 * (1 - lo)) * R2D)
    _ALIAS[key] = out
    return out


# ---------------------------------------------------------------------------------------------
# comparison helper: returns first offending index or None
# ---------------------------------------------------------------------------------------------
def first_bad(got, ref, tol, floor=None):
    """|got-ref| <= tol*|ref| + floor ; nan/inf anywhere in got is bad unless ref has the same"""
    got = np.asarray(got, dtype=float)
    ref = np.asarray(ref, dtype=float)
    if floor is None:
        floor = 0.0
    with np.errstate(all="ignore"):
        ok = np.abs(got - ref) <= tol * np.abs(ref) + floor
    ok |= np.isnan(got) & np.isnan(ref)
    if ok.all():
        return None
    return tuple(int(x) for x in np.argwhere(~ok)[0])


def rowfloor(ref, rel=1e-12):
    """absolute floor relative to the largest value of each spectrum (denormals / underflow are don't-care)"""
    with np.errstate(all="ignore"):
        m = np.nanmax(np.where(np.isfinite(ref), np.abs(ref), 0.0), axis=-1, keepdims=True)
    return rel * m + 1e-300


def pmode(P, names):
    return "dataarray" if any(P.has(n) and P.is_da(n) for n in names) else "scalar"


# ---------------------------------------------------------------------------------------------
# evaluator 1: frequency shapes
# ---------------------------------------------------------------------------------------------
def call_freq(shape, freq_in, P, names=None):
    from wavespectra.construct import frequency

    names = FREQ_PARAMS[shape] if names is None else names
    kw = {n: P.xr(n) for n in names if P.has(n)}
    return getattr(frequency, shape)(freq=freq_in, **kw)


def eval_freq(case):
    """returns list of (idx, op, clause, preds, msg) and info dict"""
    common.load_wavespectra()
    f = np.asarray(case["freq"], dtype=float)
    shape = case["shape"]
    P = PSet(case["params"], f)
    freq_in = coord_in(f, case.get("freq_type", "ndarray"), "freq")
    bad = []
    info = {"n": int(np.prod(P.shape)) if P.shape else 1, "deep": 0, "gamma1": 0}
    hs_given = P.has("hs")
    preds = ["tail" if f[-1] > 0.333 else "notail", "hs" if hs_given else "nohs", pmode(P, FREQ_PARAMS.get(shape, ["hs", "fp"]))]
    op = shape

    def add(idx, clause, msg, op_=None):
        bad.append((tuple(idx[:len(P.shape)]), op_ or op, clause, preds, msg))

    if shape == "conditional":
        return eval_conditional(case, f, P, freq_in, preds)
    out = call_freq(shape, freq_in, P)
    got, msg = extract(out, P.extra, ["freq"])
    if got is None:
        add((0,) * len(P.shape), "dims", msg)
        return bad, info
    if out.name != "efth" or not np.array_equal(np.asarray(out["freq"].values, dtype=float), f):
        add((0,) * len(P.shape), "dims", "result name %r / freq coordinate differ from the request" % (out.name,))
    # non-negative and finite
    okv = np.isfinite(got) & (got >= 0)
    if not okv.all():
        i = tuple(int(x) for x in np.argwhere(~okv)[0])
        add(i, "nonnegative", "%s value %r at freq index %d" % (shape, float(got[i]), i[-1]))
    # requested hs measured by the accessor
    if hs_given:
        hsr = np.broadcast_to(P.arr("hs")[..., 0], P.shape)
        hm, msg = extract(out.spec.hs(), P.extra, [])
        if hm is None:
            add((0,) * len(P.shape), "dims", "hs(): " + msg)
        else:
            i = first_bad(hm, hsr, HS_TOL)
            if i is not None:
                add(i, "hs", "%s built with hs=%r measures spec.hs()=%r" % (shape, float(hsr[i]), float(hm[i])))
    # closed form
    ref = ref_shape(shape, f, P)
    if hs_given:
        ref = ref_scale(ref, f, np.broadcast_to(P.arr("hs"), P.shape + (1,)))
    tol = FORM_TOL if shape != "tma" else (2 * PHI_TOL if hs_given else PHI_TOL)
    i = first_bad(got, ref, tol, rowfloor(ref))
    if i is not None:
        add(i, "closed-form", "%s at f=%g: got %r, closed form %r (rel tol %g)" % (shape, f[i[-1]], float(got[i]), float(ref[i]), tol))
    # jonswap(gamma=1) == pierson_moskowitz
    if shape == "jonswap":
        gam = np.broadcast_to(P.arr("gamma")[..., 0], P.shape)
        if (gam == 1.0).any():
            pm = call_freq("pierson_moskowitz", freq_in, P)
            pmv = np.asarray(pm.broadcast_like(out).transpose(*P.extra, "freq").values, dtype=float)
            sel = np.broadcast_to((gam == 1.0)[..., None], got.shape)
            info["gamma1"] = int((gam == 1.0).sum())
            i = first_bad(np.where(sel, got, 0.0), np.where(sel, pmv, 0.0), EQ_TOL, np.where(sel, rowfloor(pmv), 0.0))
            if i is not None:
                add(i, "gamma1==pm", "jonswap(gamma=1) %r != pierson_moskowitz %r at f=%g" % (float(got[i]), float(pmv[i]), f[i[-1]]))
    # tma(deep water) == jonswap
    if shape == "tma":
        jo = call_freq("jonswap", freq_in, P)
        jov = np.asarray(jo.broadcast_like(out).transpose(*P.extra, "freq").values, dtype=float)
        # depth factor on its own: tma == (the library's jonswap) x Kitaigorodskii factor with the exact wavenumber
        refd = jov * phi_exact(f, np.broadcast_to(P.arr("dep"), P.shape + (1,)))
        if hs_given:
            refd = ref_scale(refd, f, np.broadcast_to(P.arr("hs"), P.shape + (1,)))
        i = first_bad(got, refd, tol, rowfloor(refd))
        if i is not None:
            add(i, "depth-factor", "tma(dep=%r) at f=%g: got %r, jonswap x phi(exact k) = %r (rel tol %g)" % (
                float(np.broadcast_to(P.arr("dep")[..., 0], P.shape)[i[:-1]]), f[i[-1]], float(got[i]), float(refd[i]), tol))
        B = np.broadcast_to(deep_bound(f, P.arr("dep")), got.shape)
        Bmax = B.max(axis=-1)
        deep = Bmax <= 0.1
        info["deep"] = int((Bmax <= 1e-9).sum())
        info["deepish"] = int(deep.sum())
        with np.errstate(all="ignore"):
            tolr = (Bmax / (1 - Bmax))[..., None] * np.ones_like(B) if hs_given else B
        tolr = np.where(deep[..., None], tolr, np.inf) + 1e-12
        with np.errstate(all="ignore"):
            okd = (np.abs(got - jov) <= tolr * np.abs(jov) + rowfloor(jov)) | ~deep[..., None]
        if not okd.all():
            i = tuple(int(x) for x in np.argwhere(~okd)[0])
            add(i, "deep==jonswap", "tma(dep=%r) %r vs jonswap %r at f=%g: relative difference %.3g exceeds the bound %.3g on 1-phi" % (
                float(np.broadcast_to(P.arr("dep")[..., 0], P.shape)[i[:-1]]), float(got[i]), float(jov[i]), f[i[-1]],
                abs(got[i] / jov[i] - 1), float(tolr[i])))
    return bad, info


def eval_conditional(case, f, P, freq_in, preds):
    """conditional(cond) == where(cond, when_true(...), when_false(...)), and has the requested hs."""
    from wavespectra.construct import frequency

    bad = []
    info = {"n": int(np.prod(P.shape)) if P.shape else 1}
    wt, wf = case["when_true"], case["when_false"]
    kw = {n: P.xr(n) for n in P.specs}
    out = frequency.conditional(freq=freq_in, when_true=wt, when_false=wf, **kw)
    got, msg = extract(out, P.extra, ["freq"])
    if got is None:
        return [((0,) * len(P.shape), "conditional", "dims", preds, msg)], info
    refs = {}
    for nm in (wt, wf):
        r = ref_shape(nm, f, P)
        refs[nm] = ref_scale(r, f, np.broadcast_to(P.arr("hs"), P.shape + (1,)))
    cond = np.broadcast_to(P.arr("cond", dtype=bool), P.shape + (1,))
    ref = np.where(cond, refs[wt], refs[wf])
    i = first_bad(got, ref, FORM_TOL, rowfloor(ref))
    if i is not None:
        bad.append((i[:len(P.shape)], "conditional", "closed-form", preds, "conditional(%s/%s) at f=%g: got %r expected %r" % (
            wt, wf, f[i[-1]], float(got[i]), float(ref[i]))))
    hm, msg = extract(out.spec.hs(), P.extra, [])
    hsr = np.broadcast_to(P.arr("hs")[..., 0], P.shape)
    i = first_bad(hm, hsr, HS_TOL) if hm is not None else (0,) * len(P.shape)
    if i is not None:
        bad.append((i, "conditional", "hs", preds, "conditional built with hs=%r measures %r" % (
            float(hsr[i]), float(hm[i]) if hm is not None else None)))
    return bad, info


# ---------------------------------------------------------------------------------------------
# evaluator 2: spreading functions
# ---------------------------------------------------------------------------------------------
SPREAD_PARAMS = {"cartwright": ["dm", "dspr"], "asymmetric": ["dm", "dpm", "dspr", "dpspr", "fm", "fp"]}


def call_spread(func, dir_in, freq_in, P, under_90):
    from wavespectra.construct import direction

    kw = {n: P.xr(n) for n in SPREAD_PARAMS[func]}
    if func == "cartwright":
        return direction.cartwright(dir=dir_in, under_90=under_90, **kw)
    return direction.asymmetric(dir=dir_in, freq=freq_in, **kw)


def ref_spread(func, d, f, P, under_90, tie_keep=None):
    """reference G of shape (*extra, nf|1, nd), the tie mask, and the reference spread parameter (deg)"""
    if func == "cartwright":
        dm = np.broadcast_to(P.arr("dm"), np.broadcast_shapes(P.arr("dm").shape, P.arr("dspr").shape))
        ds = np.broadcast_to(P.arr("dspr"), dm.shape)
        full = P.shape + (dm.shape[-1],)
        return ref_cartwright(d, np.broadcast_to(dm, full), np.broadcast_to(ds, full), under_90, tie_keep) + (np.broadcast_to(ds, full),)
    a = [P.arr(n) for n in SPREAD_PARAMS["asymmetric"]]
    theta, sigma = ref_asym_params(f, *a)
    full = P.shape + (len(f),)
    return ref_cartwright(d, np.broadcast_to(theta, full), np.broadcast_to(sigma, full), False) + (np.broadcast_to(sigma, full),)


def spread_tail_dims(func, P):
    if func == "asymmetric" or P.freqdep(SPREAD_PARAMS[func]):
        return ["freq", "dir"]
    return ["dir"]


def eval_spread(case):
    common.load_wavespectra()
    func = case["func"]
    d = np.asarray(case["dir"], dtype=float)
    f = None if case.get("freq") is None else np.asarray(case["freq"], dtype=float)
    nd = len(d)
    dd = 360.0 / nd
    under_90 = bool(case.get("under_90", False))
    P = PSet(case["params"], f)
    dir_in = coord_in(d, case.get("dir_type", "ndarray"), "dir")
    freq_in = None if f is None else coord_in(f, case.get("freq_type", "ndarray"), "freq")
    preds = [pmode(P, SPREAD_PARAMS[func])] + (["under_90"] if under_90 else []) + (
        ["freqdep"] if func == "cartwright" and P.freqdep(SPREAD_PARAMS[func]) else [])
    bad = []
    info = {"n": int(np.prod(P.shape)) if P.shape else 1}

    def add(idx, clause, msg):
        bad.append((tuple(idx[:len(P.shape)]), func, clause, preds, msg))

    out = call_spread(func, dir_in, freq_in, P, under_90)
    tdims = spread_tail_dims(func, P)
    got, msg = extract(out, P.extra, tdims)
    if got is None:
        add((0,) * len(P.shape), "dims", msg)
        return bad, info
    if len(tdims) == 1:
        got = got[..., None, :]
    info["n"] *= got.shape[-2]
    okv = np.isfinite(got) & (got >= 0)
    if not okv.all():
        i = tuple(int(x) for x in np.argwhere(~okv)[0])
        add(i, "nonnegative", "%s value %r at dir %g (freq index %d)" % (func, float(got[i]), d[i[-1]], i[-2]))
    tot = np.zeros(got.shape[:-1])
    for j in range(nd):
        tot = tot + got[..., j]
    tot = tot * dd
    i = first_bad(tot, np.ones_like(tot), EQ_TOL)
    if i is not None:
        add(i, "normalisation", "%s: sum(G)*dd = %r (freq index %d), expected 1" % (func, float(tot[i]), i[-1]))
    # a node exactly 90 deg from dm (under_90) may be kept or dropped: take the library's own choice per node
    ref, tie, sig = ref_spread(func, d, f, P, under_90, (got > 0) if under_90 else None)
    flo = rowfloor(ref)
    with np.errstate(all="ignore"):
        okf = np.abs(got - ref) <= FORM_TOL * np.abs(ref) + flo
    # spread parameter >= sqrt(2) rad = 81.03 deg gives s = 2/sigma^2 - 1 <= 0: cos^2s is singular opposite to dm and the
    # values are set by the rounding of cos(pi/2); no closed form to compare with (normalisation / sign still checked)
    sing = sig >= S_LIMIT
    info["singular_rows"] = int(sing.sum())
    okf |= sing[..., None]
    if not okf.all():
        i = tuple(int(x) for x in np.argwhere(~okf)[0])
        add(i, "closed-form", "%s at dir %g (freq index %d): got %r, normalised cos^2s reference %r" % (
            func, d[i[-1]], i[-2], float(got[i]), float(ref[i])))
    return bad, info


# ---------------------------------------------------------------------------------------------
# evaluator 3: shape x spreading through construct_partition, measured by the accessor
# ---------------------------------------------------------------------------------------------
def eval_twod(case):
    ws = common.load_wavespectra()
    from wavespectra.construct import construct_partition

    shape, func = case["shape"], case["func"]
    f = np.asarray(case["freq"], dtype=float)
    d = np.asarray(case["dir"], dtype=float)
    nf, nd = len(f), len(d)
    dd = 360.0 / nd
    under_90 = bool(case.get("under_90", False))
    FP = PSet(case["fparams"], f)
    DP = PSet(case["dparams"], f)
    ALL = PSet(dict(list(case["fparams"].items()) + [("_d_" + k, v) for k, v in case["dparams"].items()]), f)
    extra = ALL.extra
    eshape = ALL.shape
    freq_in = coord_in(f, case.get("freq_type", "ndarray"), "freq")
    dir_in = coord_in(d, case.get("dir_type", "ndarray"), "dir")
    fdep = func == "asymmetric" or DP.freqdep(SPREAD_PARAMS[func])
    degenerate = False
    if func == "asymmetric":
        same = lambda a, b: DP.dims(a) == DP.dims(b) and np.array_equal(np.asarray(DP.specs[a]["v"]), np.asarray(DP.specs[b]["v"]))
        degenerate = bool(same("dm", "dpm") and same("dspr", "dpspr") and not DP.freqdep(["dm", "dspr"]))
    mode = "dataarray" if extra else "scalar"
    preds = [mode] + (["under_90"] if under_90 else []) + (["freqdep"] if fdep and not degenerate else [])
    op = "construct_partition(%s,%s)" % (shape, func)
    bad = []
    info = {"n": int(np.prod(eshape)) if eshape else 1, "resolved": 0, "unresolved": 0, "dm_conv": set()}

    def add(idx, clause, msg, extra_pred=()):
        bad.append((tuple(idx[:len(eshape)]), op, clause, preds + list(extra_pred), msg))

    fkw = {n: FP.xr(n) for n in FREQ_PARAMS[shape] if FP.has(n)}
    fkw["freq"] = freq_in
    dkw = {n: DP.xr(n) for n in SPREAD_PARAMS[func]}
    dkw["dir"] = dir_in
    if func == "asymmetric":
        dkw["freq"] = freq_in
    elif under_90:
        dkw["under_90"] = True
    E = construct_partition(freq_name=shape, dir_name=func, freq_kwargs=dict(fkw), dir_kwargs=dict(dkw))
    got, msg = extract(E, extra, ["freq", "dir"])
    zero = (0,) * len(eshape)
    if got is None:
        add(zero, "dims", msg)
        return bad, info
    okv = np.isfinite(got) & (got >= 0)
    if not okv.all():
        i = tuple(int(x) for x in np.argwhere(~okv)[0])
        add(i, "nonnegative", "E value %r at f=%g dir=%g" % (float(got[i]), f[i[-2]], d[i[-1]]))
    # the 1D shape as the library builds it on its own (the thing the 2D spectrum must integrate back to)
    S1 = call_freq(shape, freq_in, FP)
    S1v = np.asarray(S1.broadcast_like(E.isel(dir=0, drop=True)).transpose(*extra, "freq").values, dtype=float)
    flo = rowfloor(S1v)
    own = np.zeros(got.shape[:-1])
    for j in range(nd):
        own = own + got[..., j]
    own = own * dd
    i = first_bad(own, S1v, EQ_TOL, flo)
    if i is not None:
        add(i, "oned==shape", "sum over dir of E * dd = %r but the 1D shape is %r at f=%g" % (float(own[i]), float(S1v[i]), f[i[-1]]))
    sp = E.spec
    o1, msg = extract(sp.oned(), extra, ["freq"])
    if o1 is None:
        add(zero, "dims", "oned(): " + msg)
    else:
        i = first_bad(o1, S1v, EQ_TOL, flo)
        if i is not None:
            add(i, "oned==shape", "spec.oned() = %r but the 1D shape is %r at f=%g" % (float(o1[i]), float(S1v[i]), f[i[-1]]))
    if FP.has("hs"):
        hsr = np.broadcast_to(relayout(FP, ALL).arr("hs")[..., 0], eshape)
        hm, msg = extract(sp.hs(), extra, [])
        i = first_bad(hm, hsr, HS_TOL) if hm is not None else zero
        if i is not None:
            add(i, "hs", "2D spectrum built with hs=%r measures spec.hs()=%r" % (float(hsr[i]), float(hm[i]) if hm is not None else None))
    # measured direction and spread against own discrete first moments of the reference spreading
    DPa = relayout(DP, ALL)
    Gref, tie, _sig = ref_spread(func, d, f, DPa, under_90, None)  # (*extra, nf|1, nd)
    Gref = np.broadcast_to(Gref, eshape + (nf, nd))
    ms, mc = moments(Gref, d, dd)  # (*extra, nf)
    df = ref_df(f)
    Sw = np.broadcast_to(S1v, eshape + (nf,))
    dmm, msg = extract(sp.dm(), extra, [])
    dsm, msg2 = extract(sp.dspr(), extra, [])
    if dmm is None or dsm is None:
        add(zero, "dims", "dm()/dspr(): " + msg + msg2)
        return bad, info
    if dmm.dtype != np.float64:
        add(zero, "dims", "dm() dtype %s" % dmm.dtype)
    skip_tie = tie.any(axis=-1) if under_90 else np.zeros(eshape, dtype=bool)
    conv_ok = {}
    refs = {}
    for wname, w in (("sum", np.ones(nf)), ("dfweighted", df)):
        a = np.zeros(eshape)
        b = np.zeros(eshape)
        for k in range(nf):
            a = a + Sw[..., k] * ms[..., k] * w[k]
            b = b + Sw[..., k] * mc[..., k] * w[k]
        refs[wname] = (np.arctan2(a, b) * R2D) % 360.0
        conv_ok[wname] = (circ_diff(dmm, refs[wname]) <= DISC_TOL) | skip_tie
    if conv_ok["sum"].all():
        info["dm_conv"].add("sum")
    elif conv_ok["dfweighted"].all():
        info["dm_conv"].add("dfweighted")
    else:
        i = tuple(int(x) for x in np.argwhere(~conv_ok["sum"])[0])
        add(i, "dm==discrete", "spec.dm() = %r, own first moment of shape x reference spreading gives %r" % (float(dmm[i]), float(refs["sum"][i])))
    inrange = (dmm >= 0) & (dmm < 360)
    if not inrange.all():
        i = tuple(int(x) for x in np.argwhere(~inrange)[0])
        add(i, "dm-range", "spec.dm() = %r outside [0, 360)" % float(dmm[i]))
    a = np.zeros(eshape)
    b = np.zeros(eshape)
    e = np.zeros(eshape)
    for k in range(nf):
        a = a + Sw[..., k] * ms[..., k] * df[k]
        b = b + Sw[..., k] * mc[..., k] * df[k]
        e = e + Sw[..., k] * df[k]
    with np.errstate(all="ignore"):
        dsref = np.sqrt(2 * (1 - np.sqrt(a * a + b * b) / e)) * R2D
    okd = (np.abs(dsm - dsref) <= DISC_TOL * dsref) | skip_tie
    if not okd.all():
        i = tuple(int(x) for x in np.argwhere(~okd)[0])
        add(i, "dspr==discrete", "spec.dspr() = %r, own discrete first-moment spread of the normalised cos^2s is %r" % (float(dsm[i]), float(dsref[i])))
    # ... and against the requested values where the grid resolves the spread
    if (func == "cartwright" and not fdep and not under_90) or degenerate:
        dmr = np.broadcast_to(DPa.arr("dm")[..., 0], eshape)
        dsr = np.broadcast_to(DPa.arr("dspr")[..., 0], eshape)
        res = dd <= dsr / 2.0 + 1e-12
        tol_dm = np.zeros(eshape)
        lo = np.zeros(eshape)
        hi = np.zeros(eshape)
        for v in np.unique(dsr):
            t, l, h = alias_bounds(nd, float(v))
            tol_dm[dsr == v], lo[dsr == v], hi[dsr == v] = t, l, h
        info["resolved"] = int(res.sum())
        info["unresolved"] = int((~res).sum())
        info["worst_dspr_rel"] = float(np.max(np.where(res, np.abs(dsm / dsr - 1), 0.0)))
        info["worst_dm_deg"] = float(np.max(np.where(res, circ_diff(dmm, dmr), 0.0)))
        info["worst_dspr_tol_rel"] = float(np.max(np.where(res, np.maximum(hi / dsr - 1, 1 - lo / dsr), 0.0)))
        info["worst_dm_tol_deg"] = float(np.max(np.where(res, tol_dm, 0.0)))
        ok = (circ_diff(dmm, dmr) <= tol_dm + REQ_ROUND) | ~res
        if not ok.all():
            i = tuple(int(x) for x in np.argwhere(~ok)[0])
            add(i, "dm==requested", "requested dm=%r dspr=%r on a %g deg grid, spec.dm() = %r (aliasing bound %.3g deg)" % (
                float(dmr[i]), float(dsr[i]), dd, float(dmm[i]), float(tol_dm[i])), ["resolved"])
        ok = ((dsm >= lo * (1 - REQ_ROUND)) & (dsm <= hi * (1 + REQ_ROUND))) | ~res
        if not ok.all():
            i = tuple(int(x) for x in np.argwhere(~ok)[0])
            add(i, "dspr==requested", "requested dspr=%r (dm=%r) on a %g deg grid, spec.dspr() = %r outside the aliasing bounds [%r, %r]" % (
                float(dsr[i]), float(dmr[i]), dd, float(dsm[i]), float(lo[i]), float(hi[i])), ["resolved"])
    return bad, info


def relayout(P, ALL):
    """the same parameter set with its arrays laid out on the extra dims of ALL: arr() -> (*ALL.extra, nf|1)"""
    Q = PSet(P.specs, P.freq)
    Q.extra, Q.sizes, Q.shape = ALL.extra, ALL.sizes, ALL.shape
    return Q


# ---------------------------------------------------------------------------------------------
# evaluator 4: numpy twins used by the fitting code
# ---------------------------------------------------------------------------------------------
def eval_twin(case):
    """npstats.jonswap / npstats.gaussian against the closed form and against the xarray constructors.
    params: every spec is a scalar or an array over one dim "case"; the twin is called once per element."""
    common.load_wavespectra()
    from wavespectra.core import npstats

    f = np.asarray(case["freq"], dtype=float)
    func = case["func"]
    P = PSet(case["params"], f)
    N = P.shape[0] if P.shape else 1
    hs_given = P.has("hs")
    preds = ["tail" if f[-1] > 0.333 else "notail", "hs" if hs_given else "nohs"]
    op = "npstats." + func
    bad = []
    info = {"n": N}
    names = FREQ_PARAMS[func]
    vals = {n: np.broadcast_to(P.arr(n)[..., 0], P.shape or ()).reshape(-1) if P.shape else np.array([float(P.specs[n]["v"])]) for n in names if P.has(n)}
    got = np.empty((N, len(f)))
    for i in range(N):
        if func == "jonswap":
            got[i] = npstats.jonswap(f.copy(), float(vals["fp"][i]), float(vals["hs"][i]) if hs_given else None, gamma=float(vals["gamma"][i]),
                                     alpha=float(vals["alpha"][i]), sigma_a=float(vals["sigma_a"][i]), sigma_b=float(vals["sigma_b"][i]))
        else:
            got[i] = npstats.gaussian(f.copy(), float(vals["fp"][i]), float(vals["hs"][i]), float(vals["gw"][i]))
    got = got.reshape((P.shape or ()) + (len(f),)) if P.shape else got
    Pq = P if P.shape else PSet({k: A(["case"], [v["v"]]) for k, v in P.specs.items()}, f)
    ref = ref_shape(func, f, Pq)  # unscaled closed form (gaussian: area (hs/4)^2 by construction)
    idx0 = lambda i: tuple(i[:1])
    if func == "jonswap" and hs_given:
        with np.errstate(all="ignore"):
            ref_t = ref * ((Pq.arr("hs")[..., 0] / ref_hs_trapz(ref, f)) ** 2)[..., None]
    else:
        ref_t = ref
    i = first_bad(got, ref_t, FORM_TOL, rowfloor(ref_t))
    if i is not None:
        bad.append((idx0(i), op, "closed-form", preds, "%s at f=%g: got %r, closed form %r" % (op, f[i[-1]], float(got[i]), float(ref_t[i]))))
    okv = np.isfinite(got) & (got >= 0)
    if not okv.all():
        i = tuple(int(x) for x in np.argwhere(~okv)[0])
        bad.append((idx0(i), op, "nonnegative", preds, "%s value %r" % (op, float(got[i]))))
    # agreement with the xarray constructor: same shape, i.e. proportional with one factor per spectrum
    out = call_freq(func, f, Pq)
    xv = np.asarray(out.transpose("case", "freq").values, dtype=float)
    with np.errstate(all="ignore"):
        kpk = np.argmax(xv, axis=-1)
        fac = np.take_along_axis(got, kpk[:, None], axis=-1) / np.take_along_axis(xv, kpk[:, None], axis=-1)
    i = first_bad(got, xv * fac, FORM_TOL, rowfloor(got))
    if i is not None:
        bad.append((idx0(i), op, "twin==constructor", preds, "%s is not proportional to construct.%s: at f=%g twin %r, constructor*factor %r" % (
            op, func, f[i[-1]], float(got[i]), float((xv * fac)[i]))))
    if not hs_given:
        i = first_bad(fac, np.ones_like(fac), FORM_TOL)
        if i is not None:
            bad.append((idx0(i), op, "twin==constructor", preds, "%s / construct.%s = %r without hs scaling" % (op, func, float(fac[i]))))
    return bad, info


# ---------------------------------------------------------------------------------------------
# replay / signatures
# ---------------------------------------------------------------------------------------------
EVAL = {"freq": eval_freq, "spread": eval_spread, "twod": eval_twod, "twin": eval_twin}
PKEYS = {"freq": ["params"], "spread": ["params"], "twod": ["fparams", "dparams"], "twin": ["params"]}


def signature(op, clause, preds):
    return "%s|%s|%s" % (op, clause, ",".join(preds))


def collapse_case(case, idx):
    """the single element idx of a batched case, with scalar parameters"""
    kind = case["kind"]
    f = case.get("freq")
    if kind == "twod":
        ALL = PSet(dict(list(case["fparams"].items()) + [("_d_" + k, v) for k, v in case["dparams"].items()]), f)
        c = ALL.collapse(idx)
        new = dict(case)
        new["fparams"] = {k: v for k, v in c.items() if not k.startswith("_d_")}
        new["dparams"] = {k[3:]: v for k, v in c.items() if k.startswith("_d_")}
        return new
    P = PSet(case["params"], f)
    new = dict(case)
    new["params"] = P.collapse(idx)
    return new


def is_batched(case):
    for k in PKEYS[case["kind"]]:
        for sp in case[k].values():
            if sp is not None and [d for d in (sp.get("dims") or []) if d != "freq"]:
                return True
    return False


def evaluate(case):
    """run one (possibly batched) case; every failure is re-run as a single scalar-parameter case first."""
    bad, info = EVAL[case["kind"]](case)
    out = []
    seen = set()
    for (idx, op, clause, preds, msg) in bad:
        key = (op, clause)
        if key in seen:
            continue
        seen.add(key)
        if is_batched(case) and case["kind"] != "twin":
            single = collapse_case(case, idx)
            b2, _ = EVAL[case["kind"]](single)
            hit = [x for x in b2 if x[1] == op and x[2] == clause]
            if hit:
                _, op2, cl2, pr2, msg2 = hit[0]
                out.append(Violation(PROP, signature(op2, cl2, pr2), msg2, single))
                continue
            out.append(Violation(PROP, signature(op, clause, preds + ["batched-only"]), msg + " (element %s of the batch; the same parameters as scalars pass)" % (idx,), case))
        elif case["kind"] == "twin" and is_batched(case):
            single = collapse_case(case, idx)
            b2, _ = eval_twin(single)
            hit = [x for x in b2 if x[1] == op and x[2] == clause]
            out.append(Violation(PROP, signature(op, clause, preds), hit[0][4] if hit else msg, single if hit else case))
        else:
            out.append(Violation(PROP, signature(op, clause, preds), msg, case))
    return out, info


def replay(case):
    vs, _ = evaluate(case)
    return vs


# ---------------------------------------------------------------------------------------------
# menus
# ---------------------------------------------------------------------------------------------
def freq_grids(tier, seed):
    g = [
        ("lin0.03-0.30/0.01(notail)", np.round(np.arange(0.03, 0.3001, 0.01), 10)),
        ("log0.04*1.1^k(tail)", 0.04 * 1.1 ** np.arange(25)),
        ("lin0.05-0.50/0.025(tail)", np.round(np.arange(0.05, 0.5001, 0.025), 10)),
    ]
    if tier == "thorough":
        irr = np.array([0.035, 0.04, 0.05, 0.055, 0.07, 0.08, 0.085, 0.1, 0.11, 0.125, 0.13, 0.15, 0.16, 0.2, 0.21, 0.25, 0.3, 0.32])
        g += [
            ("irregular0.035-0.32(notail)", irr),
            ("lin0.03-0.40/0.002(tail)", np.round(np.arange(0.03, 0.4001, 0.002), 10)),
            ("log0.0373*1.07^k-to-0.3329(notail,just below 0.333)", 0.3329 / 1.07 ** np.arange(32)[::-1]),
            ("lin0.04-0.334/0.006(tail,just above 0.333)", np.round(np.arange(0.04, 0.3341, 0.006), 10)),
        ]
    return g


OFFNODE_FP = [(0.0853, 0.1234), (0.0777, 0.1111), (0.0921, 0.1357), (0.0689, 0.1473), (0.0815, 0.1192)]
EXTRA_DM = [7.3, 123.4, 271.8, 44.9, 333.3]


def fp_menu(f, tier, seed):
    def node(x):
        return float(f[int(np.argmin(np.abs(f - x)))])

    off = OFFNODE_FP[seed % len(OFFNODE_FP)]
    m = [node(0.1), off[1], node(0.16), off[0]]
    if tier == "thorough":
        m += [node(0.07), 0.2 + 0.0007 * (seed % 5 + 1)]
    return m


def menus(tier, seed):
    m = dict(
        hs=[1.0, 0.1, 7.0],
        gamma=[1.0, 3.3, 2.0, 7.0],
        alpha=[0.0081, 0.001, 0.02],
        sigma_a=[0.07, 0.05, 0.09],
        sigma_b=[0.09, 0.07, 0.12],
        dep=[50.0, 5.0, 5000.0],
        gw=[0.02, 0.01, 0.05, 0.1],
        nd=[24, 12, 36, 72],
        dm=[0.0, 0.5, 359.5, 90.0, 180.0, EXTRA_DM[seed % len(EXTRA_DM)]],
        dspr=[30.0, 10.0, 20.0, 45.0, 60.0],
    )
    base = {k: list(v) for k, v in m.items()}
    if tier == "thorough":
        m["hs"] += [0.01, 15.0]
        m["gamma"] += [1.5, 5.0, 10.0]
        m["alpha"] += [0.005]
        m["sigma_a"] += [0.03]
        m["sigma_b"] += [0.15]
        m["dep"] += [2.0, 20.0, 500.0, 1000.0, 20000.0]
        m["gw"] += [0.005, 0.03]
        m["dm"] += [270.0, 355.0, 359.999, 15.0, 187.5]
        m["dspr"] += [15.0, 25.0, 40.0, 50.0]
    return m, base


def dir_grids(nd, tier):
    dd = 360.0 / nd
    asc = np.arange(nd) * dd
    g = [("asc0", asc), ("asc+dd/2", asc + dd / 2)]
    if nd == 24 or tier == "thorough":
        g.append(("desc", asc[::-1].copy()))
    if tier == "thorough":
        g.append(("rotated", np.roll(asc, nd // 3)))
        g.append(("asc+dd/3", asc + dd / 3))
    return g


def product_specs(names, menu, dimname="case", layout="case"):
    """full Cartesian product of the menus of `names`, each as an array over the extra dim(s); first name varies fastest"""
    lists = [menu[n] for n in names]
    combos = list(itertools.product(*lists[::-1]))
    cols = {n: [c[len(names) - 1 - i] for c in combos] for i, n in enumerate(names)}
    return cols, len(combos)


def as_specs(cols, N, layout):
    if layout == "time_site" and N % 2 == 0 and N > 2:
        return {n: A(["time", "site"], np.asarray(v).reshape(2, N // 2).tolist()) for n, v in cols.items()}
    if layout == "site_time" and N % 3 == 0 and N > 3:
        return {n: A(["site", "time"], np.asarray(v).reshape(N // 3, 3).tolist()) for n, v in cols.items()}
    return {n: A(["case"], list(v)) for n, v in cols.items()}


# ---------------------------------------------------------------------------------------------
# work items
# ---------------------------------------------------------------------------------------------
CHUNK = 4000


def work_items(tier, seed):
    M, B = menus(tier, seed)
    items = []
    grids = freq_grids(tier, seed)
    layouts = ["case", "time_site", "site_time"]
    li = 0
    # ---- 1D shapes, scalar parameters: full product of the base menus (hs incl. "not given")
    for gi, (gname, f) in enumerate(grids):
        fps = fp_menu(f, "quick", seed)
        ftype = ["ndarray", "list", "dataarray"][gi % 3]
        for shape in ("pierson_moskowitz", "gaussian", "jonswap", "tma"):
            for hs in B["hs"] + [None]:
                if shape == "gaussian" and hs is None:
                    continue
                for fp in fps:
                    items.append(dict(kind="freq_scalar", grid=gname, freq=f, freq_type=ftype, shape=shape, hs=hs, fp=fp, menu=B, tier=tier,
                                      ci0=len(items), order=(0, SHAPE_ORDER[shape])))
    # ---- 1D shapes, every parameter a DataArray over extra dims: full product of the tier's menus, in chunks
    for gi, (gname, f) in enumerate(grids):
        fps = fp_menu(f, tier, seed)
        for shape in ("pierson_moskowitz", "gaussian", "jonswap", "tma"):
            for hs_given in (True, False):
                if shape == "gaussian" and not hs_given:
                    continue
                names = [n for n in FREQ_PARAMS[shape] if n != "hs" or hs_given]
                # fastest varying first
                pri = ["hs", "fp", "gamma", "dep", "gw", "sigma_b", "sigma_a", "alpha"]
                names = [n for n in pri if n in names]
                menu = dict(M, fp=fps)
                cols, N = product_specs(names, menu)
                for s in range(0, N, CHUNK):
                    sub = {n: v[s:s + CHUNK] for n, v in cols.items()}
                    n = len(next(iter(sub.values())))
                    li += 1
                    items.append(dict(kind="freq_da", grid=gname, freq=f, freq_type=["dataarray", "ndarray", "list"][gi % 3], shape=shape,
                                      specs=as_specs(sub, n, layouts[li % 3]), order=(1, SHAPE_ORDER[shape])))
        items.append(dict(kind="freq_mixed", grid=gname, freq=f, menu=dict(B, fp=fp_menu(f, "quick", seed)), tier=tier, order=(2, 0)))
        items.append(dict(kind="conditional", grid=gname, freq=f, menu=dict(B, fp=fp_menu(f, "quick", seed)), order=(2, 1)))
        items.append(dict(kind="twin", grid=gname, freq=f, menu=dict(M, fp=fps), order=(2, 2)))
    # ---- spreading functions; asymmetric and the 2D products pair every direction grid with one (quick) / three
    # (thorough) frequency grids in rotation, and the plain 24-direction grid with every frequency grid
    ng = len(grids)
    pair = 0
    for nd in M["nd"]:
        for dname, d in dir_grids(nd, tier):
            pair += 1
            items.append(dict(kind="spread", grid="%d/%s" % (nd, dname), dir=d, menu=M, fgrid=grids[pair % ng], seed=seed, order=(3, nd)))
            with_f = {pair % ng} if tier == "quick" else {pair % ng, (pair + 2) % ng, (pair + 4) % ng}
            if nd == 24 and dname == "asc0":
                with_f = set(range(ng))
            for gi, (gname, f) in enumerate(grids):
                if gi not in with_f:
                    continue
                items.append(dict(kind="asym", grid="%d/%s" % (nd, dname), dir=d, freq=f, fgrid=gname, menu=M, tier=tier, seed=seed, order=(4, nd)))
                items.append(dict(kind="twod", grid="%s x %d/%s" % (gname, nd, dname), dir=d, freq=f, menu=M, tier=tier, seed=seed,
                                  scalar=(tier == "quick" or gi == pair % ng), gi=gi, order=(5, nd)))
    # ---- narrow beams (swell): spreads of 3..8.5 degrees on 2 and 1 degree grids, which resolve them
    Mn = dict(M, dspr=[5.0, 3.0, 7.5, 8.5])
    for nd in (180, 360):
        dname, d = dir_grids(nd, "quick")[nd // 360]
        items.append(dict(kind="spread", grid="%d/%s/narrow" % (nd, dname), dir=d, menu=Mn, fgrid=grids[nd % ng], seed=seed, order=(3, nd)))
    gname, f = grids[seed % ng]
    items.append(dict(kind="twod", grid="%s x 180/asc0/narrow" % gname, dir=dir_grids(180, "quick")[0][1], freq=f, menu=Mn, tier=tier, seed=seed,
                      scalar=True, gi=seed % ng, order=(5, 180)))
    items.sort(key=lambda it: it["order"])
    # written-out samples: one per kind of work (first = simplest item of the kind; one per shape for the scalar 1D items)
    seen = set()
    for it in items:
        key = (it["kind"], it.get("shape") if it["kind"] == "freq_scalar" else None)
        if key not in seen and it["kind"] in ("freq_scalar", "twin", "spread", "asym", "twod"):
            seen.add(key)
            it["sample"] = True
    return items


SHAPE_ORDER = {"pierson_moskowitz": 0, "gaussian": 1, "jonswap": 2, "tma": 3}


class Acc:
    def __init__(self):
        self.res = {"evals": 0, "n_nontrivial": 0, "samples": [], "outcomes": {}, "violations": [], "parts": {}, "worst": {}}
        self.sigs = set()
        self.sampling = False

    def run(self, part, case, nontrivial=True, sample=False):
        vs, info = evaluate(case)
        n = int(info.get("n", 1))
        self.res["evals"] += n
        self.res["parts"][part] = self.res["parts"].get(part, 0) + n
        if nontrivial:
            self.res["n_nontrivial"] += n
        for v in vs:
            if v.signature not in self.sigs or len(self.res["violations"]) < 3:
                self.res["violations"].append(v)
            self.sigs.add(v.signature)
        oc = self.res["outcomes"]
        for k in ("deep", "deepish", "gamma1", "resolved", "unresolved", "singular_rows"):
            if info.get(k):
                oc[part.split(":")[0] + ":" + k] = oc.get(part.split(":")[0] + ":" + k, 0) + int(info[k])
        for c in info.get("dm_conv", ()):
            oc["dm_convention=" + c] = oc.get("dm_convention=" + c, 0) + 1
        for k in ("worst_dspr_rel", "worst_dm_deg", "worst_dspr_tol_rel", "worst_dm_tol_deg"):
            if k in info:
                self.res["worst"][k] = max(self.res["worst"].get(k, 0.0), info[k])
        oc["ok" if not vs else "violating"] = oc.get("ok" if not vs else "violating", 0) + 1
        if sample and self.sampling and len(self.res["samples"]) < 1:
            self.res["samples"].append(case)
        return vs


def item_freq_scalar(it, acc):
    B = it["menu"]
    shape = it["shape"]
    f = it["freq"]
    base = {"fp": S(it["fp"])}
    if it["hs"] is not None:
        base["hs"] = S(it["hs"])
    if shape == "pierson_moskowitz":
        rest = [("alpha", B["alpha"])]
    elif shape == "gaussian":
        rest = [("gw", B["gw"])]
    elif it["tier"] == "thorough":
        rest = [(n, B[n]) for n in ["gamma"] + (["dep"] if shape == "tma" else []) + ["sigma_a", "sigma_b"]]
    else:
        rest = [(n, B[n]) for n in ["gamma"] + (["dep"] if shape == "tma" else [])]
    # Scalar mode is one constructor call per element and each call costs ~30 ms in the accessor, so here:
    # full product of (hs | not given, fp, gamma, dep) [thorough: x sigma_a x sigma_b]; alpha (a pure multiplier) and, in
    # quick, the (sigma_a, sigma_b) pair cycle with the combination index so that every value / pair still occurs.
    # The complete product of all menus is taken with DataArray parameters (item_freq_da).
    names = [r[0] for r in rest]
    pairs = list(itertools.product(B["sigma_a"], B["sigma_b"]))
    first = True
    for ci, combo in enumerate(itertools.product(*[r[1] for r in rest][::-1])):
        params = dict(base)
        for n, v in zip(names[::-1], combo):
            params[n] = S(v)
        if shape in ("jonswap", "tma"):
            cj = ci + it["ci0"]
            params["alpha"] = S(B["alpha"][cj % len(B["alpha"])])
            if "sigma_a" not in params:
                for k in range(3 if shape == "tma" else len(pairs)):
                    sa, sb = pairs[(cj * 3 + k * (len(pairs) // 3) + k) % len(pairs)] if shape == "tma" else pairs[k]
                    q = dict(params, sigma_a=S(sa), sigma_b=S(sb))
                    acc.run("1d-scalar:" + shape, dict(kind="freq", shape=shape, freq=f, freq_type=it["freq_type"], params=q), sample=first)
                    first = False
                continue
        acc.run("1d-scalar:" + shape, dict(kind="freq", shape=shape, freq=f, freq_type=it["freq_type"], params=params), sample=first)
        first = False


def item_freq_da(it, acc):
    acc.run("1d-dataarray:" + it["shape"], dict(kind="freq", shape=it["shape"], freq=it["freq"], freq_type=it["freq_type"], params=it["specs"]))


def item_freq_mixed(it, acc):
    """every non-empty proper subset (quick: size 1, 2 and all-but-one) of the parameters as DataArrays over one extra
    dim (full product of the subset's menus), the remaining parameters scalars at two corner settings."""
    B = it["menu"]
    f = it["freq"]
    for shape in ("pierson_moskowitz", "gaussian", "jonswap", "tma"):
        names = FREQ_PARAMS[shape]
        for r in range(1, len(names)):
            if it["tier"] == "quick" and r not in (1, 2, len(names) - 1):
                continue
            for sub in itertools.combinations(names, r):
                cols, N = product_specs(list(sub), B)
                if N > CHUNK:
                    continue  # the all-parameter batches cover these
                for corner in (0, -1):
                    params = as_specs(cols, N, "case")
                    for n in names:
                        if n not in sub:
                            params[n] = S(B[n][corner])
                    acc.run("1d-mixed:" + shape, dict(kind="freq", shape=shape, freq=f, freq_type="ndarray", params=params), nontrivial=False)
                    # hs not given (where it is optional) with the same subset
                    if "hs" not in sub and shape != "gaussian":
                        p2 = {k: v for k, v in params.items() if k != "hs"}
                        acc.run("1d-mixed:" + shape, dict(kind="freq", shape=shape, freq=f, freq_type="ndarray", params=p2), nontrivial=False)


def item_conditional(it, acc):
    B = it["menu"]
    f = it["freq"]
    cols, N = product_specs(["hs", "fp", "gamma", "gw"], B)
    cond = [bool((i // 3 + i) % 2) for i in range(N)]
    for wt, wf in (("jonswap", "gaussian"), ("gaussian", "pierson_moskowitz")):
        params = as_specs(cols, N, "case")
        params["cond"] = A(["case"], cond)
        for n in ("alpha", "sigma_a", "sigma_b"):
            params[n] = S(B[n][0])
        acc.run("1d-conditional", dict(kind="freq", shape="conditional", when_true=wt, when_false=wf, freq=f, params=params))
        for c in (True, False):
            p = {n: S(B[n][1]) for n in ("hs", "fp", "gamma", "gw", "alpha", "sigma_a", "sigma_b")}
            p["cond"] = S(c)
            acc.run("1d-conditional", dict(kind="freq", shape="conditional", when_true=wt, when_false=wf, freq=f, params=p))


def item_twin(it, acc):
    M = it["menu"]
    f = it["freq"]
    for hs_given in (True, False):
        names = ["fp", "gamma", "sigma_a", "sigma_b", "alpha"] + (["hs"] if hs_given else [])
        cols, N = product_specs(names, M)
        for s in range(0, N, CHUNK):
            sub = {n: v[s:s + CHUNK] for n, v in cols.items()}
            acc.run("twin:jonswap", dict(kind="twin", func="jonswap", freq=f, params=as_specs(sub, len(sub["fp"]), "case")), sample=(s == 0))
    cols, N = product_specs(["hs", "fp", "gw"], M)
    acc.run("twin:gaussian", dict(kind="twin", func="gaussian", freq=f, params=as_specs(cols, N, "case")))


def item_spread(it, acc):
    M = it["menu"]
    d = it["dir"]
    gname, f = it["fgrid"]
    first = True
    for u90 in (False, True):
        # scalar parameters, full product
        for dspr in M["dspr"]:
            for dm in M["dm"]:
                acc.run("spread-scalar:cartwright", dict(kind="spread", func="cartwright", dir=d, dir_type=["ndarray", "list", "dataarray"][int(dspr) % 3],
                                                          under_90=u90, params={"dm": S(dm), "dspr": S(dspr)}), sample=first)
                first = False
        # both DataArrays over extra dims (full product), one of them a DataArray
        cols, N = product_specs(["dm", "dspr"], M)
        for lay in ("case", "time_site"):
            acc.run("spread-dataarray:cartwright", dict(kind="spread", func="cartwright", dir=d, under_90=u90, params=as_specs(cols, N, lay),
                                                         dir_type="ndarray" if lay == "case" else "dataarray-unnamed"))
        for dspr in M["dspr"]:
            acc.run("spread-dataarray:cartwright", dict(kind="spread", func="cartwright", dir=d, under_90=u90,
                                                         params={"dm": A(["case"], M["dm"]), "dspr": S(dspr)}), nontrivial=False)
        for dm in M["dm"]:
            acc.run("spread-dataarray:cartwright", dict(kind="spread", func="cartwright", dir=d, under_90=u90,
                                                         params={"dm": S(dm), "dspr": A(["case"], M["dspr"])}), nontrivial=False)
        # frequency dependent direction / spread (what asymmetric feeds into cartwright): every (dm0, slope) x (dspr0, growth)
        for dm0 in M["dm"]:
            for slope in (40.0, -400.0):
                for ds0 in M["dspr"][:3]:
                    for grow in (0.0, 60.0):
                        dmf = (dm0 + slope * (f - f[len(f) // 3])) % 360.0
                        dsf = np.clip(ds0 + grow * (f - f[0]), 5.0, 75.0)
                        acc.run("spread-freqdep:cartwright", dict(kind="spread", func="cartwright", dir=d, freq=f, under_90=u90,
                                                                  params={"dm": A(["freq"], dmf.tolist()), "dspr": A(["freq"], dsf.tolist())}))


def asym_menu(M, f, tier, seed):
    fps = fp_menu(f, "quick", seed)[:2]
    m = dict(
        dpm=[90.0, 0.5, 359.5, 180.0, 0.0, EXTRA_DM[seed % len(EXTRA_DM)]],
        ddm=[0.0, 1.0, -1.0, 20.0, -20.0],
        dspr=[30.0, 20.0, 45.0],
        dpspr=[25.0, 10.0, 30.0, 45.0],
        dfm=[0.02, 0.0, -0.01, 0.05],
        fp=fps,
    )
    if tier == "thorough":
        m["ddm"] += [90.0, -170.0]
        m["dspr"] += [10.0, 60.0]
        m["dpspr"] += [60.0]
        m["dfm"] += [0.0005, 0.1]
    return m


def asym_cols(m):
    cols, N = product_specs(["ddm", "dpm", "dfm", "dpspr", "dspr", "fp"], m)
    out = {
        "dpm": cols["dpm"],
        "dm": [float((p + x) % 360.0) for p, x in zip(cols["dpm"], cols["ddm"])],
        "dspr": cols["dspr"], "dpspr": cols["dpspr"], "fp": cols["fp"],
        "fm": [float(a + b) for a, b in zip(cols["fp"], cols["dfm"])],
    }
    return out, N


def item_asym(it, acc):
    d, f = it["dir"], it["freq"]
    big = it["tier"] == "thorough" and len(f) * len(d) <= 2500
    m = asym_menu(it["menu"], f, "thorough" if big else "quick", it["seed"])
    cols, N = asym_cols(m)
    ch = max(50, int(1.2e6 // (len(f) * len(d))))
    li = 0
    for s in range(0, N, ch):
        sub = {n: v[s:s + ch] for n, v in cols.items()}
        li += 1
        acc.run("spread-dataarray:asymmetric", dict(kind="spread", func="asymmetric", dir=d, freq=f, params=as_specs(sub, len(sub["dm"]), ["case", "time_site"][li % 2])))
    # scalar parameters: every 7th element of the product (thorough, nd=12: every 3rd); all menu values still occur
    step = 3 if it["tier"] == "thorough" and len(d) <= 12 else 7
    for i in range(0, N, step):
        acc.run("spread-scalar:asymmetric", dict(kind="spread", func="asymmetric", dir=d, freq=f, freq_type=["ndarray", "list", "dataarray"][i % 3],
                                                  dir_type=["dataarray", "ndarray", "list", "dataarray-unnamed"][i % 4], params={n: S(v[i]) for n, v in cols.items()}), sample=(i == 0))


def shape_variants(M, f, tier, seed):
    fps = fp_menu(f, "quick", seed)
    v = [
        ("jonswap", {"hs": S(2.0), "fp": S(fps[0]), "gamma": S(3.3), "alpha": S(0.0081), "sigma_a": S(0.07), "sigma_b": S(0.09)}),
        ("pierson_moskowitz", {"hs": S(0.1), "fp": S(fps[1]), "alpha": S(0.0081)}),
        ("tma", {"hs": S(7.0), "fp": S(fps[2]), "dep": S(5.0), "gamma": S(2.0), "alpha": S(0.02), "sigma_a": S(0.05), "sigma_b": S(0.12)}),
        ("gaussian", {"hs": S(1.0), "fp": S(fps[3]), "gw": S(0.02)}),
        ("jonswap", {"fp": S(fps[1]), "gamma": S(1.0), "alpha": S(0.001), "sigma_a": S(0.09), "sigma_b": S(0.07)}),  # hs not given
        ("tma", {"hs": S(1.0), "fp": S(fps[0]), "dep": S(5000.0), "gamma": S(7.0), "alpha": S(0.0081), "sigma_a": S(0.07), "sigma_b": S(0.09)}),
    ]
    return v


def item_twod(it, acc):
    M = it["menu"]
    d, f = it["dir"], it["freq"]
    variants = shape_variants(M, f, it["tier"], it["seed"])
    cols, N = product_specs(["dm", "dspr"], M)
    first = True
    for vi, (shape, fpar) in enumerate(variants):
        for u90 in (False, True):
            # dm, dspr DataArrays over one / two extra dims (full product), shape parameters scalars
            acc.run("2d-dataarray:cartwright", dict(kind="twod", shape=shape, func="cartwright", freq=f, dir=d, under_90=u90, fparams=fpar,
                                                    dparams=as_specs(cols, N, ["case", "time_site"][vi % 2])))
        # scalar parameters, full (dm, dspr, under_90) product
        if it["scalar"] and vi == it["gi"] % 4:
            for u90 in (False, True):
                for dspr in M["dspr"]:
                    for dm in M["dm"]:
                        acc.run("2d-scalar:cartwright", dict(kind="twod", shape=shape, func="cartwright", freq=f, dir=d, under_90=u90, fparams=fpar,
                                                             dir_type=["ndarray", "list", "dataarray"][int(dspr) % 3],
                                                             dparams={"dm": S(dm), "dspr": S(dspr)}), sample=first)
                        first = False
    # shape parameters and direction parameters DataArrays over the same dim (zipped) and over different dims (crossed)
    for shape, names in (("jonswap", ["hs", "fp", "gamma"]), ("gaussian", ["hs", "fp", "gw"]), ("tma", ["hs", "dep", "fp"])):
        fcols, Nf = product_specs(names, dict(M, fp=fp_menu(f, "quick", it["seed"])))
        fixed = {n: S(M[n][0]) for n in FREQ_PARAMS[shape] if n not in names}
        fz = {n: A(["case"], [v[i % Nf] for i in range(max(N, Nf))]) for n, v in fcols.items()}
        dz = {n: A(["case"], [v[i % N] for i in range(max(N, Nf))]) for n, v in cols.items()}
        acc.run("2d-dataarray:cartwright", dict(kind="twod", shape=shape, func="cartwright", freq=f, dir=d, fparams=dict(fixed, **fz), dparams=dz))
        xcols, _ = product_specs(names, {n: dict(M, fp=fp_menu(f, "quick", it["seed"]))[n][:2] for n in names})
        fx = {n: A(["site"], v) for n, v in xcols.items()}
        dx = {n: A(["time"], v) for n, v in cols.items()}
        acc.run("2d-dataarray:cartwright", dict(kind="twod", shape=shape, func="cartwright", freq=f, dir=d, fparams=dict(fixed, **fx), dparams=dx))
    # frequency dependent dm / dspr through cartwright
    shape, fpar = variants[it["gi"] % 4]
    for dm0 in M["dm"]:
        for slope in (40.0, -400.0):
            for ds0 in M["dspr"][:3]:
                dmf = (dm0 + slope * (f - f[len(f) // 3])) % 360.0
                dsf = np.clip(ds0 + 60.0 * (f - f[0]), 5.0, 75.0)
                acc.run("2d-freqdep:cartwright", dict(kind="twod", shape=shape, func="cartwright", freq=f, dir=d, fparams=fpar,
                                                      dparams={"dm": A(["freq"], dmf.tolist()), "dspr": A(["freq"], dsf.tolist())}))
    # asymmetric: degenerate (dm == dpm, dspr == dpspr -> the requested values are unambiguous) and general
    fp0 = fpar["fp"]["v"]
    dg = {"dm": cols["dm"], "dpm": cols["dm"], "dspr": cols["dspr"], "dpspr": cols["dspr"], "fm": [fp0 + 0.02] * N, "fp": [fp0] * N}
    acc.run("2d-dataarray:asymmetric-degenerate", dict(kind="twod", shape=shape, func="asymmetric", freq=f, dir=d, fparams=fpar, dparams=as_specs(dg, N, "case")))
    for i in range(0, N, 4):
        acc.run("2d-scalar:asymmetric-degenerate", dict(kind="twod", shape=shape, func="asymmetric", freq=f, dir=d, fparams=fpar,
                                                        dparams={n: S(v[i]) for n, v in dg.items()}))
    m = asym_menu(M, f, "quick", it["seed"])
    m["fp"] = [fp0]
    acols, Na = asym_cols(m)
    ch = max(50, int(1.2e6 // (len(f) * len(d))))
    for s in range(0, Na, ch):
        sub = {n: v[s:s + ch] for n, v in acols.items()}
        acc.run("2d-dataarray:asymmetric", dict(kind="twod", shape=shape, func="asymmetric", freq=f, dir=d, fparams=fpar, dparams=as_specs(sub, len(sub["dm"]), "case")))


ITEM = {"freq_scalar": item_freq_scalar, "freq_da": item_freq_da, "freq_mixed": item_freq_mixed, "conditional": item_conditional,
        "twin": item_twin, "spread": item_spread, "asym": item_asym, "twod": item_twod}


def run_item(it):
    import time

    acc = Acc()
    acc.sampling = bool(it.get("sample"))
    t0 = time.process_time()
    ITEM[it["kind"]](it, acc)
    acc.res["cpu"] = {it["kind"]: time.process_time() - t0}
    return acc.res


def run(rep, tier, seed, parts=None):
    common.load_wavespectra()
    rep.rule = (
        "Per constructor the full Cartesian product of the parameter menus (hs incl. 'not given', fp on/off node, gamma, alpha, "
        "sigma_a, sigma_b, depth, gw) on every frequency grid (linear/log/irregular, last frequency below and above 0.333 Hz), "
        "passed as DataArrays over one or two extra dimensions (every element of a batch is one case), plus every subset of the "
        "parameters as DataArrays with the rest scalar; with scalar parameters (one constructor call per case) the full product of "
        "(hs | not given, fp, gamma, depth) x (sigma_a, sigma_b) pairs [tma quick: 3 of the 9 pairs per combination, cycling] with alpha "
        "cycling. Every spreading function on full-circle grids nd in {12,24,36,72} (start 0, half-bin offset, descending, rotated) and, for narrow beams (dspr 3, 5, 7.5, 8.5 deg), nd in {180,360} x dm x "
        "dspr x under_90 as scalars / DataArrays / frequency dependent arrays; asymmetric over the product of (dpm, dm-dpm, dspr, "
        "dpspr, fm-fp, fp); construct_partition(shape, spreading) for six shape variants x the whole direction product (scalar, "
        "DataArray, shape and direction parameters zipped over one dim and crossed over two); numpy twins over the same products. "
        "One evaluation = one constructed spectrum (or one spreading function at one frequency) compared with the plain-loop "
        "reference and measured by the accessor. Parameter sets are distinct by construction; the count of non-trivial cases "
        "excludes the mixed scalar/DataArray repeats. Failures inside a batch are re-run with scalar parameters before reporting.")
    rep.assumptions = [
        "closed-form clauses (auxiliary: they pin the documented formulas so that the statement's equalities are not satisfied by a wrong shape, and make the scalar/DataArray paths comparable): the documented formulas with g = 9.80665 (scipy.constants.g); tolerance 1e-9 relative with a floor of 1e-12 of the spectrum's peak (underflow region is don't-care)",
        "tma deep-water clause uses the derived bound 1-phi <= 4 e^-2x (1+x)/(1-e^-4x), x = 0.99 w^2 depth/9.81 (doubled after rescaling to hs); it is evaluated where the bound is <= 0.1",
        "tma closed-form / depth-factor clauses (auxiliary, from the docstring reference Bouws et al. 1985): ratio to jonswap equals the Kitaigorodskii factor with the exact wavenumber within 3e-3 (6e-3 after rescaling), the accuracy of the Chen & Thomson wavenumber times the log-sensitivity of phi",
        "measured dm accepts the frequency-summed or the df-weighted moment convention, consistently over a batch (C01)",
        "dm/dspr == requested only for frequency independent cartwright (and asymmetric with dm == dpm, dspr == dpspr) without under_90 on grids with dd <= dspr/2 (coarser grids are out of domain); the tolerance is the rigorous aliasing bound of the nd-point quadrature of cos^2s derived from its Fourier coefficients c_k/c_{k-1} = (s-k+1)/(s+k) (alias_bounds; worst admissible case nd=12, dspr=60: 0.0131 deg and 7.2e-4 relative) - DESIGN's 0.01 deg / 2e-3 were measured at dm=0.5 only and are exceeded by the discretisation itself at other positions of dm between nodes (0.0117 deg at dm=7.3)",
        "for the general asymmetric spreading only non-negativity, normalisation, oned == shape, hs and the documented limiter formulas are checked: the statement does not define its 'requested' overall direction",
        "under_90: a direction exactly 90 deg from dm may be kept or dropped (tie)",
    ]
    items = work_items(tier, seed)
    if parts:
        items = [it for it in items if it["kind"] in parts]
    worst = {}
    cpu = {}
    for res in common.pmap(run_item, items):
        for k, v in res.pop("worst", {}).items():
            worst[k] = max(worst.get(k, 0.0), v)
        for k, v in res.pop("cpu", {}).items():
            cpu[k] = round(cpu.get(k, 0.0) + v, 1)
        rep.merge(res)
    # keep one violation per signature in the report order (simplest first), but count all
    rep.extra["work_items"] = len(items)
    rep.extra["cpu_s_by_item_kind"] = cpu
    rep.extra["worst_requested_vs_measured_on_resolved_grids"] = worst
    rep.extra["menus"] = {k: v for k, v in menus(tier, seed)[0].items()}
    rep.extra["freq_grids"] = [g[0] for g in freq_grids(tier, seed)]
