"""Regenerates /verif/seeded/MATRIX.md from the meta.json of every kept seeded change."""
import glob
import json
import os

VERIF = os.path.dirname(os.path.dirname(os.path.abspath(__file__)))


def main():
    rows = []
    for m in sorted(glob.glob(os.path.join(VERIF, "seeded", "*", "meta.json"))):
        d = json.load(open(m))
        sid = os.path.basename(os.path.dirname(m))
        checks = d.get("checks", {})
        verdicts = ", ".join("%s:%s" % (k, v["verdict"]) for k, v in sorted(checks.items()))
        rows.append((sid, d.get("breaks_property", "?"), d.get("needs", "").replace("\n", " ")[:160], verdicts,
                     "; ".join(sum((v.get("signatures", [])[:2] for v in checks.values() if v["verdict"] == "DETECTED"), []))[:200]))
    out = ["# Seeded changes vs checks", "",
           "Each row is a change written by a fresh sub-agent that saw only the property text and a scratch worktree; it was kept only after",
           "`mc.seedrun` confirmed in a scratch worktree that its demo passes on the pristine tree, fails with the change, and that the pinned",
           "suite (222 stable tests) still passes with the change. Verdicts are from the quick tier unless stated.", "",
           "| seed | breaks | needs | verdicts | first signatures |", "|---|---|---|---|---|"]
    for r in rows:
        out.append("| %s | %s | %s | %s | %s |" % tuple(x.replace("|", "\\|") for x in r))
    det = sum(1 for r in rows if (r[1] + ":DETECTED") in r[3])
    out += ["", "%d seeded changes kept; %d detected by the check of the property they break." % (len(rows), det)]
    open(os.path.join(VERIF, "seeded", "MATRIX.md"), "w").write("\n".join(out) + "\n")
    print("\n".join(out[-2:]))


if __name__ == "__main__":
    main()
