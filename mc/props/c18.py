"""C18 - results reflect the object's current contents, not earlier calls (E2: operation-history explorer).

Every sequence of operations up to depth d over a 26-operation alphabet (accessor calls, in-place edits, watershed
calls on other shapes / other objects, a reader call) is executed on freshly built objects in a freshly forked child
(so no hidden state leaks between histories); afterwards an observation battery is compared with the same battery
computed in a FRESH INTERPRETER on a freshly constructed object with the same contents.
"""
from __future__ import annotations

import itertools
import os
import pickle
import subprocess
import sys
import numpy as np

from mc import common
from mc.common import Violation

PROP = "C18"
LEVEL = "model_checking"

FREQ1 = np.array([0.05, 0.07, 0.1, 0.14, 0.2])
FREQ2 = np.array([0.06, 0.08, 0.11, 0.15, 0.21])
FREQ3 = np.array([0.05, 0.085, 0.12, 0.16, 0.2])   # the length and end points of FREQ1, another interior: a summary of the axis cannot tell them apart
DIR1 = np.arange(8) * 45.0
DIR2 = np.arange(8) * 22.5 + 10.0  # same size, other spacing: the bin width changes
OPS = ["hs", "tp", "dd", "smooth", "crsd", "stats_unknown", "set_efth", "set_ds_dir", "set_da_dir", "set_freq",
       "ws_shapeA", "ws_shapeB", "other_object", "reader", "efth_values_inplace", "coords_dir", "coords_freq", "da_values_inplace",
       "observe_all", "ws_shapeT", "ws_empty", "reader_edit", "fit_with_empty", "set_lonlat", "lonlat_values_inplace", "ptm12_twin_grid"]
EDITS = {"set_efth": 0, "set_ds_dir": 1, "set_da_dir": 2, "set_freq": 3, "efth_values_inplace": 0, "coords_dir": 1, "coords_freq": 3, "da_values_inplace": 4,
         "set_lonlat": 5, "lonlat_values_inplace": 5}
NCONTENT = 6
# station positions: the query points of the battery are nearest to station 1 with the first set and to station 2 with the second
LON1, LAT1 = np.array([150.0, 151.0]), np.array([-34.0, -34.5])
LON2, LAT2 = np.array([151.5, 150.25]), np.array([-34.5, -34.0])


def efth(which):
    nf, nd = len(FREQ1), len(DIR1)
    i, j = np.meshgrid(np.arange(nf), np.arange(nd), indexing="ij")
    if which == 1:
        v = 40.0 / (1 + (i - 1) ** 2 + np.minimum((j - 2) % nd, (2 - j) % nd) ** 2) + 15.0 / (1 + (i - 3) ** 2 + np.minimum((j - 6) % nd, (6 - j) % nd) ** 2)
    else:
        v = 25.0 / (1 + (i - 3) ** 2 + np.minimum((j - 5) % nd, (5 - j) % nd) ** 2) + 30.0 / (1 + (i - 1) ** 2 + np.minimum((j - 0) % nd, (0 - j) % nd) ** 2)
    v = np.round(v * 16) / 16 + (i * nd + j) / 1024.0
    return np.stack([v, v[::-1, ::-1] * 0.5 + 0.25])  # (site=2, nf, nd)


def build(content):
    """fresh Dataset ds and independent DataArray da with the given contents (tuple of 4 bits)"""
    import xarray as xr

    e, dsd, dad, fr = content[:4]
    dav = content[4] if len(content) > 4 else 0
    ll = content[5] if len(content) > 5 else 0
    f = FREQ2 if fr else FREQ1
    ds = xr.Dataset({"efth": (("site", "freq", "dir"), efth(2 if e else 1).copy()),
                     "lon": (("site",), (LON2 if ll else LON1).copy()), "lat": (("site",), (LAT2 if ll else LAT1).copy())},
                    coords={"site": [1, 2], "freq": f.copy(), "dir": (DIR2 if dsd else DIR1).copy()})
    da = xr.DataArray((efth(2)[1] if dav else efth(1)[0]).copy(), dims=["freq", "dir"], coords={"freq": FREQ1.copy(), "dir": (DIR2 if dad else DIR1).copy()}, name="efth")
    return ds, da


def apply_op(op, ds, da, env):
    """Executes one operation of the alphabet on the live objects. Returns nothing; exceptions of 'stats_unknown' are expected."""
    import xarray as xr

    if op == "hs":
        ds.spec.hs().values
        da.spec.hs().values
    elif op == "tp":
        ds.spec.tp().values
    elif op == "dd":
        da.spec.dd
        ds.efth.spec.dd
        ds.spec.dd
    elif op == "smooth":
        ds.spec.smooth(3, 3).values
    elif op == "crsd":
        ds.spec.crsd().values
    elif op == "stats_unknown":
        for call in (lambda: ds.spec.stats(["foo"]), lambda: da.spec.stats(["hs", "foo"], fmin=0.06, fmax=0.15),
                     lambda: ds.efth.spec.stats(["hs", "dd"], fmax=0.12), lambda: ds.spec.stats({"hs": {"nosuchkw": 1}}, dmin=40.0, dmax=200.0)):
            try:
                call()
            except (ValueError, TypeError):
                pass
    elif op == "set_efth":
        ds["efth"] = (("site", "freq", "dir"), efth(2).copy())
    elif op == "set_ds_dir":
        ds["dir"] = DIR2.copy()
    elif op == "set_da_dir":
        da["dir"] = DIR2.copy()
    elif op == "set_freq":
        ds["freq"] = FREQ2.copy()
    elif op == "efth_values_inplace":
        ds["efth"].values[...] = efth(2)       # same Variable, same buffer, new numbers
    elif op == "coords_dir":
        ds.coords["dir"] = DIR2.copy()         # coordinate replaced through .coords (the efth Variable object is kept)
    elif op == "coords_freq":
        ds.coords["freq"] = FREQ2.copy()
    elif op == "da_values_inplace":
        da.values[...] = efth(2)[1]
    elif op == "set_lonlat":
        ds["lon"] = (("site",), LON2.copy())   # the stations are moved (variables replaced)
        ds["lat"] = (("site",), LAT2.copy())
    elif op == "lonlat_values_inplace":
        ds["lon"].values[...] = LON2            # same Variables, same buffers, new positions
        ds["lat"].values[...] = LAT2
    elif op in ("ws_shapeA", "ws_shapeB", "ws_shapeT"):
        from wavespectra.partition.partition import np_ptm3
        # shape T is the transposed shape of the observed spectra (8 x 5 vs 5 x 8): same number of bins, other layout
        nf, nd = {"ws_shapeA": (3, 4), "ws_shapeB": (4, 5), "ws_shapeT": (len(DIR1), len(FREQ1))}[op]
        z = (np.arange(nf * nd, dtype=float).reshape(nf, nd) * 7 % 11) + 1.0
        np_ptm3(z, z, 0.05 * 1.2 ** np.arange(nf), np.arange(nd) * (360.0 / nd), parts=3, ihmax=50)
    elif op == "ptm12_twin_grid":
        # wind-sea/swell partitions of another array whose frequency axis shares length, first and last value (and depth) with the observed one
        o = xr.DataArray(efth(2).copy(), dims=["site", "freq", "dir"], coords={"site": [1, 2], "freq": FREQ3.copy(), "dir": DIR1.copy()}, name="efth")
        o.spec.partition.ptm1(wspd=12.0, wdir=90.0, dpt=30.0, swells=2).values
        o.spec.partition.ptm2(wspd=12.0, wdir=90.0, dpt=30.0, swells=2).values
    elif op == "other_object":
        o = xr.DataArray(np.abs(np.sin(np.arange(3 * 6 * 12, dtype=float))).reshape(3, 6, 12) + 0.1, dims=["time", "freq", "dir"],
                         coords={"time": np.arange(3), "freq": 0.04 * 1.15 ** np.arange(6), "dir": np.arange(12) * 30.0}, name="efth")
        o.spec.hs().values
        o.spec.partition.ptm3(parts=2).values
        o.to_dataset().spec.tp().values
    elif op == "observe_all":
        battery(ds, da)   # every function that is observed at the end is also exercised as an earlier operation (memoisation anywhere)
    elif op == "fit_with_empty":
        # spectral fits on another array that holds a spectrum without energy and one without an interior peak
        o = xr.DataArray(np.stack([np.zeros((6, 4)), np.tile((1.0 + np.arange(6))[:, None], (1, 4)), np.abs(np.sin(np.arange(24.0))).reshape(6, 4) + 0.1]),
                         dims=["site", "freq", "dir"], coords={"site": [1, 2, 3], "freq": 0.05 * 1.2 ** np.arange(6), "dir": np.arange(4) * 90.0}, name="efth")
        try:
            o.spec.fit_jonswap(spectra=False).compute()
            o.spec.fit_gaussian(spectra=False).compute()
        except Exception:  # noqa
            pass
    elif op == "ws_empty":
        # a watershed call on an empty selection (no frequency in the band): raises on every tree; must leave nothing behind
        try:
            da.sel(freq=slice(0.9, 1.0)).spec.partition.ptm3(parts=2).values
        except Exception:  # noqa
            pass
    elif op == "reader_edit":
        from wavespectra import read_swan
        d = read_swan(os.path.join(common.repo_root(), "tests", "sample_files", "swanfile.spec"))
        d["efth"] = d.efth * 2.0            # the caller edits what the reader returned
        d["dir"] = (d["dir"] + 90.0) % 360
    elif op == "reader":
        from wavespectra import read_swan
        d = read_swan(os.path.join(common.repo_root(), "tests", "sample_files", "swanfile.spec"))
        d.spec.hs().values
    else:
        raise ValueError(op)


def content_after(hist):
    c = [0] * NCONTENT
    for op in hist:
        if op in EDITS:
            c[EDITS[op]] = 1
    return tuple(c)


def _arr(x):
    a = np.asarray(x.values if hasattr(x, "values") else x)
    return a


def battery(ds, da):
    """observations: name -> (array, attrs-repr). Both the Dataset accessor and the efth accessor are observed."""
    obs = {}

    def put(name, r):
        import xarray as xr
        if isinstance(r, xr.Dataset):
            for k in sorted(r.data_vars):
                obs[name + "." + k] = (_arr(r[k]).astype(float), repr(sorted((a, repr(b)) for a, b in r[k].attrs.items())), tuple(r[k].dims))
        elif isinstance(r, xr.DataArray):
            obs[name] = (_arr(r).astype(float), repr(sorted((a, repr(b)) for a, b in r.attrs.items())), tuple(r.dims))
        else:
            obs[name] = (np.asarray(r, dtype=float), "", ())

    light = os.environ.get("C18_BATTERY", "full") == "light"
    for who, acc in (("ds.spec", lambda: ds.spec), ("ds.efth.spec", lambda: ds.efth.spec)):
        put(who + ".hs", acc().hs())
        put(who + ".dm", acc().dm())
        if light and who == "ds.efth.spec":
            continue
        put(who + ".tp", acc().tp())
        put(who + ".crsd", acc().crsd())
        put(who + ".smooth", acc().smooth(3, 3))
        if not light:
            put(who + ".dspr", acc().dspr())
            put(who + ".stats", acc().stats(["hs", "tm02", "dpm"]))
    put("ds.efth.spec.dd", ds.efth.spec.dd)
    put("ds.spec.dd", ds.spec.dd)
    put("ds.spec.freq", ds.spec.freq)
    put("ds.spec.partition.ptm3", ds.spec.partition.ptm3(parts=2))
    put("ds.spec.partition.ptm1(wind)", ds.spec.partition.ptm1(wspd=12.0, wdir=90.0, dpt=30.0, swells=2))
    put("da.spec.partition.ptm2(wind)", da.spec.partition.ptm2(wspd=12.0, wdir=90.0, dpt=30.0, swells=2))
    # station selection with the dataset's own positions (the default dset_lons / dset_lats)
    put("ds.spec.sel(nearest).efth", ds.spec.sel([150.2], [-34.05], method="nearest").efth)
    put("ds.spec.sel(nearest).lon", ds.spec.sel([150.2], [-34.05], method="nearest").lon)
    put("ds.spec.sel(idw).efth", ds.spec.sel([150.4], [-34.2], method="idw", tolerance=5.0).efth)
    put("ds.spec.sel(bbox).site", ds.spec.sel([149.9, 150.5], [-34.2, -33.8], method="bbox").site)
    put("da.spec.hs", da.spec.hs())
    put("da.spec.dd", da.spec.dd)
    put("da.spec.dm", da.spec.dm())
    put("da.spec.smooth", da.spec.smooth(3, 3))
    put("da.spec.partition.ptm3", da.spec.partition.ptm3(parts=2))
    if not light or True:
        from wavespectra import read_swan
        fresh = read_swan(os.path.join(common.repo_root(), "tests", "sample_files", "swanfile.spec"))
        put("read_swan(sample).hs", fresh.spec.hs())
        put("read_swan(sample).dir", fresh["dir"])
    return obs


def reference_for(content):
    """Run the battery in a fresh interpreter on freshly built objects with these contents."""
    env = dict(os.environ, PYTHONHASHSEED="0", VERIF_REPO=common.repo_root())
    code = ("import sys,pickle,os; os.environ['C18_BATTERY']=%r; sys.path.insert(0, %r); from mc import common; common.load_wavespectra(); "
            "from mc.props import c18; ds,da=c18.build(%r); ds0,da0=c18.build(%r); o=c18.battery(ds,da); "
            "sys.stdout.buffer.write(pickle.dumps(o))") % (os.environ.get("C18_BATTERY", "full"), common.VERIF, tuple(content), tuple(content))
    r = subprocess.run([sys.executable, "-c", code], capture_output=True, env=env, cwd=common.VERIF)
    if r.returncode != 0:
        raise RuntimeError("reference process failed: " + r.stderr.decode()[-2000:])
    return pickle.loads(r.stdout)


def compare(obs, ref):
    out = []
    for k in ref:
        if k not in obs:
            out.append((k, "missing observation"))
            continue
        a, aa, da_ = obs[k]
        b, ba, db = ref[k]
        if da_ != db or a.shape != b.shape:
            out.append((k, "dims/shape %s%s vs fresh %s%s" % (da_, a.shape, db, b.shape)))
        elif not np.allclose(a, b, rtol=1e-12, atol=0, equal_nan=True):
            i = tuple(np.argwhere(~np.isclose(a, b, rtol=1e-12, atol=0, equal_nan=True))[0])
            out.append((k, "value %r vs fresh %r at %s" % (float(a[i]), float(b[i]), i)))
        elif aa != ba:
            out.append((k, "attrs %s vs fresh %s" % (aa[:150], ba[:150])))
    return out


def hidden_state(ds, da):
    from wavespectra.core.attributes import attrs
    dd = getattr(da.spec, "_dd", None)
    cache = getattr(ds, "_cache", {}) or {}
    return (len(attrs.ATTRS), None if dd is None else round(float(dd), 6), "spec" in cache)


def run_history(hist, REF):
    """executes one history on fresh objects in THIS process (callers fork first). Returns (violations, state key)."""
    ds, da = build((0,) * NCONTENT)
    env = {}
    err = None
    for i, op in enumerate(hist):
        try:
            apply_op(op, ds, da, env)
        except Exception as e:  # noqa
            err = (i, op, e)
            break
    vs = []
    if err:
        i, op, e = err
        vs.append(Violation(PROP, "%s|raises-%s|after-%s" % (op, type(e).__name__, classify_prefix(hist[:i])),
                            "operation %s raised %s: %s after history %s" % (op, type(e).__name__, str(e)[:200], list(hist[:i])), dict(history=list(hist))))
        return vs, None
    content = content_after(hist)
    try:
        obs = battery(ds, da)
    except Exception as e:  # noqa
        vs.append(Violation(PROP, "battery|raises-%s|after-%s" % (type(e).__name__, classify_prefix(hist)),
                            "observation battery raised %s: %s after history %s" % (type(e).__name__, str(e)[:300], list(hist)), dict(history=list(hist))))
        return vs, None
    diffs = compare(obs, REF[content])
    seen = set()
    for name, msg in diffs:
        sig = "%s|differs-from-fresh-object|after-%s" % (name.split(".stats")[0] if ".stats." not in name else name, classify_prefix(hist))
        if sig in seen:
            continue
        seen.add(sig)
        vs.append(Violation(PROP, sig, "%s after history %s: %s" % (name, list(hist), msg), dict(history=list(hist), observation=name)))
    return vs, (content, hidden_state(ds, da))


def classify_prefix(hist):
    """discriminating predicate: which kinds of operations precede (set, order-free), edits named"""
    kinds = set()
    called = False
    for op in hist:
        if op in EDITS:
            kinds.add(op + ("-after-call" if called else ""))
        elif op in ("ws_shapeA", "ws_shapeB", "ws_shapeT", "ws_empty", "other_object", "reader", "reader_edit", "fit_with_empty", "ptm12_twin_grid"):
            kinds.add("other-" + ("watershed" if op.startswith("ws") else op))
        else:
            called = True
    return "+".join(sorted(kinds)) or "calls-only"


def forked(hist, REF):
    """run_history in a forked child; result returned through a pipe"""
    r, w = os.pipe()
    pid = os.fork()
    if pid == 0:
        code = 0
        try:
            os.close(r)
            res = run_history(hist, REF)
            with os.fdopen(w, "wb") as f:
                pickle.dump(res, f)
        except BaseException as e:  # noqa
            code = 1
            try:
                os.write(2, ("child failed: %r\n" % (e,)).encode())
            except Exception:
                pass
        finally:
            os._exit(code)
    os.close(w)
    with os.fdopen(r, "rb") as f:
        data = f.read()
    _, status = os.waitpid(pid, 0)
    if not data:
        return [Violation(PROP, "harness|child-died|", "child died (status %s) on history %s" % (status, list(hist)), dict(history=list(hist)))], None
    return pickle.loads(data)


def replay(case):
    common.load_wavespectra()
    hist = tuple(case["history"])
    REF = {content_after(hist): reference_for(content_after(hist))}
    vs, st = forked(hist, REF)
    return vs


REDUCED = ["observe_all", "stats_unknown", "ws_shapeT", "ws_empty", "fit_with_empty", "ptm12_twin_grid"] + sorted(e for e in EDITS if e != "lonlat_values_inplace")
# quick tier, deepest level: one assignment-style edit per content bit plus the two buffer-level edits (the .coords variants stay in the
# full alphabet of the shallower levels and in the thorough tier)
REDUCED_QUICK = [op for op in REDUCED if op not in ("coords_dir", "coords_freq")]


def histories(depth, tier):
    """quick: all sequences to depth 2 over the full alphabet + depth 3 over the reduced alphabet (one representative per kind of
    pure call) that contain an edit; thorough: depth 3 over the full alphabet + depth 4 over the reduced one (with an edit)."""
    out = []
    full_depth = 2 if tier == "quick" else 3
    for d in range(1, full_depth + 1):
        out.extend(itertools.product(OPS, repeat=d))
    d = full_depth + 1
    for h in itertools.product(REDUCED_QUICK if tier == "quick" else REDUCED, repeat=d):
        if any(op in EDITS for op in h):
            out.append(h)
    return out


def run(rep, tier, seed, parts=None):
    common.load_wavespectra()
    os.environ["C18_BATTERY"] = "light" if tier == "quick" else "full"
    depth = 3 if tier == "quick" else 4
    rep.rule = ("all operation sequences up to depth %d over the 26-operation alphabet %s (quick: full alphabet to depth 2, depth 3 over a reduced 13-operation (thorough: 15) "
                "alphabet with at least one edit, 23-observation battery incl. station selection with the dataset's own positions; thorough: full alphabet to depth 3, reduced alphabet with an edit at depth 4, 34-observation battery); each history runs on freshly built objects in a freshly "
                "forked child and its battery is compared with a fresh interpreter's battery on a freshly constructed "
                "object of the same contents. A state is (content, accessor/memo/global-table signature) after a history; transitions = "
                "operations executed; traces = histories executed (the implementation itself is what runs)." % (depth, OPS))
    rep.assumptions = ["in-place edits assign fixed alternative values, so there are 64 content states (spectra, directions of the dataset / of the array, frequencies, array values, station positions) and one fresh-interpreter reference per state",
                       "fork gives every history a process whose hidden state is that of a process which imported the library and ran nothing"]
    contents = list(itertools.product((0, 1), repeat=NCONTENT))
    REF = {}
    for c, ob in zip(contents, common.pmap(reference_for, contents)):
        if isinstance(ob, common.Hang):
            raise RuntimeError("reference computation failed for %s: %s" % (c, ob.why))
        REF[c] = ob
    hs = histories(depth, tier)
    if seed % 2 == 1:
        hs = hs[::-1]
    CH = 24
    batches = [hs[i:i + CH] for i in range(0, len(hs), CH)]

    def work(batch):
        res = {"evals": 0, "violations": [], "transitions": 0, "traces": 0, "samples": [], "outcomes": {}, "parts": {}, "state_keys": []}
        for h in batch:
            vs, st = forked(h, REF)
            res["evals"] += 1
            res["traces"] += 1
            res["transitions"] += len(h)
            res["violations"].extend(vs)
            if st is not None:
                res["state_keys"].append(st)
            if any(op in EDITS for op in h):
                res["n_nontrivial"] = res.get("n_nontrivial", 0) + 1
            ne = sum(1 for op in h if op in EDITS)
            first_edit = next((i for i, op in enumerate(h) if op in EDITS), None)
            kk = "histories:%d-edits,%s" % (ne, "no-edit" if first_edit is None else ("call-before-first-edit" if first_edit > 0 else "edit-first"))
            res["outcomes"][kk] = res["outcomes"].get(kk, 0) + 1
            if st is not None:
                kc = "end-content-state:%s" % "".join(str(b) for b in st[0])
                res["outcomes"][kc] = res["outcomes"].get(kc, 0) + 1
        res["parts"]["depth%d" % len(batch[0])] = len(batch)
        return res

    states = set()
    for res in common.pmap(work, batches):
        if not isinstance(res, common.Hang):
            for k in res.pop("state_keys", []):
                states.add(k)
        rep.merge(res)
    rep.states = max(1, len(states))
    rep.transitions = rep.transitions or 0
    rep.traces = rep.traces or 0
    rep.samples = [dict(history=list(hs[i])) for i in (0, len(hs) // 3, len(hs) // 2, len(hs) - 1)]
    rep.extra["histories"] = len(hs)
    rep.extra["content_states"] = len(contents)
    rep.extra["depth"] = depth
