"""Python side of E5: runs the C driver in shards and parses its report."""
from __future__ import annotations

import os
import subprocess

from mc import common


def all_shapes(max_cells, min_cells=1, max_side=64):
    out = []
    for nk in range(1, max_side + 1):
        for nth in range(1, max_side + 1):
            if min_cells <= nk * nth <= max_cells:
                out.append((nk, nth))
    out.sort(key=lambda s: (s[0] * s[1], s))
    return out


def run_driver(job):
    """job: dict(family, ihmax(list), alpha(list), shifts, interleave, shapes[(nk,nth)], shard(i,n), asan)"""
    exe = common.build_cdriver(job.get("asan", False))
    args = [exe, job["family"], ",".join(str(i) for i in job["ihmax"]), ",".join(repr(float(a)) for a in job["alpha"]),
            "1" if job.get("shifts", True) else "0", "1" if job.get("interleave", False) else "0"]
    args += ["%dx%d" % s for s in job["shapes"]]
    env = dict(os.environ)
    i, n = job.get("shard", (0, 1))
    env["DRV_SHARD"] = "%d/%d" % (i, n)
    if job.get("alarm"):
        env["DRV_ALARM"] = str(int(job["alarm"]))
    env["ASAN_OPTIONS"] = "detect_leaks=0:abort_on_error=0:allocator_may_return_null=1"
    env["UBSAN_OPTIONS"] = "print_stacktrace=1:halt_on_error=1"
    try:
        r = subprocess.run(args, capture_output=True, text=True, env=env, timeout=job.get("timeout", 3000))
        out, err, rc = r.stdout, r.stderr, r.returncode
    except subprocess.TimeoutExpired as e:
        out, err, rc = (e.stdout or b"").decode() if isinstance(e.stdout, bytes) else (e.stdout or ""), "driver timeout", -9
    res = {"viol": [], "death": [], "samples": [], "stats": None, "rc": rc, "stderr": err[-3000:], "job": {k: job[k] for k in ("family", "ihmax", "alpha", "shapes") if k in job}}
    for ln in out.splitlines():
        tag, _, rest = ln.partition(" ")
        if tag in ("VIOL", "DEATH", "SAMPLE"):
            what, _, kv = rest.partition(" ")
            d = {"what": what}
            for tok in kv.split():
                k, _, v = tok.partition("=")
                d[k] = [float(x) for x in v.split(",")] if k == "z" else int(v)
            {"VIOL": res["viol"], "DEATH": res["death"], "SAMPLE": res["samples"]}[tag].append(d)
        elif tag == "STATS":
            st = {}
            for tok in rest.split():
                k, _, v = tok.partition("=")
                st[k] = [int(x) for x in v.split(",")] if k == "hist" else int(v)
            res["stats"] = st
    return res
