"""MANIFEST.setup_cmd: build everything the checks need from files on disk (offline)."""
import compileall
import os
import sys

from mc import common


def main():
    os.makedirs(common.BUILD, exist_ok=True)
    os.makedirs(common.EVIDENCE, exist_ok=True)
    print("extension:", common.build_ext())
    drv = os.path.join(common.VERIF, "mc", "cdrv", "driver.c")
    if os.path.exists(drv):
        print("driver (asan):", common.build_cdriver(True))
        print("driver (fast):", common.build_cdriver(False))
    compileall.compile_dir(os.path.join(common.VERIF, "mc"), quiet=1)
    common.load_wavespectra()
    print("setup ok")
    return 0


if __name__ == "__main__":
    sys.exit(main())
