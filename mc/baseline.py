"""Run the pinned baseline test-suite of the repo and compare with /root/.vp/BASELINE.json stable_pass."""
import json
import subprocess
import sys
import tempfile
import xml.etree.ElementTree as ET


def main():
    repo = sys.argv[1] if len(sys.argv) > 1 else "/repo"
    base = json.load(open("/root/.vp/BASELINE.json"))
    with tempfile.NamedTemporaryFile(suffix=".xml") as t:
        subprocess.run(["/venv/bin/python", "-m", "pytest", "-ra", "-q", "-p", "no:cacheprovider", "--timeout=900",
                        "--continue-on-collection-errors", "--junitxml=" + t.name], cwd=repo, capture_output=True)
        root = ET.parse(t.name).getroot()
    passed = set()
    for tc in root.iter("testcase"):
        if not any(ch.tag in ("failure", "error", "skipped") for ch in tc):
            passed.add(tc.get("classname") + "::" + tc.get("name"))
    want = set(base["stable_pass"])
    missing = sorted(want - passed)
    print("baseline stable_pass=%d, passed now=%d, missing=%d" % (len(want), len(passed & want), len(missing)))
    for m in missing:
        print("  MISSING", m)
    return 1 if missing else 0


if __name__ == "__main__":
    sys.exit(main())
