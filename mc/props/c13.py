"""C13 - instrument / model ASCII readers return what the file says; reconstructed 2-D integrates back to 1-D.

Bounded-exhaustive exploration: for every format an independent reference encoder (mc/c13_encoders.py, no code
shared with the readers) writes files from *enumerated* contents - records 1..3 in every order, 2..4 frequencies,
the direction grids the format allows, a small value alphabet spanning the format's range, every documented header
variant, one and several files - and the real reader is run on each file.  The oracle compares the decoded
timestamps / frequencies / directions / positions / densities with what was handed to the encoder (after the
documented unit / direction conversions, to the printed resolution of the format), requires ascending time, and
for NDBC / Spotter / Datawell requires sum_dir E(f,theta)*dd == E(f) and the 1-D request to return E(f) unchanged.
"""
from __future__ import annotations

import itertools
import math
import os
import shutil
import tempfile

import numpy as np

from mc import common
from mc import c13_encoders as enc
from mc.common import Violation

PROP = "C13"
LEVEL = "exploration"
D2R = math.pi / 180.0

# ---------------------------------------------------------------------------------------------
# alphabets (VERIF_SEED only selects which complete alphabet is enumerated)
# ---------------------------------------------------------------------------------------------
TIME_SETS = [
    ["2020-02-29T23:10:05", "2020-03-01T00:40:30", "2021-11-12T13:14:15"],
    ["2019-12-31T22:05:59", "2020-01-01T01:20:07", "2020-10-09T08:07:06"],
    ["2021-06-30T12:00:01", "2021-07-01T00:30:45", "2022-01-13T03:04:05"],
    ["2018-01-31T21:00:10", "2018-02-01T03:30:20", "2018-12-11T10:09:08"],
    ["2022-08-31T19:45:00", "2022-09-01T06:15:30", "2023-03-14T15:09:26"],
]
MAG_SETS = [(1.0, 0.25, 30.0), (2.0, 0.5, 12.0), (0.8, 0.05, 45.0), (3.0, 0.125, 20.0), (1.5, 0.4, 9.0)]
KINDS = ["ramp", "perm", "impulse", "const"]
FREQS = {2: [0.05, 0.1], 3: [0.04, 0.0612, 0.35], 4: [0.03, 0.055, 0.08, 0.42], 9: [0.035 + 0.0125 * i for i in range(9)]}


def tres(t, res):
    if res == "sec":
        return t
    if res == "min":
        return t[:17] + "00"
    return t[:14] + "00:00"


def times_for(seed, res):
    return [tres(t, res) for t in TIME_SETS[seed % len(TIME_SETS)]]


def mags_for(seed, scale=1.0):
    return [m * scale for m in MAG_SETS[seed % len(MAG_SETS)]]


def gen_spec(kind, mag, nf, nd, salt):
    n = nf * nd
    out = [[0.0] * nd for _ in range(nf)]
    k = 1
    for c in range(2, n + 2):
        if math.gcd(c, n) == 1:
            k = c
            break
    for i in range(nf):
        for j in range(nd):
            c = i * nd + j
            if kind == "ramp":
                v = mag * (1 + c) / n
            elif kind == "perm":
                v = mag * (1 + (c * k + salt) % n) / n
            elif kind == "impulse":
                v = mag if c == salt % n else 0.0
            elif kind == "const":
                v = mag
            else:
                v = 0.0
            out[i][j] = v
    return out


def rec_spec(q, vv, mags, nf, nd, kinds=KINDS):
    return gen_spec(kinds[(q + vv) % len(kinds)], mags[(q + vv) % len(mags)], nf, nd, q + vv)


def perms_upto(nmax):
    out = []
    for n in range(1, nmax + 1):
        out.extend(list(p) for p in itertools.permutations(range(n)))
    return out


def is_sorted(p):
    return list(p) == sorted(p)


# ---------------------------------------------------------------------------------------------
# comparison helpers
# ---------------------------------------------------------------------------------------------
def close(got, exp, atol, rtol=0.0):
    got = np.asarray(got, dtype=float)
    exp = np.asarray(exp, dtype=float)
    if got.shape != exp.shape:
        return False
    ok = np.abs(got - exp) <= atol + rtol * np.abs(exp)
    ok |= np.isnan(got) & np.isnan(exp)
    return bool(ok.all())


def first_bad(got, exp, atol, rtol=0.0):
    got = np.asarray(got, dtype=float)
    exp = np.asarray(exp, dtype=float)
    if got.shape != exp.shape:
        return "shape %s, expected %s" % (got.shape, exp.shape)
    ok = np.abs(got - exp) <= atol + rtol * np.abs(exp)
    ok |= np.isnan(got) & np.isnan(exp)
    if ok.all():
        return None
    i = tuple(int(x) for x in np.argwhere(~ok)[0])
    return "at %s got %r expected %r (atol %.3g rtol %.3g)" % (i, float(got[i]), float(exp[i]), atol, rtol)


def diagnose(G, X, atol, rtol=0.0):
    """Classify a density mismatch: G, X of shape (records, nf, nd)."""
    G = np.asarray(G, dtype=float)
    X = np.asarray(X, dtype=float)
    if G.shape != X.shape:
        return "shape"
    R, nf, nd = G.shape
    if 1 < R <= 24:
        if all(any(close(G[a], X[b], atol, rtol) for b in range(R)) for a in range(R)):
            return "records-permuted"
    m = np.isfinite(G) & np.isfinite(X) & (X != 0)
    if m.any():
        c = float(np.median(G[m] / X[m]))
        if abs(c - 1) > 2e-3 and c != 0 and close(G, c * X, atol * abs(c), rtol + 1e-9):
            return "scaled"
    if nd > 1:
        ps = itertools.permutations(range(nd)) if nd <= 4 else [tuple((j + s) % nd for j in range(nd)) for s in range(nd)] + [tuple(range(nd - 1, -1, -1))]
        for p in ps:
            if list(p) != list(range(nd)) and close(G[:, :, list(p)], X, atol, rtol):
                return "dir-axis-permuted"
    if nf > 1:
        for p in itertools.permutations(range(nf)) if nf <= 4 else []:
            if list(p) != list(range(nf)) and close(G[:, list(p), :], X, atol, rtol):
                return "freq-axis-permuted"
    if nf * nd > 1 and close(G.reshape(R, -1), np.swapaxes(X, 1, 2).reshape(R, -1), atol, rtol):
        return "freq-dir-transposed"
    return "values"


def dpred(diag, op, *fields):
    """predicate of a density mismatch: the file order only matters when whole records were exchanged"""
    return ",".join(list(fields) + [diag] + ([op] if diag == "records-permuted" else []))


def iso_ns(ts):
    return np.array(ts, dtype="datetime64[ns]")


def match_times(got_values, exp_iso, fails, reader, order_pred):
    """Returns list m with m[k] = index into exp_iso of the k-th returned time, or None when the time sets differ."""
    got = np.asarray(got_values).astype("datetime64[ns]").ravel()
    exp = iso_ns(exp_iso)
    if got.shape != exp.shape or not (np.sort(got) == np.sort(exp)).all():
        fails.append((reader, "time-values", order_pred, "returned times %s, file says %s" % (
            [str(t)[:19] for t in got], sorted(exp_iso))))
        return None
    if len(got) > 1 and not (got[1:] >= got[:-1]).all():
        fails.append((reader, "time-sorted", order_pred, "returned times not ascending: %s" % [str(t)[:19] for t in got]))
    idx = {int(exp[i].astype("int64")): i for i in range(len(exp))}
    return [idx[int(t.astype("int64"))] for t in got]


def circ_diff(a, b):
    d = abs((a - b) % 360.0)
    return min(d, 360.0 - d)


def map_dirs(got, exp, tol):
    """m[j] = index in exp of returned direction j (mod 360), None if the sets differ."""
    got = [float(x) for x in np.asarray(got).ravel()]
    if len(got) != len(exp):
        return None
    m = []
    for g in got:
        c = [i for i, e in enumerate(exp) if circ_diff(g, e) <= tol]
        if len(c) != 1:
            return None
        m.append(c[0])
    return m if sorted(m) == list(range(len(exp))) else None


def order_pred(perm, nfiles=1):
    s = "order=sorted" if perm is None or is_sorted(perm) else "order=unsorted"
    if nfiles > 1:
        s += ",multi-file"
    return s


class Out:
    def __init__(self):
        self.fails = []
        self.nontrivial = False
        self.outcomes = []
        self.files = {}


def call_reader(out, reader, pred, fn):
    try:
        return fn()
    except Exception as exc:  # a well-formed file must be readable
        out.fails.append((reader, "reads", pred + "," + type(exc).__name__, "reader raised %s: %s" % (type(exc).__name__, str(exc)[:300])))
        out.outcomes.append(reader + ":raised")
        return None


def write_files(tmp, files):
    paths = {}
    for name, body in files.items():
        p = os.path.join(tmp, name)
        os.makedirs(os.path.dirname(p), exist_ok=True)
        with open(p, "wb" if isinstance(body, bytes) else "w") as f:
            f.write(body)
        paths[name] = p
    return paths


# ---------------------------------------------------------------------------------------------
# SWAN ASCII
# ---------------------------------------------------------------------------------------------
SWAN_LOCS = {
    "1": [(174.5, -38.25)],
    "2diag": [(174.5, -38.25), (175.0, -39.0)],
    "2lon": [(174.5, -38.25), (174.5, -39.0)],
    "2lat": [(174.5, -38.25), (175.0, -38.25)],
    "3": [(174.5, -38.25), (175.0, -39.0), (176.25, -37.5)],
    "4lonmajor": [(174.5, -39.0), (174.5, -38.25), (175.0, -39.0), (175.0, -38.25)],  # x outer, y inner
    "4latmajor": [(174.5, -39.0), (175.0, -39.0), (174.5, -38.25), (175.0, -38.25)],  # y outer, x inner (SWAN frame order)
    "6latmajor": [(174.5, -39.0), (175.0, -39.0), (176.25, -39.0), (174.5, -38.25), (175.0, -38.25), (176.25, -38.25)],
    "6lonmajor": [(174.5, -39.0), (174.5, -38.25), (175.0, -39.0), (175.0, -38.25), (176.25, -39.0), (176.25, -38.25)],
}
SWAN_DIRS = {
    "D2": [0.0, 180.0],
    "D3": [10.0, 130.0, 250.0],
    "D4s": [0.0, 90.0, 180.0, 270.0],
    "D4u": [265.0, 355.0, 85.0, 175.0],
    "D4d": [292.5, 202.5, 112.5, 22.5],
    "D4r": [355.0, 85.0, 175.0, 265.0],           # rotated by one: the sorting permutation is not its own inverse
    "D5r": [200.0, 272.0, 344.0, 56.0, 128.0],
    "D6": [15.0, 75.0, 135.0, 195.0, 255.0, 315.0],
    # listings that are ascending *as written* but leave [0,360) (SWAN itself writes e.g. 265 ... -85): sorted on paper, not modulo 360
    "D4n": [-175.0, -85.0, 5.0, 95.0],
    "D5w": [100.0, 172.0, 244.0, 316.0, 388.0],
}


def swan_layout(locs):
    xs = sorted(set(x for x, y in locs))
    ys = sorted(set(y for x, y in locs))
    return "grid" if len(xs) * len(ys) == len(locs) else "sites"


def swan_content(case):
    seed = case.get("seed", 0)
    T = times_for(seed, "sec")
    mags = mags_for(seed, case.get("scale", 1.0))
    perm = case["perm"]
    locs = case["locs"] if isinstance(case["locs"], list) else SWAN_LOCS[case["locs"]]
    freqs = FREQS[case["nf"]]
    dirs = SWAN_DIRS[case["dirs"]]
    nf, nd, nl = len(freqs), len(dirs), len(locs)
    ranks = perm if perm is not None else [0]
    blocks, expected = [], []
    for r in ranks:
        row, erow = [], []
        for ip in range(nl):
            q = r * nl + ip
            b = case["blocks"]
            kind = "FACTOR"
            if b == "Z" and q % 2 == 1:
                kind = "ZERO"
            elif b == "N" and q % 2 == 0:
                kind = "NODATA"
            elif b == "ZN":
                kind = ("FACTOR", "ZERO", "NODATA")[q % 3]
            if kind == "FACTOR":
                s = rec_spec(q, case.get("vv", 0), mags, nf, nd)
                row.append(("FACTOR", s))
                erow.append(np.array(s))
            elif kind == "ZERO":
                row.append(("ZERO",))
                erow.append(np.zeros((nf, nd)))
            else:
                row.append(("NODATA",))
                erow.append(np.full((nf, nd), np.nan))
        blocks.append(row)
        expected.append(erow)
    times = None if perm is None else [T[r] for r in perm]
    return times, locs, freqs, dirs, blocks, expected


def swan_text(case):
    times, locs, freqs, dirs, blocks, expected = swan_content(case)
    txt = enc.swan_ascii(times, [x for x, y in locs], [y for x, y in locs], freqs, dirs, blocks,
                         loc_kw=case.get("loc_kw", "LONLAT"), freq_kw=case.get("freq_kw", "AFREQ"), dir_kw=case["dir_kw"],
                         units=case["units"], excval_text=case.get("excval", "-0.9900E+02"),
                         cdir_range=case.get("cdir_range", "0_360"))
    return txt, (times, locs, freqs, dirs, expected)


def swan_compare(out, reader, ds, times, locs, freqs, dirs, expected, case, tdim="time"):
    """expected[it][ip] arrays (nf, nd) in file order."""
    perm = case["perm"]
    op = order_pred(perm, case.get("nfiles", 1))
    hdr = "%s,%s" % (case["units"], case["dir_kw"])
    nt = len(expected)
    if times is not None:
        tm = match_times(ds[tdim].values, times, out.fails, reader, op)
        if tm is None:
            return
    else:
        if ds.sizes.get("time", 0) != 1:
            out.fails.append((reader, "time-values", "no-TIME-block", "stationary file returned %d times" % ds.sizes.get("time", 0)))
            return
        tm = [0]
    fb = first_bad(ds.freq.values, freqs, 1e-9)
    if fb:
        out.fails.append((reader, "freq", case.get("freq_kw", "AFREQ"), "frequencies " + fb))
        return
    dm = map_dirs(ds.dir.values, dirs, 1e-6)
    if dm is None:
        out.fails.append((reader, "dir", case["dir_kw"] + "," + case.get("cdir_range", "0_360"), "returned directions %s, file encodes nautical %s" % (
            list(np.asarray(ds.dir.values, dtype=float)), dirs)))
        return
    efth = ds["efth"]
    layout = "sites" if "site" in efth.dims else "grid"
    tname = tdim if tdim in efth.dims else [d for d in efth.dims if d not in ("site", "lat", "lon", "freq", "dir")][0]
    G = np.full((nt, len(locs), len(freqs), len(dirs)), np.nan)
    X = np.full_like(G, np.nan)
    vmax = 0.0
    posbad = None
    for k in range(nt):
        for ip, (x, y) in enumerate(locs):
            if layout == "sites":
                if ds.sizes["site"] != len(locs):
                    out.fails.append((reader, "position", layout, "%d sites returned, file has %d locations" % (ds.sizes["site"], len(locs))))
                    return
                gx, gy = float(ds["lon"].values.ravel()[ip]), float(ds["lat"].values.ravel()[ip])
                a = efth.isel({tname: k, "site": ip})
            else:
                lons = np.asarray(ds["lon"].values, dtype=float).ravel()
                lats = np.asarray(ds["lat"].values, dtype=float).ravel()
                ix, iy = int(np.argmin(np.abs(lons - x))), int(np.argmin(np.abs(lats - y)))
                gx, gy = float(lons[ix]), float(lats[iy])
                a = efth.isel({tname: k, "lon": ix, "lat": iy})
            if abs(gx - x) > 1e-6 or abs(gy - y) > 1e-6:
                posbad = "location %d is (%r, %r) in the file, nearest returned (%r, %r)" % (ip, x, y, gx, gy)
            a = np.asarray(a.transpose("freq", "dir").values, dtype=float)
            inv = [dm.index(j) for j in range(len(dirs))]  # expected dir j lives at returned index inv[j]
            G[k, ip] = a[:, inv]
            e = expected[tm[k]][ip]
            X[k, ip] = e
            if np.isfinite(e).any():
                vmax = max(vmax, float(np.nanmax(e)))
    if posbad:
        out.fails.append((reader, "position", layout + "," + case.get("loc_kw", "LONLAT"), posbad))
        return
    # resolution: integers of max/9998 per spectrum -> half a unit of the largest spectrum's factor is the loosest bound;
    # compare per spectrum with its own factor
    bad = None
    for k in range(nt):
        for ip in range(len(locs)):
            e = X[k, ip]
            sm = float(np.nanmax(e)) if np.isfinite(e).any() else 0.0
            fb = first_bad(G[k, ip], e, 0.51 * sm / 9998.0 + 1e-12 * sm)
            if fb and bad is None:
                bad = "time %d location %d: %s" % (k, ip, fb)
    if bad:
        R = nt * len(locs)
        diag = diagnose(G.reshape(R, len(freqs), len(dirs)), X.reshape(R, len(freqs), len(dirs)), 0.51 * vmax / 9998.0 + 1e-12)
        if diag == "records-permuted":
            tolr = 0.51 * vmax / 9998.0 + 1e-12
            within = all(all(any(close(G[k, a], X[k, b], tolr) for b in range(len(locs))) for a in range(len(locs))) for k in range(nt))
            if within:
                pred = "%s,locations-permuted" % layout
                if layout == "grid":
                    pred += ",header-lists-" + ("x-outer-y-inner-ascending" if _lat_fastest(locs) else "other-order")
            else:
                pred = "%s,%s,%s" % (layout, diag, op)
        elif diag == "scaled":
            pred = "%s,%s" % (case["units"], diag)
        elif diag == "dir-axis-permuted":
            pred = "%s,%s,%s" % (case["dir_kw"], case["dirs"], diag)
        else:
            pred = "%s,%s,blocks=%s,%s" % (layout, hdr, case["blocks"], diag)
        out.fails.append((reader, "density", pred, bad))


def _lat_fastest(locs):
    """True when the header lists the grid with x outer / y inner, both ascending."""
    xs = sorted(set(x for x, y in locs))
    ys = sorted(set(y for x, y in locs))
    return list(locs) == [(x, y) for x in xs for y in ys]


def fmt_swan(case, tmp):
    common.load_wavespectra()
    from wavespectra.input.swan import read_swan

    out = Out()
    txt, (times, locs, freqs, dirs, expected) = swan_text(case)
    out.files = {"c13site.spec": txt}
    p = write_files(tmp, out.files)["c13site.spec"]
    reader = "read_swan"
    ds = call_reader(out, reader, "%s,%s,%s,blocks=%s" % (swan_layout(locs), case["units"], case["dir_kw"], case["blocks"]),
                     lambda: read_swan(p, dirorder=case.get("dirorder", True), as_site=case.get("as_site", False)))
    if ds is None:
        return out
    swan_compare(out, reader, ds, times, locs, freqs, dirs, expected, case)
    out.nontrivial = len(freqs) * len(dirs) >= 4 and any(b[0] == "FACTOR" for row in swan_content(case)[4] for b in row)
    out.outcomes.append("read_swan:%s:%s:%s" % ("sites" if "site" in ds.efth.dims else "grid", case["units"], case["dir_kw"]))
    return out


def fmt_swans(case, tmp):
    """read_swans on several files: 'cycles' (files with different first times, same site name in different folders)
    and several sites of one cycle."""
    common.load_wavespectra()
    from wavespectra.input.swan import read_swans

    out = Out()
    seed = case.get("seed", 0)
    T = times_for(seed, "sec")
    mags = mags_for(seed)
    freqs, dirs = FREQS[case["nf"]], SWAN_DIRS[case["dirs"]]
    nf, nd = len(freqs), len(dirs)
    perm = case["perm"]  # perm[i] = time rank of the cycle stored in folder i (folders are read in name order)
    nsites = case["nsites"]
    sites = [(174.5 + 0.5 * s, -38.25 - 0.25 * s) for s in range(nsites)]
    files, exp = {}, {}
    for i, r in enumerate(perm):
        for s, (x, y) in enumerate(sites):
            q = r * nsites + s
            spec = rec_spec(q, case.get("vv", 0), mags, nf, nd)
            files["cyc%d/st%d.spec" % (i, s)] = enc.swan_ascii([T[r]], [x], [y], freqs, dirs, [[("FACTOR", spec)]],
                                                               dir_kw=case["dir_kw"], units=case["units"])
            exp[(r, s)] = np.array(spec)
    out.files = files
    paths = write_files(tmp, files)
    flist = [paths[k] for k in sorted(paths)]
    reader = "read_swans"
    op = order_pred(perm, len(perm))
    ds = call_reader(out, reader, "multi-file", lambda: read_swans(flist, int_freq=False, int_dir=False))
    if ds is None:
        return out
    times_file = [T[r] for r in perm]
    if "time" in ds.coords or "time" in ds.variables:
        tvals = ds["time"].values
    else:  # several cycles: 'cycletime' holds (cycle, time) pairs
        import pandas as pd

        tvals = np.array([pd.Timestamp(v[1]).to_datetime64() for v in ds["cycletime"].values], dtype="datetime64[ns]")
    tm = match_times(tvals, times_file, out.fails, reader, op)
    if tm is None:
        return out
    if first_bad(ds.freq.values, freqs, 1e-9) or map_dirs(ds.dir.values, dirs, 1e-6) is None:
        out.fails.append((reader, "freq-dir", case["dir_kw"], "spectral basis differs from the files'"))
        return out
    dm = map_dirs(ds.dir.values, dirs, 1e-6)
    inv = [dm.index(j) for j in range(nd)]
    tname = [d for d in ds.efth.dims if d not in ("site", "freq", "dir")][0]
    G = np.zeros((len(perm), nsites, nf, nd))
    X = np.zeros_like(G)
    for k in range(len(perm)):
        for s in range(nsites):
            a = np.asarray(ds.efth.isel({tname: k, "site": s}).transpose("freq", "dir").values, dtype=float)
            G[k, s] = a[:, inv]
            X[k, s] = exp[(perm[tm[k]], s)]
            if abs(float(ds.lon.values[s]) - sites[s][0]) > 1e-6 or abs(float(ds.lat.values[s]) - sites[s][1]) > 1e-6:
                out.fails.append((reader, "position", "sites", "site %d at (%r,%r), file says %r" % (s, float(ds.lon.values[s]), float(ds.lat.values[s]), sites[s])))
                return out
    vmax = float(X.max())
    fb = first_bad(G, X, 0.51 * vmax / 9998.0, 0.0)
    # per spectrum resolution
    bad = None
    for k in range(len(perm)):
        for s in range(nsites):
            fbb = first_bad(G[k, s], X[k, s], 0.51 * float(X[k, s].max()) / 9998.0 + 1e-12)
            if fbb and bad is None:
                bad = "time %d site %d: %s" % (k, s, fbb)
    if bad:
        R = len(perm) * nsites
        diag = diagnose(G.reshape(R, nf, nd), X.reshape(R, nf, nd), 0.51 * vmax / 9998.0)
        out.fails.append((reader, "density", dpred(diag, op), bad))
    out.nontrivial = len(perm) > 1 or nsites > 1
    out.outcomes.append("read_swans:%s" % tname)
    return out


# ---------------------------------------------------------------------------------------------
# TRIAXYS
# ---------------------------------------------------------------------------------------------
def fmt_triaxys(case, tmp):
    common.load_wavespectra()
    from wavespectra.input.triaxys import read_triaxys

    out = Out()
    seed = case.get("seed", 0)
    T = times_for(seed, "min")
    mags = mags_for(seed, 0.05 if case["kind"] == "DIRSPEC" else 1.0)
    perm = case["perm"]  # file i (name order) carries the record with time rank perm[i]
    f0, df, nf = case["f0"], case["df"], case["nf"]
    isdir = case["kind"] == "DIRSPEC"
    ddir = case.get("ddir", 90)
    nd = int(round(360 / ddir)) if isdir else 1
    files, exp = {}, []
    for i, r in enumerate(perm):
        s = rec_spec(r, case.get("vv", 0), mags, nf, nd)
        name = "buoy_%02d.%s" % (i, case["kind"])
        if isdir:
            files[name] = enc.triaxys_dirspec(T[r], f0, df, nf, ddir, s)
            exp.append(np.array([row + [row[0]] for row in s]))
        else:
            files[name] = enc.triaxys_nondirspec(T[r], f0, df, nf, [row[0] for row in s])
            exp.append(np.array([row[0] for row in s]))
    out.files = files
    paths = write_files(tmp, files)
    reader = "read_triaxys"
    op = order_pred(perm, len(perm))
    arg = os.path.join(tmp, "buoy_*." + case["kind"]) if case.get("how", "glob") == "glob" else [paths[k] for k in sorted(paths)]
    ds = call_reader(out, reader, case["kind"], lambda: read_triaxys(arg))
    if ds is None:
        return out
    tm = match_times(ds["time"].values, [T[r] for r in perm], out.fails, reader, op)
    if tm is None:
        return out
    fexp = [round(f0 + i * df, 6) for i in range(nf)]
    fb = first_bad(ds.freq.values, fexp, 1e-9)
    if fb:
        out.fails.append((reader, "freq", "header-grid", "NUMBER OF FREQUENCIES=%d INITIAL=%.3f SPACING=%.3f: frequencies %s; returned %d values" % (
            nf, f0, df, fb, ds.freq.size)))
        return out
    efth = ds["efth"]
    if isdir:
        dexp = [ddir * j for j in range(nd + 1)]
        fb = first_bad(ds.dir.values, dexp, 1e-9) if "dir" in ds.dims else "no dir dimension"
        if fb:
            out.fails.append((reader, "dir", "DIRSPEC", "directions " + str(fb)))
            return out
        G = np.asarray(efth.transpose("time", "freq", "dir").values, dtype=float)
    else:
        if "dir" in efth.dims:
            out.fails.append((reader, "dir", "NONDIRSPEC", "1-D file returned with a dir dimension of size %d" % ds.sizes["dir"]))
            return out
        G = np.asarray(efth.transpose("time", "freq").values, dtype=float)[:, :, None]
    X = np.array([exp[tm[k]] for k in range(len(perm))], dtype=float)
    if not isdir:
        X = X[:, :, None]
    rt = 1e-5 if isdir else 1e-7
    fb = first_bad(G, X, 1e-300, rt)
    if fb:
        out.fails.append((reader, "density", dpred(diagnose(G, X, 1e-300, rt), op, case["kind"]), fb))
    out.nontrivial = nf >= 2
    out.outcomes.append("read_triaxys:%s" % case["kind"])
    return out


# ---------------------------------------------------------------------------------------------
# NDBC ASCII
# ---------------------------------------------------------------------------------------------
NDBC_FREQS = {"realtime": [0.033, 0.038, 0.043, 0.048], "history": [0.02, 0.0325, 0.0375, 0.0425], "history_nomin": [0.03, 0.04, 0.05, 0.06]}
NDBC_DIRS = {"default": None, "d90": [0.0, 90.0, 180.0, 270.0], "d120": [0.0, 120.0, 240.0], "d45": [45.0 * j for j in range(8)]}
ALPHA = [0.0, 52.0, 136.0, 216.0, 300.0, 356.0, 92.0]
R1 = [0.37, 0.82, 0.06, 0.58, 0.24]
R2 = [0.5, 0.11, 0.33, 0.06, 0.21]


def fmt_ndbc(case, tmp):
    common.load_wavespectra()
    from wavespectra.input.ndbc_ascii import read_ndbc_ascii

    out = Out()
    seed = case.get("seed", 0)
    var = case["variant"]  # realtime | history | history_gz | history_nomin
    fkey = var if var in NDBC_FREQS else "history"
    base = "realtime" if var == "realtime" else "history"
    T = times_for(seed, "hour" if var == "history_nomin" else "min")
    nf = case["nf"]
    freqs = NDBC_FREQS[fkey][:nf]
    mags = mags_for(seed, 2.0)
    perm = case["perm"]
    times = [T[r] for r in perm]
    dec = 3 if var == "realtime" else 2
    spec, a1, a2, r1, r2 = [], [], [], [], []
    for r in perm:
        s = [round(row[0], dec) for row in rec_spec(r, case.get("vv", 0), mags, nf, 1)]
        spec.append(s)
        a1.append([ALPHA[(r * nf + i + case.get("vv", 0)) % len(ALPHA)] for i in range(nf)])
        a2.append([ALPHA[(r * nf + i + 3 + case.get("vv", 0)) % len(ALPHA)] for i in range(nf)])
        r1.append([R1[(r + i) % len(R1)] for i in range(nf)])
        r2.append([R2[(r * 2 + i) % len(R2)] for i in range(nf)])
    comp = {"spec": spec, "alpha1": a1, "alpha2": a2, "r1": r1, "r2": r2}
    kinds = ["spec", "alpha1", "alpha2", "r1", "r2"] if case["mode"] == "5files" else ["spec"]
    files = {}
    for kd in kinds:
        if var == "realtime":
            name = "41010." + {"spec": "data_spec", "alpha1": "swdir", "alpha2": "swdir2", "r1": "swr1", "r2": "swr2"}[kd]
            files[name] = enc.ndbc_realtime(times, freqs, comp[kd], kd, sep_freq=[0.225 - 0.01 * r for r in perm])
        else:
            letter = {"spec": "w", "alpha1": "d", "alpha2": "i", "r1": "j", "r2": "k"}[kd]
            gz = var == "history_gz"
            name = "41010%s2019.txt%s" % (letter, ".gz" if gz else "")
            files[name] = enc.ndbc_history(times, freqs, comp[kd], kd, minutes=(var != "history_nomin"), gz=gz)
    out.files = files
    paths = write_files(tmp, files)
    names = list(files)
    reader = "read_ndbc_ascii"
    op = order_pred(perm)
    dirs_arg = NDBC_DIRS[case.get("dirs", "default")]
    if case["mode"] == "1file":
        fn = lambda: read_ndbc_ascii(paths[names[0]])
    elif dirs_arg is None:
        fn = lambda: read_ndbc_ascii([paths[n] for n in names])
    else:
        fn = lambda: read_ndbc_ascii([paths[n] for n in names], dirs=np.array(dirs_arg))
    ds = call_reader(out, reader, "%s,%s" % (var, case["mode"]), fn)
    if ds is None:
        return out
    tm = match_times(ds["time"].values, times, out.fails, reader, op + "," + var)
    if tm is None:
        return out
    fb = first_bad(ds.freq.values, freqs, 0.0, 1e-6)
    if fb:
        out.fails.append((reader, "freq", var, "frequencies " + fb))
        return out
    efth = ds["efth"].transpose("time", "freq", "dir")
    E1 = np.array([spec[tm[k]] for k in range(len(perm))], dtype=float)
    if case["mode"] == "1file":
        G = np.asarray(efth.values, dtype=float)
        if G.shape[2] != 1:
            out.fails.append((reader, "1d-unchanged", var, "single density file returned %d directions" % G.shape[2]))
            return out
        fb = first_bad(G[:, :, 0], E1, 1e-12, 1e-9)
        if fb:
            out.fails.append((reader, "1d-unchanged", dpred(diagnose(G, E1[:, :, None], 1e-12, 1e-9), op, var), fb))
    else:
        dvals = list(np.arange(0, 360, 10.0)) if dirs_arg is None else dirs_arg
        fb = first_bad(ds.dir.values, dvals, 1e-9)
        if fb:
            out.fails.append((reader, "dir", var, "directions " + fb))
            return out
        dd = 360.0 / len(dvals)
        G = np.asarray(efth.values, dtype=float)
        S = np.zeros(G.shape[:2])
        for j in range(len(dvals)):
            S += G[:, :, j] * dd
        fb = first_bad(S, E1, 1e-9, 1e-6)
        if fb:
            out.fails.append((reader, "dir-integral", dpred(diagnose(S[:, :, None], E1[:, :, None], 1e-9, 1e-6), op, var),
                              "sum_dir E(f,theta)*dd vs file density: " + fb))
        else:
            # NDBC (measdes.shtml): S(f,A) = C11(f) * (1/pi) * (0.5 + r1 cos(A - alpha1) + r2 cos(2 (A - alpha2))) per radian
            X = np.zeros_like(G)
            for k in range(len(perm)):
                q = tm[k]
                for i in range(nf):
                    for j, th in enumerate(dvals):
                        D = (0.5 + r1[q][i] * math.cos((th - a1[q][i]) * D2R) + r2[q][i] * math.cos(2 * (th - a2[q][i]) * D2R)) / math.pi
                        X[k, i, j] = spec[q][i] * D * D2R
            atol = 1e-9 + 1e-6 * float(np.abs(X).max())
            fb = first_bad(G, X, atol, 1e-6)
            if fb:
                out.fails.append((reader, "spreading-formula", "%s,%s" % (base, diagnose(G, X, atol, 1e-6)), "E(f,theta) vs C11*D(f,theta) of the NDBC definition: " + fb))
    out.nontrivial = nf >= 2 and case["mode"] == "5files" or len(perm) > 1
    out.outcomes.append("read_ndbc_ascii:%s:%s" % (var, case["mode"]))
    return out


# ---------------------------------------------------------------------------------------------
# buoys with frequency spectrum + mean direction + spread (Spotter, Datawell)
# ---------------------------------------------------------------------------------------------
DM = [291.0, 10.0, 182.5, 95.0, 356.0, 47.5, 230.0]
DSPR = [19.8, 28.0, 49.0, 70.4, 12.5, 76.0, 35.0]


def buoy_content(seed, perm, nf, vv, scale=1.0, kinds=KINDS):
    mags = mags_for(seed, scale)
    spec, dm, ds_ = [], [], []
    for r in perm:
        spec.append([row[0] for row in rec_spec(r, vv, mags, nf, 1, kinds)])
        dm.append([DM[(r * nf + i + vv) % len(DM)] for i in range(nf)])
        ds_.append([DSPR[(r * 2 + i + vv) % len(DSPR)] for i in range(nf)])
    return spec, dm, ds_


def buoy_compare(out, reader, ds, tm, perm, freqs, spec, dm, dspr, dd, pred0, op, ftol, etol, mtol=1e-9):
    fb = first_bad(ds.freq.values, freqs, ftol)
    if fb:
        out.fails.append((reader, "freq", pred0, "frequencies " + fb))
        return
    n = len(perm)
    E1 = np.array([spec[tm[k]] for k in range(n)], dtype=float)
    for nm, ref in (("dmf", dm), ("dsprf", dspr)):
        if nm in ds:
            g = np.asarray(ds[nm].transpose("time", "freq").values, dtype=float)
            x = np.array([ref[tm[k]] for k in range(n)], dtype=float)
            fb = first_bad(g, x, mtol)
            if fb:
                out.fails.append((reader, "moments", "%s,%s,%s" % (pred0, nm, diagnose(g[:, :, None], x[:, :, None], mtol)), nm + " " + fb))
                return
    efth = ds["efth"]
    if dd is None:
        if "dir" in efth.dims:
            out.fails.append((reader, "1d-unchanged", pred0, "dd=None returned a dir dimension"))
            return
        G = np.asarray(efth.transpose("time", "freq").values, dtype=float)
        fb = first_bad(G, E1, 1e-300, etol)
        if fb:
            out.fails.append((reader, "1d-unchanged", dpred(diagnose(G[:, :, None], E1[:, :, None], 1e-300, etol), op, pred0), fb))
        return
    nd = int(round(360.0 / dd))
    dvals = [dd * j for j in range(nd)]
    fb = first_bad(ds.dir.values, dvals, 1e-9)
    if fb:
        out.fails.append((reader, "dir", pred0, "directions " + fb))
        return
    G = np.asarray(efth.transpose("time", "freq", "dir").values, dtype=float)
    S = np.zeros(G.shape[:2])
    for j in range(nd):
        S += G[:, :, j] * dd
    fb = first_bad(S, E1, 1e-300, etol + 1e-9)
    if fb:
        out.fails.append((reader, "dir-integral", dpred(diagnose(S[:, :, None], E1[:, :, None], 1e-300, etol + 1e-9), op, pred0),
                          "sum_dir E(f,theta)*dd vs file density: " + fb))
        return
    if (G < 0).any():
        out.fails.append((reader, "dir-integral", pred0 + ",negative", "negative density in the reconstructed spectrum"))
        return
    # the spreading is centred on the file's mean direction (any unimodal symmetric spreading): peak within one bin of dm
    for k in range(n):
        for i in range(len(freqs)):
            if E1[k, i] > 0 and dspr[tm[k]][i] < 75.0:
                j = int(np.argmax(G[k, i]))
                if circ_diff(dvals[j], dm[tm[k]][i]) > dd / 2.0 + 1e-6:
                    out.fails.append((reader, "spreading-centre", pred0, "time %d freq %d: peak of E(f,.) at %r deg, file's mean direction %r" % (
                        k, i, dvals[j], dm[tm[k]][i])))
                    return


def fmt_spotter(case, tmp):
    common.load_wavespectra()
    from wavespectra.input.spotter import read_spotter

    out = Out()
    seed = case.get("seed", 0)
    T = times_for(seed, "sec")
    nf = case["nf"]
    freqs = [0.0293, 0.03906, 0.04883, 0.6543][:nf]
    perm = case["perm"]
    spec, dm, dspr = buoy_content(seed, perm, nf, case.get("vv", 0), kinds=KINDS + ["zero"])
    lats = [36.73937 - 0.5 * r for r in perm]
    lons = [-121.88502 + 0.25 * r for r in perm]
    times = [T[r] for r in perm]
    typ = case["type"]
    split = case.get("split", "one")  # one file with all records in perm order | one record per file (name order = perm order)
    groups = [list(range(len(perm)))] if split == "one" else [[i] for i in range(len(perm))]
    files = {}
    wt = None
    if typ == "json" and case.get("wave_ts", "same") == "offset":
        wt = [enc_shift_hour(t) for t in times]
    for g, idx in enumerate(groups):
        sub = lambda a: [a[i] for i in idx]
        name = "spot_%02d.%s" % (g, typ)
        if typ == "csv":
            files[name] = enc.spotter_csv(sub(times), freqs, sub(lats), sub(lons), sub(spec), sub(dm), sub(dspr))
        else:
            files[name] = enc.spotter_json(sub(times), freqs, sub(lats), sub(lons), sub(spec), sub(dm), sub(dspr),
                                           wave_times=None if wt is None else sub(wt))
    out.files = files
    paths = write_files(tmp, files)
    reader = "read_spotter_" + typ
    op = order_pred(perm, len(groups))
    how = case.get("how", "list")
    arg = os.path.join(tmp, "spot_*." + typ) if how == "glob" else [paths[k] for k in sorted(paths)]
    if len(groups) == 1 and how == "list":
        arg = paths["spot_00." + typ]
    dd = case["dd"]
    pred0 = "%s,dd=%s" % (typ, "None" if dd is None else "%g" % dd)
    ds = call_reader(out, reader, pred0, lambda: read_spotter(arg, dd=dd))
    if ds is None:
        return out
    if wt is not None:
        # the vendor sample stamps waves[i] one hour after frequencyData[i]; the statement does not say which of the two
        # stamps of the same record is "the" time, so either is accepted (consistently over the file)
        probe = []
        if match_times(ds["time"].values, times, probe, reader, op) is None:
            times = wt
    tm = match_times(ds["time"].values, times, out.fails, reader, op)
    if tm is None:
        return out
    n = len(perm)
    for nm, ref in (("lat", lats), ("lon", lons)):
        g = np.asarray(ds[nm].values, dtype=float).ravel()
        x = np.array([ref[tm[k]] for k in range(n)])
        fb = first_bad(g, x, 1e-9)
        if fb:
            out.fails.append((reader, "position", pred0 + "," + op, nm + " " + fb))
            return out
    buoy_compare(out, reader, ds, tm, perm, freqs, spec, dm, dspr, dd, pred0, op, 1e-9, 1e-9)
    out.nontrivial = nf >= 2 and (dd is not None or len(perm) > 1)
    out.outcomes.append("%s:dd=%s:%s" % (reader, dd, split))
    return out


def enc_shift_hour(t):
    """the bulk-parameter record of the vendor sample is stamped one hour after its spectrum"""
    Y, M, D, h, m, s = enc.parse_iso(t)
    e = enc.epoch(t) + 3600
    d = np.datetime64(e, "s")
    return str(d)[:19]


def fmt_datawell(case, tmp):
    common.load_wavespectra()
    from wavespectra.input.datawell import read_datawell

    out = Out()
    seed = case.get("seed", 0)
    T = times_for(seed, "min")
    nf = case["nf"]
    freqs = [0.025, 0.03, 0.035, 0.58][:nf]
    perm = case["perm"]  # element i of the file *list* carries time rank perm[i]
    spec, dm, dspr = buoy_content(seed, perm, nf, case.get("vv", 0), scale=0.5)
    times = [T[r] for r in perm]
    files = {}
    names = []
    for i, r in enumerate(perm):
        name = enc.datawell_name("buoy", T[r])
        files[name] = enc.datawell_spt(freqs, spec[i], dm[i], dspr[i])
        names.append(name)
    out.files = files
    paths = write_files(tmp, files)
    reader = "read_datawell"
    op = order_pred(perm, len(perm))
    how = case.get("how", "list")
    if how == "glob":
        arg = os.path.join(tmp, "buoy*.spt")
    elif len(perm) == 1:
        arg = paths[names[0]]
    else:
        arg = [paths[n] for n in names]
    dd = case["dd"]
    lonlat = case.get("lonlat", False)
    kw = dict(dd=dd)
    if lonlat:
        kw.update(lon=5.25, lat=53.5)
    pred0 = "dd=%s" % ("None" if dd is None else "%g" % dd)
    ds = call_reader(out, reader, pred0, lambda: read_datawell(arg, **kw))
    if ds is None:
        return out
    tm = match_times(ds["time"].values, times, out.fails, reader, op)
    if tm is None:
        return out
    if lonlat:
        try:
            ok = close(np.asarray(ds["lon"].values, dtype=float).ravel(), [5.25], 1e-12) and close(np.asarray(ds["lat"].values, dtype=float).ravel(), [53.5], 1e-12)
        except Exception:
            ok = False
        if not ok:
            out.fails.append((reader, "position", op, "lon/lat arguments not returned as given"))
            return out
    # S/Smax and Smax are both printed with 5 significant digits
    buoy_compare(out, reader, ds, tm, perm, freqs, spec, dm, dspr, dd, pred0, op, 1e-9, 2.5e-4, mtol=0.05 + 1e-9)
    out.nontrivial = nf >= 2 and (dd is not None or len(perm) > 1)
    out.outcomes.append("%s:dd=%s:%s" % (reader, dd, how))
    return out


# ---------------------------------------------------------------------------------------------
# Obscape
# ---------------------------------------------------------------------------------------------
def fmt_obscape(case, tmp):
    common.load_wavespectra()
    from wavespectra.input.obscape import read_obscape

    out = Out()
    seed = case.get("seed", 0)
    T = times_for(seed, "sec")
    nf, dd = case["nf"], case["dd"]
    freqs = [0.048828, 0.054932, 0.061035, 1.016235][:nf]
    nd = int(round(360.0 / dd))
    perm = case["perm"]  # file i in *name* order has time rank perm[i]
    mags = mags_for(seed, 0.02)
    files, exp, names = {}, [], []
    lat, lon = -29.8188, 31.0456
    for i, r in enumerate(perm):
        s = rec_spec(r, case.get("vv", 0), mags, nf, nd)
        # the name stamp follows the convention yyyymmdd_hhmmss; names are made to sort in list position order
        name = "%02d_%s" % (i, enc.obscape_name(T[r])) if case.get("naming", "indexed") == "indexed" else enc.obscape_name(T[r])
        files[name] = enc.obscape_csv(T[r], freqs, dd, s, lat, lon)
        exp.append(np.array(s))
        names.append(name)
    out.files = files
    paths = write_files(tmp, files)
    reader = "read_obscape"
    op = order_pred(perm, len(perm))
    how = case.get("how", "list")
    arg = os.path.join(tmp, "*.csv") if how == "glob" else [paths[n] for n in names]
    ds = call_reader(out, reader, "dd=%g" % dd, lambda: read_obscape(arg))
    if ds is None:
        return out
    tm = match_times(ds["time"].values, [T[r] for r in perm], out.fails, reader, op)
    if tm is None:
        return out
    fb = first_bad(ds.freq.values, freqs, 1e-9)
    if fb:
        out.fails.append((reader, "freq", "rows", "frequencies " + fb))
        return out
    dvals = [dd * j for j in range(nd)]
    fb = first_bad(ds.dir.values, dvals, 1e-9)
    if fb:
        out.fails.append((reader, "dir", "dd=%g" % dd, "directions " + fb))
        return out
    try:
        pos_ok = abs(float(ds.attrs["Latitude [deg]"]) - lat) < 1e-9 and abs(float(ds.attrs["Longitude [deg]"]) - lon) < 1e-9
    except Exception:
        pos_ok = False
    if not pos_ok:
        out.fails.append((reader, "position", "attrs", "latitude/longitude of the header not returned: %r" % {k: v for k, v in ds.attrs.items() if "itude" in k}))
        return out
    efth = ds["efth"]
    if "site" in efth.dims:
        efth = efth.isel(site=0)
    G = np.asarray(efth.transpose("time", "freq", "dir").values, dtype=float)
    X = np.array([exp[tm[k]] for k in range(len(perm))])
    atol = 0.51e-4 * D2R  # four decimals in m2/Hz/rad
    fb = first_bad(G, X, atol, 1e-12)
    if fb:
        out.fails.append((reader, "density", dpred(diagnose(G, X, atol, 1e-12), op), fb))
    out.nontrivial = nf * nd >= 4
    out.outcomes.append("read_obscape:dd=%g" % dd)
    return out


# ---------------------------------------------------------------------------------------------
# WW3 station
# ---------------------------------------------------------------------------------------------
WW3_DIRS = {
    "W2": [270.0, 90.0],
    "W4": [185.0, 95.0, 5.0, 275.0],
    "W3": [10.0, 130.0, 250.0],
    "W8": [(265.0 - 45.0 * j) % 360.0 for j in range(8)],
}


def fmt_ww3(case, tmp):
    common.load_wavespectra()
    from wavespectra.input.ww3_station import read_ww3_station

    out = Out()
    seed = case.get("seed", 0)
    T = times_for(seed, "sec")
    nf = case["nf"]
    freqs = FREQS[nf]
    dirs = WW3_DIRS[case["dirs"]]
    nd = len(dirs)
    perm = case["perm"]
    nloc = case.get("nloc", 1)
    names = ["44097", "46042"][:nloc]
    pos = [(40.98, -71.12), (36.79, -122.4)][:nloc]
    mags = mags_for(seed, (0.03, 1e-15, 40.0)[case.get("vv", 0) % 3])
    recs, exp = [], []
    for r in perm:
        row, erow = [], []
        for ip in range(nloc):
            s = rec_spec(r * nloc + ip, case.get("vv", 0), mags, nf, nd)
            row.append(dict(lat=pos[ip][0], lon=pos[ip][1], depth=46.6, wspd=1.45 + r, wdir=225.6, cspd=0.18, cdir=94.1, spec=s))
            erow.append(np.array(s))
        recs.append(row)
        exp.append(erow)
    times = [T[r] for r in perm]
    out.files = {"ww3station.spec": enc.ww3_station(times, freqs, dirs, recs, names)}
    p = write_files(tmp, out.files)["ww3station.spec"]
    reader = "read_ww3_station"
    op = order_pred(perm)
    lp = "nloc=%d" % nloc
    ds = call_reader(out, reader, lp, lambda: read_ww3_station(p))
    if ds is None:
        return out
    tm = match_times(ds["time"].values, times, out.fails, reader, op)
    if tm is None:
        return out
    fb = first_bad(ds.freq.values, freqs, 0.0, 5.1e-3)
    if fb:
        out.fails.append((reader, "freq", "nf=%d" % nf, "frequencies " + fb))
        return out
    dm = map_dirs(ds.dir.values, dirs, 0.3)
    if dm is None:
        out.fails.append((reader, "dir", case["dirs"], "returned directions %s; file encodes going-to radians of coming-from %s" % (
            [round(float(x), 2) for x in ds.dir.values], dirs)))
        return out
    inv = [dm.index(j) for j in range(nd)]
    efth = ds["efth"]
    G = np.zeros((len(perm), nloc, nf, nd))
    X = np.zeros_like(G)
    for k in range(len(perm)):
        for ip in range(nloc):
            lats = np.asarray(ds["lat"].values, dtype=float).ravel()
            lons = np.asarray(ds["lon"].values, dtype=float).ravel()
            if "lat" in efth.dims:
                iy, ix = int(np.argmin(np.abs(lats - pos[ip][0]))), int(np.argmin(np.abs(lons - pos[ip][1])))
                a = efth.isel(time=k, lat=iy, lon=ix)
                gy, gx = lats[iy], lons[ix]
            else:
                a = efth.isel(time=k, site=ip)
                gy, gx = lats[ip], lons[ip]
            if abs(gy - pos[ip][0]) > 0.0051 or abs(gx - pos[ip][1]) > 0.0051:
                out.fails.append((reader, "position", lp, "point %d at lat %r lon %r in the file, returned lat %r lon %r" % (ip, pos[ip][0], pos[ip][1], gy, gx)))
                return out
            G[k, ip] = np.asarray(a.transpose("freq", "dir").values, dtype=float)[:, inv]
            X[k, ip] = exp[tm[k]][ip]
    R = len(perm) * nloc
    fb = first_bad(G, X, 1e-300, 5.1e-3)
    if fb:
        out.fails.append((reader, "density", dpred(diagnose(G.reshape(R, nf, nd), X.reshape(R, nf, nd), 1e-300, 5.1e-3), op, lp), fb))
    out.nontrivial = nf * nd >= 4
    out.outcomes.append("read_ww3_station:%s" % case["dirs"])
    return out


FORMATS = {"swan": fmt_swan, "swans": fmt_swans, "triaxys": fmt_triaxys, "ndbc": fmt_ndbc, "spotter": fmt_spotter,
           "datawell": fmt_datawell, "obscape": fmt_obscape, "ww3": fmt_ww3}


# ---------------------------------------------------------------------------------------------
# enumeration (simplest first inside every format)
# ---------------------------------------------------------------------------------------------
def cases_for(tier, seed):
    quick = tier == "quick"
    P3 = perms_upto(3)
    out = []

    # ---- SWAN single file
    locs = ["1", "2diag", "2lon", "2lat", "3", "4lonmajor", "4latmajor"] + ([] if quick else ["6latmajor", "6lonmajor"])
    nfs = [2, 3] if quick else [2, 3, 4]
    dsets = ["D4s", "D4u", "D4d", "D3", "D4r", "D5r", "D4n", "D5w"] + ([] if quick else ["D2", "D6"])
    n = 0
    for perm in [None] + P3:
        for loc in locs:
            for nf in nfs:
                for dname in dsets:
                    for dir_kw in ("NDIR", "CDIR"):
                        for units in ("VaDens", "EnDens"):
                            for blocks in ("F", "Z", "N") + (() if quick else ("ZN",)):
                                minor = [("LONLAT", "AFREQ", "-0.9900E+02", 0, "0_360", 1.0), ("LOCATIONS", "RFREQ", "-99", 1, "pm180", 1e-6),
                                         ("LONLAT", "RFREQ", "-9", 2, "pm180", 1e3), ("LOCATIONS", "AFREQ", "-0.9900E+02", 3, "0_360", 1.0)]
                                opts = [(True, False), (True, True), (False, False)]
                                if quick or (perm is not None and len(perm) == 3):
                                    minors = [minor[n % 4]]
                                    optsel = [opts[n % 3]]
                                else:
                                    minors = minor
                                    optsel = opts
                                n += 1
                                for (lk, fk, ex, vv, cr, sc) in minors:
                                    for (dirorder, as_site) in optsel:
                                        out.append(dict(fmt="swan", perm=perm, locs=loc, nf=nf, dirs=dname, dir_kw=dir_kw, units=units,
                                                        blocks=blocks, loc_kw=lk, freq_kw=fk, excval=ex, vv=vv, cdir_range=cr, scale=sc,
                                                        dirorder=dirorder, as_site=as_site, seed=seed))
    if not quick:
        # every listing order of a 2x2 grid
        base = SWAN_LOCS["4lonmajor"]
        for p in itertools.permutations(range(4)):
            for perm in ([0], [1, 0]):
                out.append(dict(fmt="swan", perm=perm, locs=[list(base[i]) for i in p], nf=2, dirs="D4u", dir_kw="NDIR", units="VaDens",
                                blocks="F", vv=0, dirorder=True, as_site=False, seed=seed))
    # ---- SWAN several files
    for perm in P3:
        for nsites in (1, 2):
            for dir_kw, units in (("NDIR", "VaDens"), ("CDIR", "EnDens")):
                for nf in ([2] if quick else [2, 3]):
                    out.append(dict(fmt="swans", perm=perm, nsites=nsites, nf=nf, dirs="D4u", dir_kw=dir_kw, units=units, vv=len(perm), seed=seed))

    # ---- TRIAXYS
    for kind in ("NONDIRSPEC", "DIRSPEC"):
        for perm in P3:
            for nf in (2, 3, 4):
                for (f0, df) in ((0.0, 0.01), (0.03, 0.005)):
                    for ddir in ((90,) if kind == "NONDIRSPEC" else ((90, 120, 3) if quick else (90, 120, 45, 3))):
                        for how in ("glob", "list"):
                            for vv in ((0,) if quick else (0, 1, 2)):
                                out.append(dict(fmt="triaxys", kind=kind, perm=perm, nf=nf, f0=f0, df=df, ddir=ddir, how=how, vv=vv, seed=seed))
    for nf in range(2, 71 if quick else 201):
        for (f0, df) in ((0.0, 0.01), (0.005, 0.005), (0.03, 0.01), (0.05, 0.005)):
            out.append(dict(fmt="triaxys", kind="NONDIRSPEC", perm=[0], nf=nf, f0=f0, df=df, how="list", vv=0, seed=seed, sweep=True))

    # ---- NDBC
    for var in ("realtime", "history", "history_gz", "history_nomin"):
        for mode in ("1file", "5files"):
            for perm in P3:
                for nf in (2, 3, 4):
                    for dname in (("default",) if mode == "1file" else ("default", "d90", "d120", "d45")):
                        for vv in ((0,) if quick else (0, 1, 2)):
                            out.append(dict(fmt="ndbc", variant=var, mode=mode, perm=perm, nf=nf, dirs=dname, vv=vv, seed=seed))

    # ---- Spotter
    for typ in ("csv", "json"):
        for perm in P3:
            for split in ("one", "each"):
                if split == "each" and len(perm) == 1:
                    continue
                for nf in ((2, 3) if quick else (2, 3, 4)):
                    for dd in (None, 5.0, 30.0):
                        for how in (("list",) if split == "one" else ("list", "glob")):
                            for wave_ts in (("same",) if typ == "csv" else ("same", "offset")):
                                for vv in ((0,) if quick else (0, 1, 2)):
                                    out.append(dict(fmt="spotter", type=typ, perm=perm, split=split, nf=nf, dd=dd, how=how, wave_ts=wave_ts, vv=vv, seed=seed))

    # ---- Datawell
    for perm in P3:
        for nf in ((2, 3) if quick else (2, 3, 4)):
            for dd in (None, 5.0, 30.0):
                for how in ("list", "glob"):
                    for lonlat in (False, True):
                        for vv in ((0,) if quick else (0, 1, 2)):
                            out.append(dict(fmt="datawell", perm=perm, nf=nf, dd=dd, how=how, lonlat=lonlat, vv=vv, seed=seed))

    # ---- Obscape
    for perm in P3:
        for nf in (2, 3, 4):
            for dd in (90.0, 120.0, 45.0, 3.0):
                for how in ("list", "glob"):
                    for vv in ((0,) if quick else (0, 1, 2)):
                        out.append(dict(fmt="obscape", perm=perm, nf=nf, dd=dd, how=how, vv=vv, seed=seed))

    # ---- WW3 station
    n = 0
    for perm in P3:
        for nf in (2, 3, 4, 9):
            for dname in ("W2", "W3", "W4", "W8"):
                for nloc in (1, 2):
                    n += 1
                    for vv in ((n % 3,) if quick else (0, 1, 2)):
                        out.append(dict(fmt="ww3", perm=perm, nf=nf, dirs=dname, nloc=nloc, vv=vv, seed=seed))

    return out


def case_size(c):
    p = c.get("perm")
    return (0 if p is None else len(p), 0 if p is None or is_sorted(p) else 1, c.get("nf", 0))


# ---------------------------------------------------------------------------------------------
# running
# ---------------------------------------------------------------------------------------------
def run_one(case, tmp):
    # one directory per format and worker, wiped and refilled for every case: consecutive cases of a format rewrite the SAME
    # paths with other contents (often of the same size), so a reader that remembers files by path is exposed
    d = os.path.join(tmp, "fmt_" + case["fmt"])
    shutil.rmtree(d, ignore_errors=True)
    os.makedirs(d)
    try:
        return FORMATS[case["fmt"]]({k: v for k, v in case.items() if k != "_prev"}, d)
    finally:
        shutil.rmtree(d, ignore_errors=True)


def to_violations(case, out):
    vs = []
    for (reader, clause, pred, msg) in out.fails:
        vs.append(Violation(PROP, "%s|%s|%s" % (reader, clause, pred), "%s [case %s]" % (msg, {k: v for k, v in case.items() if k != "seed"}), dict(case)))
    return vs


_ROOT = None  # one temp root per run, created and removed by the parent (workers killed mid-batch leave nothing behind)


def run_batch(batch):
    res = {"evals": 0, "n_nontrivial": 0, "samples": [], "outcomes": {}, "violations": [], "parts": {}}
    tmp = tempfile.mkdtemp(prefix="c13_", dir=_ROOT)
    try:
        last = {}
        for case in batch:
            out = run_one(case, tmp)
            if out.fails and case["fmt"] in last:
                case = dict(case, _prev={k: v for k, v in last[case["fmt"]].items() if k not in ("sample", "_prev")})  # replay re-runs the predecessor first
            last[case["fmt"]] = case
            res["evals"] += 1
            res["parts"][case["fmt"]] = res["parts"].get(case["fmt"], 0) + 1
            if out.nontrivial:
                res["n_nontrivial"] += 1
            for o in out.outcomes:
                res["outcomes"][o] = res["outcomes"].get(o, 0) + 1
            res["violations"].extend(to_violations(case, out))
            if case.get("sample"):
                body = {k: (v if isinstance(v, str) else "<%d bytes gzip>" % len(v)) for k, v in out.files.items()}
                res["samples"].append({"case": {k: v for k, v in case.items() if k != "sample"},
                                       "files": {k: v[:1500] for k, v in body.items()}, "violations": [f[:3] for f in out.fails]})
    finally:
        shutil.rmtree(tmp, ignore_errors=True)
    return res


def replay(case):
    case = {k: v for k, v in case.items() if k != "sample"}
    tmp = tempfile.mkdtemp(prefix="c13_")
    try:
        if case.get("_prev"):
            run_one(dict(case["_prev"]), tmp)   # same paths, earlier contents
        out = run_one(case, tmp)
    finally:
        shutil.rmtree(tmp, ignore_errors=True)
    return to_violations(case, out)


def run(rep, tier, seed, parts=None):
    common.load_wavespectra()
    cases = cases_for(tier, seed)
    if parts:
        cases = [c for c in cases if c["fmt"] in parts]
    # simplest first, formats interleaved by size so that the first violation of a signature is the smallest case
    cases.sort(key=case_size)
    seen = set()
    for c in cases:  # one written-out sample per format
        if c["fmt"] not in seen and c.get("perm") is not None and len(c["perm"]) == 2 and not is_sorted(c["perm"]):
            seen.add(c["fmt"])
            c["sample"] = True
    B = 40
    batches = [cases[i:i + B] for i in range(0, len(cases), B)]
    global _ROOT
    _ROOT = tempfile.mkdtemp(prefix="c13_")
    try:
        for res in common.pmap(run_batch, batches):
            rep.merge(res)
    finally:
        shutil.rmtree(_ROOT, ignore_errors=True)
        _ROOT = None
    rep.rule = ("for each format an independent text encoder writes files from enumerated contents: records 1..3 in every order "
                "(all 9 permutations; plus the stationary SWAN file), nf in 2..4 (quick: 2..3 for SWAN/Spotter/Datawell; 9 for WW3 line "
                "wrapping; 2..70 / 2..200 x 4 (f0, df) pairs for the TRIAXYS header grid), the direction grids the format allows, "
                "per-record value patterns {ramp, permuted ramp, impulse, constant, zero} x 3 magnitudes (x scales 1e-6..1e3 for SWAN, "
                "1e-15..40 for WW3) assigned so that all records and all bins are distinguishable, every documented header variant "
                "(SWAN: LONLAT/LOCATIONS, AFREQ/RFREQ, NDIR/CDIR (0..360 and -180..180; NDIR listings unsorted, rotated, descending and ascending-as-written beyond [0,360): -175..95, 100..388), VaDens/EnDens, FACTOR/ZERO/NODATA blocks, "
                "TIME/stationary, 1-4 (thorough 6) locations as sites or grid in both listing orders (thorough: all 24 orders of a 2x2 "
                "grid), dirorder/as_site; read_swans with 1..3 cycles x 1..2 sites; NDBC: realtime/history/.gz/no-minute, 1 or 5 files, "
                "4 direction grids; TRIAXYS DIRSPEC/NONDIRSPEC, glob/list; Spotter CSV/JSON, dd None/5/30, bulk time stamp equal/offset; "
                "Datawell dd, lon/lat; Obscape dd 3..120; WW3 1-2 points), one file and several files (every name order vs time order). "
                "In the quick tier the minor SWAN keywords/options rotate with the case index, the thorough tier takes their product. "
                "Non-trivial = at least 2 frequencies and (2 directions or 2 records) with distinguishable values.")
    rep.extra["times"] = TIME_SETS[seed % len(TIME_SETS)]
    rep.extra["magnitudes"] = MAG_SETS[seed % len(MAG_SETS)]
    rep.assumptions = [
        "SWAN energy densities use rho*g = 1025*9.81 (SWAN default water density)",
        "TRIAXYS DIRSPEC values are per degree (the vendor DIRSPEC/NONDIRSPEC sample pair integrates consistently only so)",
        "NDBC historical r1/r2 files are in hundredths and the directional density is C11*(1/pi)(0.5+r1 cos(A-a1)+r2 cos(2(A-a2))) (NDBC measdes.shtml)",
        "WW3 transfer-file directions are going-to bearings in radians (ww3_outp writes MOD(2.5*PI-TH,TPI)); densities m2/Hz/rad, frequency index fastest",
        "Spotter/Datawell 2-D: only the direction integral, non-negativity and the location of the spreading peak (within one bin of the file's mean direction) are demanded, not a particular spreading shape",
        "every case of a format is written to the same paths as the previous case of that format in the same worker (stale per-path caches are visible); a failing case records its predecessor so that --replay reproduces the sequence",
        "XWaves is NOT covered: there is no sample file or format description outside the reader, so no independent encoder of the MAT layout can be written (a MAT-file with td stored as MATLAB doubles makes read_xwaves raise TypeError, with integer td it reads; which one real XWaves files use cannot be established here)",
        "TRIAXYS position (header line 1) is not returned by the reader and is not demanded; NDBC missing-value 999 records and pre-1999 two-digit-year headers are not generated",
    ]
