"""C13 - independent reference encoders (plain text writers) for the instrument / model file formats.

Every encoder is written from the *layout of the vendor sample files* and the public format descriptions
(SWAN user manual "spectrum files", WW3 ww3_outp transfer file, NDBC measdes.shtml, Sofar/Datawell/Obscape
portal downloads).  None of them imports or calls anything from wavespectra.  They take plain python numbers in
*physical* units (Hz, degrees nautical coming-from, m2/Hz or m2/Hz/deg, ISO timestamps) and do the documented
conversion into the file's native convention themselves.

All return ``{relative file name: str | bytes}``.
"""
from __future__ import annotations

import calendar
import gzip
import io
import json
import math

RHO_G = 1025.0 * 9.81  # SWAN default water density x gravity: J/m2 = rho g m2
PI = math.pi


# ---------------------------------------------------------------------------------------------
# small helpers
# ---------------------------------------------------------------------------------------------
def parse_iso(t):
    """'YYYY-MM-DDTHH:MM:SS' -> (Y, M, D, h, m, s) ints.  No datetime library on purpose."""
    d, c = t.split("T")
    Y, M, D = (int(x) for x in d.split("-"))
    h, m, s = (int(x) for x in c.split(":"))
    return Y, M, D, h, m, s


def epoch(t):
    """Seconds since 1970-01-01T00:00:00Z of an ISO string (UTC)."""
    return calendar.timegm(parse_iso(t) + (0, 0, 0))


def fort_e(v, width, digits):
    """Fortran Ew.d: 0.dddE+xx"""
    if v == 0:
        s = "0." + "0" * digits + "E+00"
    else:
        sign = "-" if v < 0 else ""
        a = abs(v)
        ex = int(math.floor(math.log10(a))) + 1
        man = a / 10.0 ** ex
        m = round(man * 10 ** digits)
        if m >= 10 ** digits:  # rounding carried over
            m //= 10
            ex += 1
        s = "%s0.%0*dE%+03d" % (sign, digits, m, ex)
    return s.rjust(width)


def strip0(s):
    """' 0.12' -> '  .12' (NDBC history files print no leading zero)"""
    t = s.strip()
    if t.startswith("0."):
        t = t[1:]
    elif t.startswith("-0."):
        t = "-" + t[2:]
    return t.rjust(len(s))


# ---------------------------------------------------------------------------------------------
# SWAN ASCII spectral file (2D)
# ---------------------------------------------------------------------------------------------
def swan_ascii(times, lons, lats, freqs, dirs_naut, blocks, *, loc_kw="LONLAT", freq_kw="AFREQ", dir_kw="NDIR",
               units="VaDens", excval_text="-0.9900E+02", int_max=9998, cdir_range="0_360", comments=None):
    """SWAN spectral file.

    times: list of ISO strings in file order, or None for a stationary file (no TIME block, one record).
    blocks[it][iloc]: ("FACTOR", spec[nf][nd] in m2/Hz/deg) | ("ZERO",) | ("NODATA",)
    dirs_naut: nautical coming-from degrees.  dir_kw CDIR writes Cartesian going-to degrees (270 - naut).
    units: VaDens (m2/Hz/degr) or EnDens (J/m2/Hz/degr = rho g x variance density).
    """
    o = io.StringIO()
    o.write("%-40s%s\n" % ("SWAN   1", "Swan standard spectral file, version"))
    for c in (comments if comments is not None else ["Data produced by SWAN version 41.31", "Project: verif ;  run number: 001"]):
        o.write("$   %s\n" % c)
    if times is not None:
        o.write("%-40s%s\n" % ("TIME", "time-dependent data"))
        o.write("%6d%34s%s\n" % (1, "", "time coding option"))
    if loc_kw == "LONLAT":
        o.write("%-40s%s\n" % ("LONLAT", "locations in spherical coordinates"))
    else:
        o.write("%-40s%s\n" % ("LOCATIONS", "locations in x-y-space"))
    o.write("%6d%34s%s\n" % (len(lons), "", "number of locations"))
    for x, y in zip(lons, lats):
        o.write("%12.6f%12.6f\n" % (x, y))
    if freq_kw == "AFREQ":
        o.write("%-40s%s\n" % ("AFREQ", "absolute frequencies in Hz"))
    else:
        o.write("%-40s%s\n" % ("RFREQ", "relative frequencies in Hz"))
    o.write("%6d%34s%s\n" % (len(freqs), "", "number of frequencies"))
    for f in freqs:
        o.write("%10.4f\n" % f)
    if dir_kw == "NDIR":
        o.write("%-40s%s\n" % ("NDIR", "spectral nautical directions in degr"))
        dvals = list(dirs_naut)
    else:
        o.write("%-40s%s\n" % ("CDIR", "spectral Cartesian directions in degr"))
        dvals = []
        for d in dirs_naut:
            c = (270.0 - d) % 360.0
            if cdir_range == "pm180" and c > 180.0:
                c -= 360.0
            dvals.append(c)
    o.write("%6d%34s%s\n" % (len(dvals), "", "number of directions"))
    for d in dvals:
        o.write("%10.4f\n" % d)
    o.write("QUANT\n")
    o.write("%6d%34s%s\n" % (1, "", "number of quantities in table"))
    if units == "VaDens":
        o.write("%-40s%s\n" % ("VaDens", "variance densities in m2/Hz/degr"))
        o.write("%-40s%s\n" % ("m2/Hz/degr", "unit"))
        mult = 1.0
    else:
        o.write("%-40s%s\n" % ("EnDens", "energy densities in J/m2/Hz/degr"))
        o.write("%-40s%s\n" % ("J/m2/Hz/degr", "unit"))
        mult = RHO_G
    o.write("%14s%26s%s\n" % (excval_text, "", "exception value"))
    nt = 1 if times is None else len(times)
    for it in range(nt):
        if times is not None:
            Y, M, D, h, m, s = parse_iso(times[it])
            o.write("%-40s%s\n" % ("%04d%02d%02d.%02d%02d%02d" % (Y, M, D, h, m, s), "date and time"))
        for b in blocks[it]:
            if b[0] == "NODATA":
                o.write("NODATA\n")
            elif b[0] == "ZERO":
                o.write("ZERO\n")
            else:
                spec = b[1]
                vmax = max(max(row) for row in spec) * mult
                fac = vmax / float(int_max)
                o.write("FACTOR\n")
                ftxt = "%18.8E" % fac
                o.write(ftxt + "\n")
                facp = float(ftxt)  # the factor as printed
                for row in spec:
                    o.write("".join(" %5d" % int(round(v * mult / facp)) for v in row) + "\n")
    return o.getvalue()


# ---------------------------------------------------------------------------------------------
# TRIAXYS
# ---------------------------------------------------------------------------------------------
def triaxys_dirspec(time, f0, df, nf, ddir, spec, fres=(0.06, 0.39)):
    """spec[nf][nd] m2/Hz/deg for directions 0, ddir, ... 360-ddir; the file repeats column 0 at 360."""
    Y, M, D, h, m, s = parse_iso(time)
    nd = int(round(360.0 / ddir)) + 1
    o = io.StringIO()
    o.write("TRIAXYS BUOY DATA REPORT - TAS01970 - TAB01401 - 4857.6668S16631.6837W\n")
    o.write("VERSION = WV (NDS)\n")
    o.write("TYPE\t= DIRECTIONAL SPECTRUM\n")
    o.write("DATE    = %04d-%02d-%02d %02d:%02d(UTC)\n" % (Y, M, D, h, m))
    o.write("NUMBER OF FREQUENCIES              = %7d\n" % nf)
    o.write("NUMBER OF RESOLVABLE FREQUENCIES   = %7d\n" % max(1, nf - 1))
    o.write("INITIAL FREQUENCY (Hz)             = %7.3f\n" % f0)
    o.write("FREQUENCY SPACING (Hz)             = %7.3f\n" % df)
    o.write("RESOLVABLE FREQUENCY RANGE (Hz)    = %7.3f  TO %6.3f\n" % fres)
    o.write("NUMBER OF DIRECTIONS               = %7d\n" % nd)
    o.write("DIRECTION SPACING (DEG)            = %7g\n" % ddir)
    o.write("COLUMNS = 0.00 TO 360.00 DEG\n")
    o.write("ROWS\t= %.2f TO %6.2f Hz\n" % (f0, f0 + df * (nf - 1)))
    for row in spec:
        full = list(row) + [row[0]]
        o.write("".join(" %.5E" % v for v in full) + "\n")
    return o.getvalue()


def triaxys_nondirspec(time, f0, df, nf, spec1d):
    Y, M, D, h, m, s = parse_iso(time)
    o = io.StringIO()
    o.write("TRIAXYS BUOY DATA REPORT - TAS01970 - TAB01401 - 4857.6668S16631.6837W\n")
    o.write("VERSION = WV\n")
    o.write("TYPE    = NON-DIRECTIONAL SPECTRUM\n")
    o.write("DATE    = %04d-%02d-%02d %02d:%02d(UTC)\n" % (Y, M, D, h, m))
    o.write("NUMBER OF FREQUENCIES              = %4d\n" % nf)
    o.write("INITIAL FREQUENCY (Hz)             = %7.3f\n" % f0)
    o.write("FREQUENCY SPACING (Hz)             = %7.3f\n" % df)
    o.write("COLUMN 1 = FREQUENCY (Hz)\n")
    o.write("COLUMN 2 = SPECTRAL DENSITY (M^2/Hz)\n")
    for i, v in enumerate(spec1d):
        o.write("%.3f  %.7E\n" % (f0 + i * df, v))
    return o.getvalue()


# ---------------------------------------------------------------------------------------------
# NDBC ASCII
# ---------------------------------------------------------------------------------------------
def _ndbc_time_cols(t, minutes=True):
    Y, M, D, h, m, s = parse_iso(t)
    return ("%04d %02d %02d %02d %02d" % (Y, M, D, h, m)) if minutes else ("%04d %02d %02d %02d" % (Y, M, D, h))


def ndbc_realtime(times, freqs, values, kind, sep_freq=None):
    """kind in spec|alpha1|alpha2|r1|r2; values[nt][nf] in physical units (m2/Hz, deg, ratio 0..1)."""
    name = {"spec": "spec", "alpha1": "alpha1", "alpha2": "alpha2", "r1": "r1", "r2": "r2"}[kind]
    fmt = {"spec": "%.3f", "alpha1": "%.1f", "alpha2": "%.1f", "r1": "%.2f", "r2": "%.2f"}[kind]
    o = io.StringIO()
    if kind == "spec":
        o.write("#YY  MM DD hh mm Sep_Freq  < spec_1 (freq_1) spec_2 (freq_2) spec_3 (freq_3) ... >\n")
    else:
        o.write("#YY  MM DD hh mm %s_1 (freq_1) %s_2 (freq_2) %s_3 (freq_3) ... >\n" % (name, name, name))
    for it, t in enumerate(times):
        parts = [_ndbc_time_cols(t)]
        if kind == "spec":
            parts.append("%.3f" % (sep_freq[it] if sep_freq is not None else 9.999))
        for f, v in zip(freqs, values[it]):
            parts.append(fmt % v)
            parts.append("(%.3f)" % f)
        o.write(" ".join(parts) + " \n")
    return o.getvalue()


def ndbc_history(times, freqs, values, kind, minutes=True, gz=False):
    """Monthly/yearly historical file.  alpha as whole degrees, r1/r2 in hundredths (x100) as NDBC documents."""
    o = io.StringIO()
    tail = "" if minutes else "  "
    if minutes:
        o.write("#YY  MM DD hh mm" + "".join(strip0("%7.4f" % f) for f in freqs) + tail + "\n")
    else:
        o.write("YYYY MM DD hh" + "".join(strip0("%7.3f" % f) for f in freqs) + tail + "\n")
    for it, t in enumerate(times):
        line = _ndbc_time_cols(t, minutes)
        for v in values[it]:
            if kind == "spec":
                line += ("%7.2f" % v) if minutes else strip0("%7.2f" % v)
            elif kind in ("alpha1", "alpha2"):
                line += "%7d" % int(round(v))
            else:
                line += "%7d" % int(round(v * 100.0))
        o.write(line + tail + "\n")
    txt = o.getvalue()
    if gz:
        buf = io.BytesIO()
        with gzip.GzipFile(fileobj=buf, mode="wb", mtime=0) as g:
            g.write(txt.encode("ascii"))
        return buf.getvalue()
    return txt


# ---------------------------------------------------------------------------------------------
# Spotter
# ---------------------------------------------------------------------------------------------
SPOT_BULK = ["Battery Voltage (V) ", "Power (W) ", "Humidity (%rel) ", "Epoch Time ", "Significant Wave Height (m) ",
             "Peak Period (s) ", "Mean Period (s) ", "Peak Direction (deg) ", "Peak Directional Spread (deg) ",
             "Mean Direction (deg) ", "Mean Directional Spread (deg) ", "Latitude (deg) ", "Longitude (deg) "]
SPOT_TAIL = ["Wind Speed (m/s) ", "Wind Direction (deg) ", "Surface Temperature (°C) ", "Partition0 Start Frequency (hz) ",
             "Partition0 End Frequency (hz) ", "Partition0 Significant Wave Height (m) ", "Partition0 Mean Period (s) ",
             "Partition0 Mean Direction (deg) ", "Partition0 Mean Directional Spread (deg) ", "Partition1 Start Frequency (hz) ",
             "Partition1 End Frequency (hz) ", "Partition1 Significant Wave Height (m) ", "Partition1 Mean Period (s) ",
             "Partition1 Mean Direction (deg) ", "Partition1 Mean Directional Spread (deg)"]


def spotter_csv(times, freqs, lats, lons, vardens, dm, dspr):
    """One row per record; vardens/dm/dspr[nt][nf]; a1..b2 are the first/second circular moments of (dm, dspr)."""
    nf = len(freqs)
    cols = list(SPOT_BULK)
    for grp in ("f", "df", "a1", "b1", "a2", "b2", "varianceDensity", "direction", "directionalSpread"):
        cols += ["%s_%d " % (grp, i) for i in range(nf)]
    cols += SPOT_TAIL
    o = io.StringIO()
    o.write(",".join(cols) + "\n")
    for it, t in enumerate(times):
        row = ["%19.2f " % 4.07, "%-10.2f" % -0.33, "%15.1f " % 56.8, "%d " % epoch(t), "%27.3f " % 1.753, "%15.3f " % 14.628,
               "%15.3f " % 8.113, "%20.3f " % 291.978, "%29.3f " % 19.802, "%20.3f " % 290.361, "%29.3f " % 28.026,
               "%14.5f " % lats[it], "%-16.5f" % lons[it]]
        row += ["%.5g " % f for f in freqs]
        for i in range(nf):
            lo = freqs[i] - freqs[i - 1] if i else freqs[1] - freqs[0]
            row.append("%.5g " % lo)
        a1, b1, a2, b2 = [], [], [], []
        for i in range(nf):
            sig = dspr[it][i] * PI / 180.0
            r = max(0.0, 1.0 - sig * sig / 2.0)
            th = dm[it][i] * PI / 180.0
            # Sofar: direction = 270 - atan2(b1, a1); keep the moments consistent with that
            ang = (270.0 - dm[it][i]) * PI / 180.0
            a1.append(r * math.cos(ang))
            b1.append(r * math.sin(ang))
            a2.append(r ** 4 * math.cos(2 * ang))
            b2.append(r ** 4 * math.sin(2 * ang))
        for arr in (a1, b1, a2, b2):
            row += ["%.6f " % v for v in arr]
        row += ["%r " % float(v) for v in vardens[it]]
        row += ["%r " % float(v) for v in dm[it]]
        row += [" %r " % float(v) for v in dspr[it]]
        row += ["%16.2f " % 4.8, "%20.2f " % 285.71, "%24.2f " % 15.38] + ["-" + " " * 20] * 11 + ["-"]
        o.write(",".join(row) + "\n")
    return o.getvalue()


def _iso_z(t):
    Y, M, D, h, m, s = parse_iso(t)
    return "%04d-%02d-%02dT%02d:%02d:%02d.000Z" % (Y, M, D, h, m, s)


def spotter_json(times, freqs, lats, lons, vardens, dm, dspr, wave_times=None):
    """Sofar API download: data.waves[] (bulk) and data.frequencyData[] (spectra), each with its own timestamp."""
    wave_times = wave_times or times
    waves, fd = [], []
    for it, t in enumerate(times):
        waves.append({"significantWaveHeight": 1.62, "peakPeriod": 10.24, "meanPeriod": 8.73, "peakDirection": 299.98,
                      "peakDirectionalSpread": 63.32, "meanDirection": 349.21, "meanDirectionalSpread": 69.95,
                      "timestamp": _iso_z(wave_times[it]), "latitude": lats[it], "longitude": lons[it]})
        nf = len(freqs)
        a1, b1, a2, b2 = [], [], [], []
        for i in range(nf):
            sig = dspr[it][i] * PI / 180.0
            r = max(0.0, 1.0 - sig * sig / 2.0)
            ang = (270.0 - dm[it][i]) * PI / 180.0
            a1.append(round(r * math.cos(ang), 6))
            b1.append(round(r * math.sin(ang), 6))
            a2.append(round(r ** 4 * math.cos(2 * ang), 6))
            b2.append(round(r ** 4 * math.sin(2 * ang), 6))
        fd.append({"frequency": [float(f) for f in freqs],
                   "df": [float(freqs[i] - freqs[i - 1] if i else freqs[1] - freqs[0]) for i in range(nf)],
                   "a1": a1, "b1": b1, "a2": a2, "b2": b2,
                   "varianceDensity": [float(v) for v in vardens[it]],
                   "direction": [float(v) for v in dm[it]],
                   "directionalSpread": [float(v) for v in dspr[it]],
                   "timestamp": _iso_z(t), "latitude": lats[it], "longitude": lons[it]})
    return json.dumps({"data": {"spotterId": "SPOT-0070", "limit": 100, "waves": waves, "frequencyData": fd}})


# ---------------------------------------------------------------------------------------------
# Datawell SPT
# ---------------------------------------------------------------------------------------------
def datawell_name(loc, t):
    Y, M, D, h, m, s = parse_iso(t)
    return "%s}%04d-%02d-%02dT%02dh%02dZ.spt" % (loc, Y, M, D, h, m)


def datawell_spt(freqs, spec1d, dm, dspr, hs_cm=85.0):
    """12 system lines then f, S/Smax, direction, spread, skewness, kurtosis.  spec1d in m2/Hz."""
    smax = max(spec1d)
    stxt = ("%.4E" % smax).replace("E-0", "E-").replace("E+0", "E")
    smaxp = float(stxt)
    o = io.StringIO()
    for ln in ("10", "%.1f" % hs_cm, "4.545", stxt, "25.05", "19.65", "7", "-0.17625", "0.37500", "0.26250", "213.8", "68.203"):
        o.write(ln + "\n")
    for f, v, a, b in zip(freqs, spec1d, dm, dspr):
        rel = ("%.4E" % (v / smaxp if smaxp else 0.0)).replace("E-0", "E-").replace("E+0", "E")
        o.write("%.3f,%s,%.1f,%.1f,%.2f,%.2f\n" % (f, rel, a, b, 0.11, 2.17))
    return o.getvalue()


# ---------------------------------------------------------------------------------------------
# Obscape
# ---------------------------------------------------------------------------------------------
def obscape_name(t, tag="Obscape2d"):
    Y, M, D, h, m, s = parse_iso(t)
    return "%04d%02d%02d_%02d%02d%02d_%s.csv" % (Y, M, D, h, m, s, tag)


def obscape_csv(t, freqs, dd, spec_deg, lat=12.123, lon=1.234):
    """spec_deg[nf][nd] m2/Hz/deg on directions 0, dd, ...; the file stores m2/Hz/rad."""
    Y, M, D, h, m, s = parse_iso(t)
    nd = int(round(360.0 / dd))
    dtxt = lambda v: ("%g" % v)
    o = io.StringIO()
    o.write("# Downloaded at 2024-04-13 19:04:00 [UTC]\n")
    o.write("# Station name = Example file\n# Device type = Wavebuoy\n# Device serial = 123456\n")
    o.write("# Latitude [deg] = %s\n# Longitude [deg] = %s\n" % (dtxt(lat), dtxt(lon)))
    o.write("# Timestamp = %d\n" % epoch(t))
    o.write("# Timestring = %04d-%02d-%02d %02d:%02d:%02d\n" % (Y, M, D, h, m, s))
    o.write("# Timezone = UTC\n# Magnetic declination (corrected) [deg] = 3.14\n# Directions = True North\n# \n")
    o.write("# Columns [deg] = %s,%s,%s,... %s\n" % (dtxt(0), dtxt(dd), dtxt(2 * dd), dtxt((nd - 1) * dd)))
    o.write("# Rows [Hz] = " + ",".join("%.6f" % f for f in freqs) + "\n")
    o.write("# Variance-density [m2/Hz/rad]\n")
    for row in spec_deg:
        o.write(",".join("%.4f" % (v * 180.0 / PI) for v in row) + "\n")
    return o.getvalue()


# ---------------------------------------------------------------------------------------------
# WAVEWATCH III point output, spectral transfer file (ww3_outp ITYPE 1 / OTYPE 3)
# ---------------------------------------------------------------------------------------------
def ww3_station(times, freqs, dirs_naut, recs, names, header_tail="'spectral resolution for points'"):
    """recs[it][ip] = dict(lat, lon, depth, wspd, wdir, cspd, cdir, spec[nf][nd] m2/Hz/deg, nautical coming-from dirs).

    File: frequencies 8 per line, directions in radians *towards which* waves travel (clockwise from north) 7 per
    line, then for every time: 'yyyymmdd hhmmss', and for every point the point line and E(f,theta) in m2/Hz/rad,
    frequency index running fastest, 7 per line.
    """
    nf, nd = len(freqs), len(dirs_naut)
    o = io.StringIO()
    o.write("'WAVEWATCH III SPECTRA' %6d%6d%6d %s\n" % (nf, nd, len(names), header_tail))
    for i in range(0, nf, 8):
        o.write("".join(fort_e(f, 10, 3) for f in freqs[i:i + 8]) + "\n")
    drad = [(((d + 180.0) % 360.0) * PI / 180.0) for d in dirs_naut]
    for i in range(0, nd, 7):
        o.write("".join(fort_e(d, 11, 3) for d in drad[i:i + 7]) + "\n")
    for it, t in enumerate(times):
        Y, M, D, h, m, s = parse_iso(t)
        o.write("%04d%02d%02d %02d%02d%02d\n" % (Y, M, D, h, m, s))
        for ip, name in enumerate(names):
            r = recs[it][ip]
            o.write("'%-10s'%7.2f%7.2f%10.1f%7.2f%6.1f%7.2f%6.1f\n" % (
                name, r["lat"], r["lon"], r["depth"], r["wspd"], r["wdir"], r["cspd"], r["cdir"]))
            flat = []
            for j in range(nd):
                for i in range(nf):
                    flat.append(r["spec"][i][j] * 180.0 / PI)
            for k in range(0, len(flat), 7):
                o.write("".join(fort_e(v, 11, 3) for v in flat[k:k + 7]) + "\n")
    return o.getvalue()
