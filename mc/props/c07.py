"""C07 - dask-backed data gives the same results under any chunking and scheduler.

A: every chunking (compositions of every dimension) x operations, synchronous scheduler, vs the in-memory result.
B: every execution order of the real dask graphs (controlled scheduler, E3), incl. mixed grid shapes in one graph.
C: every interleaving of two threads running library calls up to a preemption bound (settrace baton scheduler, E4).
D: free-running threaded scheduler with 1..16 workers (supplementary; cannot decide, only notices a GIL release).
"""
from __future__ import annotations

import itertools
import os
import numpy as np

from mc import common, tasksched, threadsched
from mc.common import Violation
from mc.props import c05

PROP = "C07"
LEVEL = "model_checking"

FREQ = np.array([0.05, 0.07, 0.1, 0.125, 0.18])
DIRS = np.arange(4) * 90.0 + 10.0
SIZES = {"time": 3, "site": 2, "freq": 5, "dir": 4}
F32_DERIVED = {"gamma": 2e-6, "alpha": 2e-6, "fp": 2e-6, "fit_jonswap": 1e-4, "fit_gaussian": 1e-4}


def dataset():
    import xarray as xr

    nt, ns, nf, nd = SIZES["time"], SIZES["site"], SIZES["freq"], SIZES["dir"]
    i, j = np.meshgrid(np.arange(nf), np.arange(nd), indexing="ij")
    specs = []
    for t in range(nt):
        for s in range(ns):
            k = t * ns + s
            v = (20.0 + 3 * k) / (1 + (i - 1 - k % 2) ** 2 + np.minimum((j - k) % nd, (k - j) % nd) ** 2) + (6.0 + k) / (1 + (i - 3) ** 2 + np.minimum((j - k - 2) % nd, (k + 2 - j) % nd) ** 2)
            specs.append(np.round(v * 32) / 32 + (i * nd + j) / 2048.0)
    # two spectra holding two single-bin swells (different frequency rows, directions 90 degrees apart) whose array-level Hs differ
    # only in the 10th digit - a decision float32 cannot resolve - once with the larger one first and once second in label order
    eps = 2.0 ** -33
    w1, w3 = FREQ[2] - FREQ[0], FREQ[4] - FREQ[2]
    for slot, (ea, eb) in ((2, (0.0, eps)), (5, (eps, 0.0))):
        v = np.zeros((nf, nd))   # zero background: the basins hold exactly one non-zero bin each
        v[1, 0] = 8.0 * (1 + ea)
        v[3, 1] = 8.0 * (w1 / w3) * (1 + eb)
        specs[slot] = v
    data = np.array(specs).reshape(nt, ns, nf, nd)
    c = {"time": (np.datetime64("2022-01-01") + np.arange(nt) * np.timedelta64(3, "h")).astype("datetime64[ns]"), "site": np.arange(ns) + 1,
         "freq": FREQ.copy(), "dir": DIRS.copy()}
    da = xr.DataArray(data, dims=["time", "site", "freq", "dir"], coords=c, name="efth")
    pc = {"time": c["time"], "site": c["site"]}
    aux = dict(wspd=xr.DataArray(np.array([[4.0, 9.0], [14.0, 22.0], [7.0, 11.0]]), dims=["time", "site"], coords=pc),
               wdir=xr.DataArray(np.array([[20.0, 100.0], [200.0, 310.0], [45.0, 260.0]]), dims=["time", "site"], coords=pc),
               dpt=xr.DataArray(np.array([[8.0, 30.0], [100.0, 15.0], [50.0, 12.0]]), dims=["time", "site"], coords=pc))
    return da, aux


def operations(tier):
    ops = {}
    for s in ["hs", "tp", "fp", "tm01", "tm02", "dm", "dp", "dpm", "dspr", "dpspr", "swe", "gw", "alpha", "gamma", "goda", "crsd", "uss", "mss", "oned", "hmax"]:
        ops[s] = (lambda da, aux, s=s: getattr(da.spec, s)())
    ops["tp(smooth=False)"] = lambda da, aux: da.spec.tp(smooth=False)
    ops["stats"] = lambda da, aux: da.spec.stats(["hs", "tp", "dpm", "dspr"])
    ops["stats(limits)"] = lambda da, aux: da.spec.stats(["hs", "tm01", "dm"], fmin=0.06, fmax=0.15, dmin=50.0, dmax=300.0)
    ops["smooth(3,3)"] = lambda da, aux: da.spec.smooth(3, 3)
    ops["interp"] = lambda da, aux: da.spec.interp(freq=np.array([0.04, 0.08, 0.16]), dir=np.array([0.0, 45.0, 200.0]))
    ops["rotate(33)"] = lambda da, aux: da.spec.rotate(33.0)
    ops["split"] = lambda da, aux: da.spec.split(fmin=0.06, fmax=0.15)
    ops["scale_by_hs(tp,dpm windows)"] = lambda da, aux: da.spec.scale_by_hs("2*hs", tp_min=2.0, tp_max=14.0, dpm_min=0.0, dpm_max=300.0)
    ops["scale_by_hs(hs window)"] = lambda da, aux: da.spec.scale_by_hs("0.5*hs+1", hs_min=1.0)
    ops["ptm1"] = lambda da, aux: da.spec.partition.ptm1(aux["wspd"], aux["wdir"], aux["dpt"], swells=2)
    ops["ptm2"] = lambda da, aux: da.spec.partition.ptm2(aux["wspd"], aux["wdir"], aux["dpt"], swells=2)
    ops["ptm1(wind dims transposed)"] = lambda da, aux: da.spec.partition.ptm1(aux["wspd"].transpose(), aux["wdir"].transpose(), aux["dpt"].transpose(), swells=2)
    ops["ptm2(wind dims transposed)"] = lambda da, aux: da.spec.partition.ptm2(aux["wspd"].transpose(), aux["wdir"].transpose(), aux["dpt"].transpose(), swells=2)
    ops["ptm3"] = lambda da, aux: da.spec.partition.ptm3(parts=3)
    ops["ptm3(smooth)"] = lambda da, aux: da.spec.partition.ptm3(parts=2, smooth=True)
    ops["ptm4"] = lambda da, aux: da.spec.partition.ptm4(aux["wspd"], aux["wdir"], aux["dpt"])
    ops["ptm5"] = lambda da, aux: da.spec.partition.ptm5(fcut=0.11)
    ops["bbox"] = lambda da, aux: da.spec.partition.bbox([dict(fmin=0.06, fmax=0.11, dmin=50.0, dmax=200.0)])
    ops["ptm1_track"] = lambda da, aux: da.spec.partition.ptm1_track(aux["wspd"], aux["wdir"], aux["dpt"], swells=2)
    ops["hp01"] = lambda da, aux: da.spec.partition.hp01(aux["wspd"], aux["wdir"], aux["dpt"], swells=2)
    ops["hp01(no wind)"] = lambda da, aux: da.spec.partition.hp01(swells=2)
    ops["fit_jonswap"] = lambda da, aux: da.spec.fit_jonswap(spectra=False)
    if tier == "thorough":
        ops["fit_gaussian"] = lambda da, aux: da.spec.fit_gaussian(spectra=False)
    return ops


def compositions(n):
    out = []
    for k in range(n):
        for cuts in itertools.combinations(range(1, n), k):
            b = (0,) + cuts + (n,)
            out.append(tuple(b[i + 1] - b[i] for i in range(len(b) - 1)))
    return out


def chunkings(tier):
    dims = list(SIZES)
    comps = {d: compositions(SIZES[d]) for d in dims}
    whole = {d: (SIZES[d],) for d in dims}
    out = []
    if tier == "thorough":
        for combo in itertools.product(*[comps[d] for d in dims]):
            out.append(dict(zip(dims, combo)))
        return out
    seen = set()

    def add(ch):
        k = tuple(sorted(ch.items()))
        if k not in seen:
            seen.add(k)
            out.append(ch)

    add(dict(whole))
    for d in dims:
        for c in comps[d]:
            add(dict(whole, **{d: c}))
    add({d: (1,) * SIZES[d] for d in dims})
    two = {d: [c for c in comps[d] if len(c) == 2] for d in dims}
    for d1, d2 in itertools.combinations(dims, 2):
        for c1 in two[d1]:
            for c2 in two[d2]:
                add(dict(whole, **{d1: c1, d2: c2}))
    return out


def chunk_pred(ch):
    p = [d for d in ch if len(ch[d]) > 1]
    return "chunked:" + ("+".join(p) if p else "none")


def run_chunk_item(it):
    common.load_wavespectra()
    da, aux = dataset()
    ops = operations(it["tier"])
    base = {n: c05.run_op(fn, da, aux) for n, fn in ops.items()}
    res = {"evals": 0, "n_nontrivial": 0, "violations": [], "samples": [], "outcomes": {}, "parts": {}, "states": 0, "transitions": 0, "traces": 0}
    seen = set()
    if it.get("dask_config"):
        # the reference above was computed under the default configuration; everything below runs under the user's dask settings
        import dask
        with dask.config.set(it["dask_config"]):
            return _chunk_loop(it, da, aux, ops, base, res, seen, ",dask-config:" + ",".join("%s=%s" % kv for kv in sorted(it["dask_config"].items())))
    return _chunk_loop(it, da, aux, ops, base, res, seen, "")


def _chunk_loop(it, da, aux, ops, base, res, seen, cfgpred):
    for ch in it["chunkings"]:
        if ch is None:  # numpy-backed input under this configuration
            dac, auxc, ch = da, aux, {k: (SIZES[k],) for k in SIZES}
        else:
            dac = da.chunk(ch)
            auxc = {k: v.chunk({d: ch[d] for d in v.dims}) for k, v in aux.items()} if it.get("chunk_aux", True) else aux
        for n, fn in ops.items():
            r = c05.run_op(fn, dac, auxc)
            res["evals"] += 1
            msg = c05.compare(r, base[n], F32_DERIVED.get(n, 1e-10))
            if msg and cfgpred:
                sig = "%s|equals-in-memory-result|%s%s" % (n, chunk_pred(ch), cfgpred)
                if sig not in seen:
                    seen.add(sig)
                    res["violations"].append(Violation(PROP, sig, "%s on chunks %s under dask config %s: %s" % (n, ch, it["dask_config"], msg),
                                                       dict(kind="chunk", chunks={k: list(v) for k, v in ch.items()}, op=n, tier=it["tier"], dask_config=it["dask_config"])))
            elif msg:
                # minimise: find a single dimension whose chunking alone fails
                pred = chunk_pred(ch)
                mch = ch
                for d in ch:
                    if len(ch[d]) > 1:
                        one = {k: (SIZES[k],) for k in SIZES}
                        one[d] = ch[d]
                        r1 = c05.run_op(fn, da.chunk(one), {k: v.chunk({x: one[x] for x in v.dims}) for k, v in aux.items()})
                        if c05.compare(r1, base[n], F32_DERIVED.get(n, 1e-10)):
                            pred, mch = "chunked:" + d, one
                            break
                sig = "%s|equals-in-memory-result|%s" % (n, pred)
                if sig not in seen:
                    seen.add(sig)
                    res["violations"].append(Violation(PROP, sig, "%s on chunks %s: %s" % (n, ch, msg), dict(kind="chunk", chunks={k: list(v) for k, v in mch.items()}, op=n, tier=it["tier"])))
        if any(len(v) > 1 for v in ch.values()):
            res["n_nontrivial"] += 1
    res["parts"]["A:chunkings x ops" + (" (small dask array.chunk-size)" if cfgpred else "")] = res["evals"]
    mid = it["chunkings"][len(it["chunkings"]) // 2]
    res["samples"].append(dict(part="A", chunks={k: list(v) for k, v in (mid or {}).items()}, ops=len(ops)))
    return res


# ---- B: task schedules -----------------------------------------------------------------------------------------
def other_dataset():
    import xarray as xr
    f = 0.04 * 1.3 ** np.arange(3)
    d = np.arange(6) * 60.0
    v = np.abs(np.sin(np.arange(4 * 3 * 6, dtype=float) * 1.7)).reshape(4, 3, 6) * 10 + 0.5
    return xr.DataArray(np.round(v * 16) / 16, dims=["time", "freq", "dir"], coords={"time": np.arange(4), "freq": f, "dir": d}, name="efth")


def workloads():
    """name -> (build() -> list of dask collections, reference() -> list of in-memory results)"""
    da, aux = dataset()
    ob = other_dataset()
    W = {}

    def auxc(ch):
        return {k: v.chunk({d: c for d, c in ch.items() if d in v.dims}) for k, v in aux.items()}

    W["ptm3/time-chunks"] = (lambda: [da.chunk({"time": 1}).spec.partition.ptm3(parts=2)], lambda: [da.spec.partition.ptm3(parts=2)])
    W["tp/site-chunks"] = (lambda: [da.isel(time=0).chunk({"site": 1}).spec.tp()], lambda: [da.isel(time=0).spec.tp()])
    W["ptm1/site-chunks"] = (lambda: [da.chunk({"site": 1}).spec.partition.ptm1(*[auxc({"site": 1})[k] for k in ("wspd", "wdir", "dpt")], swells=2)],
                             lambda: [da.spec.partition.ptm1(aux["wspd"], aux["wdir"], aux["dpt"], swells=2)])
    W["ptm2/time-chunks"] = (lambda: [da.isel(site=0).chunk({"time": 1}).spec.partition.ptm2(*[auxc({"time": 1})[k].isel(site=0) for k in ("wspd", "wdir", "dpt")], swells=2)],
                             lambda: [da.isel(site=0).spec.partition.ptm2(*[aux[k].isel(site=0) for k in ("wspd", "wdir", "dpt")], swells=2)])
    W["mixed-shapes ptm3(5x4) + ptm3(3x6)"] = (lambda: [da.isel(site=0).chunk({"time": 1}).spec.partition.ptm3(parts=2), ob.chunk({"time": 2}).spec.partition.ptm3(parts=3)],
                                               lambda: [da.isel(site=0).spec.partition.ptm3(parts=2), ob.spec.partition.ptm3(parts=3)])
    W["ptm3(smooth)/time-chunks"] = (lambda: [ob.chunk({"time": 2}).spec.partition.ptm3(parts=2, smooth=True)], lambda: [ob.spec.partition.ptm3(parts=2, smooth=True)])
    W["hs+stats/freq-chunks"] = (lambda: [da.chunk({"freq": 2, "time": 2}).spec.hs(), da.chunk({"dir": 2}).spec.dspr()], lambda: [da.spec.hs(), da.spec.dspr()])
    return W


def run_sched_item(it):
    common.load_wavespectra()
    name = it["name"]
    build, reference = workloads()[name]
    ref = [np.asarray(r.values) for r in reference()]
    res = {"evals": 0, "n_nontrivial": 0, "violations": [], "samples": [], "outcomes": {}, "parts": {}, "states": 0, "transitions": 0, "traces": 0, "caps": []}
    outcomes = set()
    bad = []

    def on(choices, results, record):
        res["evals"] += 1
        res["traces"] += 1
        res["transitions"] += len(record)
        ok = True
        for r, e in zip(results, ref):
            v = np.asarray(r.values)
            if v.shape != e.shape or not np.allclose(v, e, rtol=1e-10, atol=0, equal_nan=True):
                ok = False
        outcomes.add(ok)
        if not ok and len(bad) < 1:
            bad.append(list(choices))

    completed = None
    st = None
    try:
        bounds = [it["bound"]] if it["bound"] is None else list(range(1, it["bound"] + 1))
        for b in bounds:
            st_b = tasksched.explore(build, on, bound=b, max_runs=it["max_runs"], max_seconds=it.get("max_seconds"))
            if st is None:
                st = st_b
            else:
                st = dict(runs=st["runs"] + st_b["runs"], points_max=max(st["points_max"], st_b["points_max"]), capped=st_b["capped"])
            if st_b["capped"]:
                break
            completed = "all-orders" if b is None else b
    except Exception as e:  # noqa
        res["violations"].append(Violation(PROP, "%s|raises-%s|task-schedule" % (name.split("/")[0], type(e).__name__), "workload %s raised under a controlled task order: %s" % (name, str(e)[:300]),
                                           dict(kind="sched", name=name, choices=[])))
        return res
    if completed is None:
        res["caps"].append("task-schedule exploration of '%s' capped at %d runs before completing deviation bound 1" % (name, it["max_runs"]))
    res["outcomes"]["B:%s completed deviation bound=%s" % (name, completed)] = 1
    res["states"] = st["runs"]
    res["n_nontrivial"] = st["runs"] if st["points_max"] > 1 else 0
    res["outcomes"]["B:%s distinct outcomes=%d" % (name, len(outcomes))] = st["runs"]
    if bad:
        # determinism check: replay the failing schedule twice
        r1, _ = tasksched.run_once(build, bad[0])
        r2, _ = tasksched.run_once(build, bad[0])
        same = all(np.array_equal(np.asarray(a.values), np.asarray(b.values), equal_nan=True) for a, b in zip(r1, r2))
        res["violations"].append(Violation(PROP, "%s|equals-sequential-result|task-order%s" % (name.split("/")[0], "" if same else ",nondeterministic-replay"),
                                           "workload %s under task order %s differs from the in-memory result" % (name, bad[0]), dict(kind="sched", name=name, choices=bad[0])))
    res["parts"]["B:task orders"] = st["runs"]
    res["samples"].append(dict(part="B", workload=name, runs=st["runs"], scheduling_points=st["points_max"], bound=it["bound"]))
    return res


# ---- C: thread interleavings -----------------------------------------------------------------------------------
def thread_workloads():
    ws = common.load_wavespectra()
    import xarray as xr
    from wavespectra.partition.partition import np_ptm3, np_ptm1

    zA = (np.arange(12.0).reshape(3, 4) * 7 % 11) + 1
    zA2 = (np.arange(12.0).reshape(3, 4) * 5 % 13) + 2
    fA = 0.05 * 1.2 ** np.arange(3)
    dA = np.arange(4) * 90.0
    zB = (np.arange(20.0).reshape(4, 5) * 3 % 13) + 1
    fB = 0.05 * 1.2 ** np.arange(4)
    dB = np.arange(5) * 72.0

    def mkda(z, f, d):
        return xr.DataArray(z.copy(), dims=["freq", "dir"], coords={"freq": f.copy(), "dir": d.copy()}, name="efth")

    W = {}
    W["np_ptm3(3x4) || np_ptm1(4x5)"] = lambda: [lambda: np_ptm3(zA, zA, fA, dA, parts=3, ihmax=50), lambda: np_ptm1(zB, zB, fB, dB, 10.0, 20.0, 30.0, swells=2, ihmax=50)]
    W["np_ptm3(3x4) || np_ptm3(3x4)"] = lambda: [lambda: np_ptm3(zA, zA, fA, dA, parts=3, ihmax=50), lambda: np_ptm3(zA2, zA2, fA, dA, parts=2, ihmax=5)]

    zB2 = (np.arange(20.0).reshape(4, 5) * 7 % 17) + 1
    W["np_ptm1(4x5) || np_ptm2(4x5)"] = lambda: [lambda: np_ptm1(zB, zB, fB, dB, 10.0, 20.0, 30.0, swells=2, ihmax=50),
                                                  lambda: __import__("wavespectra.partition.partition", fromlist=["np_ptm2"]).np_ptm2(zB2, zB2, fB, dB, 15.0, 200.0, 30.0, swells=2, ihmax=50)]

    np_ptm2 = __import__("wavespectra.partition.partition", fromlist=["np_ptm2"]).np_ptm2
    W["np_ptm2(4x5) || np_ptm2(4x5)"] = lambda: [lambda: np_ptm2(zB, zB, fB, dB, 10.0, 20.0, 30.0, swells=2, ihmax=50), lambda: np_ptm2(zB2, zB2, fB, dB, 15.0, 200.0, 30.0, swells=2, ihmax=50)]
    W["np_ptm1(4x5) || np_ptm1(4x5)"] = lambda: [lambda: np_ptm1(zB, zB, fB, dB, 10.0, 20.0, 30.0, swells=2, ihmax=50), lambda: np_ptm1(zB2, zB2, fB, dB, 15.0, 200.0, 30.0, swells=2, ihmax=50)]

    def w3():
        a, b = mkda(zB, fB, dB), mkda(zA, fA, dA)
        return [lambda: a.spec.tp().values, lambda: b.spec.crsd().values]
    W["tp() || crsd()"] = w3

    def w4():
        a = mkda(zB, fB, dB)
        return [lambda: a.spec.hs().values, lambda: a.spec.smooth(3, 3).values]
    W["same object: hs() || smooth()"] = w4

    def w5():
        ds = mkda(zB, fB, dB).to_dataset()
        return [lambda: ds.spec.hs().values, lambda: ds.spec.partition.ptm3(parts=2).values]
    W["same Dataset: spec.hs() || spec.partition.ptm3()"] = w5
    return W, os.path.dirname(ws.__file__)


def run_thread_item(it):
    W, pk = thread_workloads()
    name = it["name"]
    mk = W[name]
    seq = [b() for b in mk()]
    res = {"evals": 0, "n_nontrivial": 0, "violations": [], "samples": [], "outcomes": {}, "parts": {}, "states": 0, "transitions": 0, "traces": 0, "caps": []}
    outcomes = set()
    bad = []

    def on(choices, results, errors, record):
        res["evals"] += 1
        res["traces"] += 1
        res["transitions"] += len(record)
        ok = True
        why = ""
        for i, (r, e, s) in enumerate(zip(results, errors, seq)):
            if e is not None:
                ok, why = False, "thread %d raised %r" % (i, e)
            elif not np.array_equal(np.asarray(r), np.asarray(s), equal_nan=True):
                ok, why = False, "thread %d result differs from its sequential result" % i
        outcomes.add(ok)
        if not ok and not bad:
            bad.append((list(choices), why))

    try:
        st = threadsched.explore(mk, on, it["bound"], pk, max_runs=it["max_runs"], max_seconds=it.get("max_seconds"))
    except Exception as e:  # noqa
        res["violations"].append(Violation(PROP, "%s|%s|thread-interleaving" % (name, "deadlock-or-hang" if "deadlock" in str(e) else "harness-error"), str(e)[:300], dict(kind="thread", name=name, choices=[])))
        return res
    if st["capped"]:
        res["caps"].append("thread exploration of '%s' capped at %d schedules (preemption bound %d)" % (name, it["max_runs"], it["bound"]))
    res["states"] = st["runs"]
    res["n_nontrivial"] = st["runs"]
    res["outcomes"]["C:%s distinct outcomes=%d" % (name, len(outcomes))] = st["runs"]
    if bad:
        ch, why = bad[0]
        r = threadsched.Run(mk(), ch, pk)
        r2, e2, _ = r.execute()
        res["violations"].append(Violation(PROP, "%s|equals-sequential-result|thread-interleaving" % name, "schedule %s...: %s" % (ch[:40], why), dict(kind="thread", name=name, choices=ch)))
    res["parts"]["C:thread schedules"] = st["runs"]
    res["samples"].append(dict(part="C", workload=name, schedules=st["runs"], scheduling_points=st["points_max"], preemption_bound=it["bound"]))
    return res


def run_free_item(it):
    """D: free-running threaded scheduler (supplementary)"""
    common.load_wavespectra()
    import dask
    res = {"evals": 0, "n_nontrivial": 0, "violations": [], "samples": [], "outcomes": {}, "parts": {}, "states": 0, "transitions": 0, "traces": 0}
    for name, (build, reference) in workloads().items():
        ref = [np.asarray(r.values) for r in reference()]
        for w in (1, 2, 4, 16):
            for rep in range(it["repeats"]):
                out = dask.compute(*build(), scheduler="threads", num_workers=w)
                res["evals"] += 1
                ok = all(np.allclose(np.asarray(a.values), e, rtol=1e-10, atol=0, equal_nan=True) for a, e in zip(out, ref))
                if not ok:
                    res["violations"].append(Violation(PROP, "%s|equals-sequential-result|free-running-threads" % name.split("/")[0], "workload %s with %d worker threads differs" % (name, w),
                                                       dict(kind="free", name=name, workers=w)))
    # larger spectra, one per chunk, so that calls into the native routine overlap if it ever runs without the GIL
    import xarray as xr
    nfb, ndb, nb = 24, 24, 48
    i, j = np.meshgrid(np.arange(nfb), np.arange(ndb), indexing="ij")
    big = np.array([5.0 / (1 + (i - 4 - k % 7) ** 2 + (j - 3 * (k % 5)) ** 2) + 3.0 / (1 + (i - 15) ** 2 + (j - 12 - k % 9) ** 2) + 0.001 * ((i * 7 + j * 3 + k) % 11) for k in range(nb)])
    bda = xr.DataArray(big, dims=["time", "freq", "dir"], coords={"time": np.arange(nb), "freq": 0.04 * 1.08 ** np.arange(nfb), "dir": np.arange(ndb) * 15.0}, name="efth")
    refb = bda.spec.partition.ptm3(parts=3).values
    for w in (4, 16):
        for rep in range(it["repeats"] + 1):
            out = bda.chunk({"time": 1}).spec.partition.ptm3(parts=3).compute(scheduler="threads", num_workers=w)
            res["evals"] += 1
            if not np.array_equal(out.values, refb):
                res["violations"].append(Violation(PROP, "ptm3|equals-sequential-result|free-running-threads", "ptm3 on 48 one-spectrum chunks of 24x24 with %d worker threads differs from the in-memory result" % w,
                                                   dict(kind="free", name="big-ptm3", workers=w)))
                break
    res["parts"]["D:free-running threaded scheduler"] = res["evals"]
    return res


def source_guard():
    p = os.path.join(common.specpart_dir(), "specpart_wrap.c")
    s = open(p).read()
    return [t for t in ("Py_BEGIN_ALLOW_THREADS", "PyEval_SaveThread", "Py_UNBLOCK_THREADS", "nogil") if t in s]


def replay(case):
    common.load_wavespectra()
    k = case["kind"]
    if k == "chunk":
        ch = {d: tuple(int(x) for x in v) for d, v in case["chunks"].items()}
        r = run_chunk_item(dict(tier=case.get("tier", "quick"), chunkings=[ch], dask_config=case.get("dask_config")))
        return [v for v in r["violations"] if v.case["op"] == case["op"]]
    if k == "sched":
        build, reference = workloads()[case["name"]]
        ref = [np.asarray(r.values) for r in reference()]
        try:
            out, _ = tasksched.run_once(build, [int(c) for c in case["choices"]])
        except Exception as e:  # noqa
            return [Violation(PROP, "%s|raises-%s|task-schedule" % (case["name"].split("/")[0], type(e).__name__), str(e)[:300], case)]
        ok = all(np.allclose(np.asarray(a.values), e, rtol=1e-10, atol=0, equal_nan=True) for a, e in zip(out, ref))
        return [] if ok else [Violation(PROP, "%s|equals-sequential-result|task-order" % case["name"].split("/")[0], "differs", case)]
    if k == "thread":
        W, pk = thread_workloads()
        mk = W[case["name"]]
        seq = [b() for b in mk()]
        r = threadsched.Run(mk(), [int(c) for c in case["choices"]], pk)
        results, errors, _ = r.execute()
        for x, e, s in zip(results, errors, seq):
            if e is not None or not np.array_equal(np.asarray(x), np.asarray(s), equal_nan=True):
                return [Violation(PROP, "%s|equals-sequential-result|thread-interleaving" % case["name"], "differs / raised %r" % e, case)]
        return []
    r = run_free_item(dict(repeats=2))
    return r["violations"]


def run(rep, tier, seed, parts=None):
    common.load_wavespectra()
    rep.rule = ("A: dataset (time=3, site=2, freq=5, dir=4): every composition of every dimension into chunks (thorough: all 1024 "
                "chunkings; quick: every single-dimension composition, all-singletons and every pair of two-part splits) x %d operations, "
                "synchronous scheduler, vs the in-memory result; the numpy-backed input and 6 chunkings again under a dask configuration with a 128-byte automatic block size. B: every execution order (linear extension; or all orders within a "
                "deviation bound) of the real dask graphs of 6 workloads incl. two datasets of different grid shapes in one graph, under a "
                "controlled scheduler. C: every interleaving of 2 threads x 8 workloads with at most 1 (thorough: 2 for the numpy-level "
                "workloads) preemptions; scheduling points = line events in wavespectra frames. D: free-running threaded scheduler with "
                "1,2,4,16 workers. States = executions with a distinct schedule; transitions = scheduling decisions; traces = executions "
                "(the real code is what runs). Non-trivial = chunking with a split / schedule of a graph with a choice." % len(operations(tier)))
    rep.assumptions = ["the C call is one atomic step because specpart_wrap.c never releases the GIL (source guard, re-checked on every run)",
                       "scheduling points inside numpy/xarray/dask frames are not explored (those calls are atomic steps)",
                       "part D cannot decide anything (results are deterministic under the GIL); it exists to notice a GIL release"]
    g = source_guard()
    if g:
        rep.violations.append(Violation(PROP, "harness|gil-released-in-wrapper|", "specpart_wrap.c contains %s: the C call is no longer an atomic step and the cooperative scheduler is blind to it" % g, dict(kind="guard")))
    items = []
    if parts is None or "A" in parts:
        chs = chunkings(tier)
        if seed % 2:
            chs = chs[::-1]
        n = 4 if tier == "quick" else 16
        for i in range(0, len(chs), n):
            items.append(dict(kind="A", tier=tier, chunkings=chs[i:i + n]))
        rep.extra["chunkings"] = len(chs)
        # a user configuration with a tiny automatic block size (array.chunk-size): "auto" chunking then splits every dimension
        whole = {d: (SIZES[d],) for d in SIZES}
        small = [None, dict(whole), {d: (1,) * SIZES[d] for d in SIZES}] + [dict(whole, **{d: (1, SIZES[d] - 1)}) for d in SIZES]
        for i in range(0, len(small), 2):
            items.append(dict(kind="A", tier=tier, chunkings=small[i:i + 2], dask_config={"array.chunk-size": "128B"}))
    if parts is None or "B" in parts:
        big = ("tp/site-chunks", "hs+stats/freq-chunks", "ptm3(smooth)/time-chunks")
        for name in workloads():
            if tier == "quick":
                if name == "ptm3(smooth)/time-chunks":
                    continue  # several thousand single-deviation orders: thorough tier only
                items.append(dict(kind="B", name=name, bound=1 if name in big else 3, max_runs=2500, max_seconds=240))
            else:
                items.append(dict(kind="B", name=name, bound=1 if name in big else 6, max_runs=40000, max_seconds=500))
    if parts is None or "C" in parts:
        W, _ = thread_workloads()
        for name in W:
            nplevel = name.startswith("np_")
            items.append(dict(kind="C", name=name, bound=(2 if (tier == "thorough" and nplevel) else 1), max_runs=8000, max_seconds=500))
    if parts is None or "D" in parts:
        items.append(dict(kind="D", repeats=1 if tier == "quick" else 5))

    def dispatch(it):
        return {"A": run_chunk_item, "B": run_sched_item, "C": run_thread_item, "D": run_free_item}[it["kind"]](it)

    for res in common.pmap(dispatch, items):
        rep.merge(res)
