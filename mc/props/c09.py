"""C09 - threshold, wave-age and box splits assign every bin by the stated rule (bounded-exhaustive inputs, E1).

Operations: spec.partition.ptm4 / ptm5 / bbox, spec.split, spec.stats(fmin,fmax,dmin,dmax).
Spectra hold a distinct value in every bin, so membership is read off the output bin by bin.
The reference is plain loops over bins (no call into the functions under test; the library's celerity() is used as
given, it is C01's subject).
"""
from __future__ import annotations

import itertools
import math
import numpy as np

from mc import common, gen
from mc.common import Violation

PROP = "C09"
LEVEL = "exploration"
D2R = math.pi / 180.0
STATS = ["hs", "dm"]


# ---------------------------------------------------------------------------------------------
# grids, spectra, limit alphabets
# ---------------------------------------------------------------------------------------------
def grids(seed):
    """name -> (freq, dir, dtype). Non-uniform frequencies (one narrow pair), first direction != 0 except g44z."""
    fo = [0.0, 0.003, 0.007][seed % 3]
    d0 = [5.0, 7.5, 2.5][seed % 3]
    g = {}
    g["g44"] = (np.array([0.05, 0.08, 0.104, 0.11]) + fo, d0 + 90.0 * np.arange(4), "float64")
    g["g58"] = (np.array([0.04, 0.07, 0.12, 0.2, 0.4]) + fo, d0 + 45.0 * np.arange(8), "float64")
    g["g35"] = (np.array([0.06, 0.1, 0.13]) + fo, d0 + 72.0 * np.arange(5), "float32")
    g["g44z"] = (np.array([0.05, 0.08, 0.104, 0.11]) + fo, 90.0 * np.arange(4), "float64")  # first direction 0
    d35 = d0 + 72.0 * np.arange(5)
    g["g35u"] = (np.array([0.06, 0.1, 0.13]) + fo, np.roll(d35, 2), "float64")  # directions stored rotated
    return g


def spectra(nf, nd, seed):
    """(5, nf, nd): distinct values; distinct with a few zeros; scaled other permutation with many zeros; scaled distinct; all zero."""
    a = gen.distinct_values(nf, nd, seed)
    b = gen.distinct_values(nf, nd, seed + 1, zeros=3)
    c = 1e-3 * gen.distinct_values(nf, nd, seed + 2, zeros=max(2, nf * nd // 2))[::-1, ::-1]
    e = 250.0 * gen.distinct_values(nf, nd, seed + 3)[::-1]
    z = np.zeros((nf, nd))
    return np.array([a, b, c, e, z])


def axis_values(nodes, quarters=False, node_idx=None, gap_idx=None):
    """Sorted explicit limit values of one axis: every node, every midpoint (optionally 1/4 and 3/4 points)."""
    nodes = np.sort(np.asarray(nodes, dtype=float))
    n = len(nodes)
    vals = []
    for i in range(n):
        if node_idx is None or i in node_idx:
            vals.append(float(nodes[i]))
    for i in range(n - 1):
        if gap_idx is None or i in gap_idx:
            a, b = float(nodes[i]), float(nodes[i + 1])
            vals.append((a + b) / 2.0)
            if quarters:
                vals.append(a + (b - a) / 4.0)
                vals.append(a + 3.0 * (b - a) / 4.0)
    return sorted(vals)


def intervals(nodes, vals, strict_both=True, allow_equal_one_omitted=False, allow_equal=False):
    """All (lo, hi) with lo, hi in {None} + vals that describe a band: effective lo < hi (None = axis min / max).
    allow_equal: also lo == hi (degenerate); allow_equal_one_omitted: lo == hi only when one limit is omitted."""
    lo_eff = float(np.min(nodes))
    hi_eff = float(np.max(nodes))
    out = []
    for lo in [None] + list(vals):
        for hi in [None] + list(vals):
            a = lo_eff if lo is None else lo
            b = hi_eff if hi is None else hi
            if a < b:
                out.append((lo, hi))
            elif a == b:
                if allow_equal or (allow_equal_one_omitted and (lo is None or hi is None)):
                    out.append((lo, hi))
    out.sort(key=lambda t: ((t[0] is not None) + (t[1] is not None)))  # simplest first (stable)
    return out


def kind_of(v, nodes):
    if v is None:
        return "omitted"
    return "node" if any(v == x for x in nodes) else "between"


# ---------------------------------------------------------------------------------------------
# context: one batch of spectra on one grid as a DataArray
# ---------------------------------------------------------------------------------------------
class Ctx:
    def __init__(self, f, d, E, dtype="float64", layout="site"):
        import xarray as xr

        self.f = np.asarray(f, dtype=float)
        self.d = np.asarray(d, dtype=float)
        E = np.asarray(E, dtype=float)
        if E.ndim == 2:
            E = E[None]
        self.dtype = str(dtype)
        self.layout = layout
        self.Ein = E
        data = E.astype(self.dtype)
        self.E = data.astype(np.float64)  # the values the library sees, exactly
        self.N = E.shape[0]
        coords = {"freq": self.f.copy(), "dir": self.d.copy()}
        if layout == "none":
            assert self.N == 1
            self.lead, shp = [], ()
        elif layout == "site":
            self.lead, shp = ["site"], (self.N,)
            coords["site"] = np.arange(self.N)
        elif layout == "time_site":
            a = 1
            for k in (8, 6, 5, 4, 3, 2):
                if self.N % k == 0 and self.N > k:
                    a = self.N // k
                    break
            shp = (a, self.N // a)
            self.lead = ["time", "site"]
            coords["time"] = (np.datetime64("2020-01-01T00:00:00") + np.arange(shp[0]) * np.timedelta64(3, "h")).astype("datetime64[ns]")
            coords["site"] = np.arange(shp[1])
        else:
            raise ValueError(layout)
        self.shp = shp
        self.pos_coords = {k: coords[k] for k in self.lead}
        self.da = xr.DataArray(data.reshape(shp + data.shape[1:]), dims=self.lead + ["freq", "dir"], coords=coords, name="efth")
        self.tol = 1e-12 if self.dtype == "float64" else 2e-6

    def posarray(self, v):
        import xarray as xr

        return xr.DataArray(np.asarray(v, dtype=float).reshape(self.shp), dims=self.lead, coords=self.pos_coords)

    def out_array(self, out, extra=()):
        """-> values (N, *extra, nfo, ndo), freq labels, dir labels; None if the dims are not as expected."""
        want = self.lead + list(extra) + ["freq", "dir"]
        if sorted(out.dims) != sorted(want):
            return None
        o = out.transpose(*want)
        vals = np.asarray(o.values)
        vals = vals.reshape((self.N,) + vals.shape[len(self.lead):])
        return vals, np.asarray(o["freq"].values, dtype=float), np.asarray(o["dir"].values, dtype=float)

    def case(self, **kw):
        c = dict(f=self.f, d=self.d, efth=self.Ein, dtype=self.dtype, layout=self.layout)
        c.update(kw)
        return c


def ctx_of(case):
    return Ctx(case["f"], case["d"], case["efth"], case.get("dtype", "float64"), case.get("layout", "site"))


def label_index(labels, coords):
    """index of every label in coords (exact match) or -1"""
    out = []
    for x in labels:
        hit = [k for k, c in enumerate(coords) if c == x]
        out.append(hit[0] if len(hit) == 1 else -1)
    return out


def first_bad(ok):
    return tuple(int(x) for x in np.argwhere(~ok)[0])


# ---------------------------------------------------------------------------------------------
# PTM4
# ---------------------------------------------------------------------------------------------
def eval_ptm4(ctx, wspd, wdir, dpt, agefac, scalar=False, pinned=None):
    """wspd, wdir, dpt: per-position lists (length N), or floats when scalar. pinned: per position (i, j) of the bin
    constructed to sit exactly on the boundary (or None). Returns (bad list of (clause, pred, msg), info)."""
    from wavespectra.core.utils import celerity

    N, f, d = ctx.N, ctx.f, ctx.d
    nf, nd = len(f), len(d)
    info = {"pinned_exact": 0, "pinned_inexact": 0, "dontcare_bins": 0, "both_nonempty": 0}
    mode = "scalar-wind" if scalar else "per-position-wind"
    if scalar:
        args = (float(wspd), float(wdir), float(dpt))
        cc = np.asarray(celerity(ctx.da.freq, float(dpt)).values, dtype=float)
        cpos = np.tile(cc[None, :], (N, 1))
        ws, wd = [float(wspd)] * N, [float(wdir)] * N
    else:
        args = (ctx.posarray(wspd), ctx.posarray(wdir), ctx.posarray(dpt))
        cda = celerity(ctx.da.freq, args[2]).transpose(*(ctx.lead + ["freq"]))
        cpos = np.asarray(cda.values, dtype=float).reshape(N, nf)
        ws, wd = [float(x) for x in wspd], [float(x) for x in wdir]
    try:
        out = ctx.da.spec.partition.ptm4(*args, agefac=agefac)
    except Exception as e:  # noqa
        return [("raises-" + type(e).__name__, mode, "ptm4 raised %s: %s" % (type(e).__name__, e))], info
    r = ctx.out_array(out, extra=("part",))
    if r is None or r[0].shape[1] != 2:
        return [("two-partitions", mode, "output dims %s sizes %s" % (out.dims, dict(out.sizes)))], info
    vals, fo, do = r
    fi, di = label_index(fo, f), label_index(do, d)
    if len(fo) != nf or len(do) != nd or -1 in fi or -1 in di or len(set(fi)) != nf or len(set(di)) != nd:
        return [("grid-unchanged", mode, "output freq %s dir %s, input freq %s dir %s" % (fo, do, f, d))], info
    bad = []
    for b in range(N):
        S = ctx.E[b][np.ix_(fi, di)]
        o0, o1 = vals[b, 0].astype(float), vals[b, 1].astype(float)
        sound = ((o0 == S) & (o1 == 0)) | ((o0 == 0) & (o1 == S))
        if not sound.all():
            i, j = first_bad(sound)
            info["bad_pos"] = b
            bad.append(("parts-disjoint-and-sum-exactly", mode, "position %d bin f=%g d=%g: input %r, wind sea %r, swell %r" % (
                b, fo[i], do[j], float(S[i, j]), float(o0[i, j]), float(o1[i, j]))))
            return bad, info
        sea = np.zeros((nf, nd), dtype=bool)
        care = np.ones((nf, nd), dtype=bool)
        pin = None if pinned is None else pinned[b]
        for i in range(nf):
            c = cpos[b, fi[i]]
            for j in range(nd):
                up = agefac * ws[b] * math.cos(D2R * (do[j] - wd[b]))
                sea[i, j] = c <= up
                if pin is not None and (fi[i], di[j]) == tuple(pin):
                    if agefac * ws[b] == c and do[j] == wd[b]:
                        sea[i, j] = True  # equality exact in IEEE arithmetic: "does not exceed" => wind sea
                        info["pinned_exact"] += 1
                    else:
                        care[i, j] = False
                        info["pinned_inexact"] += 1
                elif abs(up - c) <= 1e-9 * max(abs(up), abs(c)):
                    care[i, j] = False
                    info["dontcare_bins"] += 1
        if sea.any() and not sea.all():
            info["both_nonempty"] += 1
        exp0 = np.where(sea, S, 0.0)
        ok = (o0 == exp0) | ~care
        if not ok.all():
            i, j = first_bad(ok)
            c = cpos[b, fi[i]]
            up = agefac * ws[b] * math.cos(D2R * (do[j] - wd[b]))
            ispin = pin is not None and (fi[i], di[j]) == tuple(pin)
            info["bad_pos"] = b
            bad.append(("wind-sea-iff-celerity<=wind-component", mode + (",celerity==component-exactly" if ispin else ",celerity!=component"),
                        "position %d bin f=%g d=%g: celerity %r, agefac*wspd*cos %r (wspd %r wdir %r dpt-celerity from library, agefac %r) => %s, "
                        "but wind-sea part holds %r, swell %r (input %r)" % (b, fo[i], do[j], float(c), float(up), ws[b], wd[b], agefac,
                                                                             "wind sea" if sea[i, j] else "swell", float(o0[i, j]), float(o1[i, j]), float(S[i, j]))))
            return bad, info
    return bad, info


# ---------------------------------------------------------------------------------------------
# bbox
# ---------------------------------------------------------------------------------------------
def box_eff(box, f, d):
    return (float(box.get("fmin", f.min())), float(box.get("fmax", f.max())), float(box.get("dmin", d.min())), float(box.get("dmax", d.max())))


def box_mask(box, f, d):
    fmin, fmax, dmin, dmax = box_eff(box, f, d)
    m = np.zeros((len(f), len(d)), dtype=bool)
    for i in range(len(f)):
        for j in range(len(d)):
            m[i, j] = (fmin <= f[i] <= fmax) and (dmin <= d[j] <= dmax)
    return m


def classify_boxes(boxes, f, d):
    """'disjoint' (no pair shares a bin, no pair overlaps with positive area) / 'must-raise' (some pair overlaps with positive area
    and shares a bin) / 'touch' (some pair shares a bin, none with positive-area overlap) / 'overlap-no-bin'."""
    masks = [box_mask(b, f, d) for b in boxes]
    effs = [box_eff(b, f, d) for b in boxes]
    shared_any = area_any = False
    for a, b in itertools.combinations(range(len(boxes)), 2):
        shared = bool((masks[a] & masks[b]).any())
        fa, fb = max(effs[a][0], effs[b][0]), min(effs[a][1], effs[b][1])
        da_, db_ = max(effs[a][2], effs[b][2]), min(effs[a][3], effs[b][3])
        area = (fb - fa > 0) and (db_ - da_ > 0)
        # a single-row box (dmin == dmax) lying strictly inside the other box's direction range: the intersection is the row itself,
        # not a contact between edges
        if (fb - fa > 0) and (db_ == da_) and any(e[2] < da_ < e[3] for e in (effs[a], effs[b])):
            area = True
        if shared and area:
            return "must-raise", masks
        shared_any |= shared
        area_any |= area
    if shared_any:
        return "touch", masks
    if area_any:
        return "overlap-no-bin", masks
    return "disjoint", masks


def bbox_pred(boxes, f, d):
    if d.min() != 0 and any("dmax" not in b for b in boxes):
        return "dmax-omitted,first-dir-nonzero"
    if any(v == 0 for b in boxes for v in b.values()):
        return "explicit-zero-limit"
    return "limits-nonzero,dmax-given-or-first-dir-zero"


def expected_parts(masks, S):
    union = np.zeros(S.shape, dtype=bool)
    parts = []
    for m in masks:
        parts.append(np.where(m, S, 0.0))
        union |= m
    parts.append(np.where(union, 0.0, S))
    return np.array(parts)


def eval_bbox(ctx, boxes):
    f, d = ctx.f, ctx.d
    cat, masks = classify_boxes(boxes, f, d)
    pred = bbox_pred(boxes, f, d)
    info = {"cat": cat, "outcome": "returned", "nontrivial": False}
    try:
        out = ctx.da.spec.partition.bbox([dict(b) for b in boxes])
    except ValueError as e:
        info["outcome"] = "ValueError"
        if cat == "disjoint":
            return [("accepted-when-no-bin-shared", pred, "boxes %s share no bin and do not overlap, but bbox raised ValueError: %s" % (boxes, e))], info
        return [], info
    except Exception as e:  # noqa
        info["outcome"] = type(e).__name__
        return [("raises-" + type(e).__name__, pred, "bbox(%s) raised %s: %s" % (boxes, type(e).__name__, e))], info
    if cat == "must-raise":
        return [("overlap-rejected", pred, "boxes %s overlap with positive area and share a bin, but bbox returned a result" % (boxes,))], info
    if cat == "touch":
        return [], info
    r = ctx.out_array(out, extra=("part",))
    if r is None or r[0].shape[1] != len(boxes) + 1:
        return [("one-part-per-box-plus-complement", pred, "output dims %s sizes %s for %d boxes" % (out.dims, dict(out.sizes), len(boxes)))], info
    vals, fo, do = r
    fi, di = label_index(fo, f), label_index(do, d)
    if len(fo) != len(f) or len(do) != len(d) or -1 in fi or -1 in di or len(set(fi)) != len(f) or len(set(di)) != len(d):
        return [("grid-unchanged", pred, "output freq %s dir %s, input freq %s dir %s" % (fo, do, f, d))], info
    info["nontrivial"] = bool(masks[0].any() and not np.logical_or.reduce(masks).all())
    ix = np.ix_(fi, di)
    for b in range(ctx.N):
        S = ctx.E[b][ix]
        exp = expected_parts([m[ix] for m in masks], S)
        o = vals[b].astype(float)
        if np.array_equal(o, exp):
            continue
        k, i, j = first_bad(o == exp)
        # discriminate the observed behaviour (which limit was mis-read) for the signature
        how = "other"
        if pred == "dmax-omitted,first-dir-nonzero":
            alt = [dict(bx, dmax=float(d.min())) if "dmax" not in bx else bx for bx in boxes]
            if np.array_equal(o, expected_parts([box_mask(bx, f, d)[ix] for bx in alt], S)):
                how = "as-if-dmax=min(dir)"
        elif pred == "explicit-zero-limit":
            alt = [{k2: v for k2, v in bx.items() if v != 0} for bx in boxes]
            if np.array_equal(o, expected_parts([box_mask(bx, f, d)[ix] for bx in alt], S)):
                how = "as-if-zero-limit-omitted"
        what = "complement" if k == len(boxes) else "box %d %s" % (k, boxes[k])
        clause = "box-holds-exactly-the-bins-inside" if k < len(boxes) else "complement-goes-last"
        tot = o.sum(axis=0)
        if not np.array_equal(tot, S) and k == len(boxes):
            clause = "parts-disjoint-and-sum-exactly"
        return [(clause, pred + ",got:" + how, "spectrum %d, %s, bin f=%g d=%g: got %r expected %r (input %r); boxes %s" % (
            b, what, fo[i], do[j], float(o[k, i, j]), float(exp[k, i, j]), float(S[i, j]), boxes))], info
    return [], info


# ---------------------------------------------------------------------------------------------
# split / stats
# ---------------------------------------------------------------------------------------------
def lin_interp(f, S, fc):
    """S (nf, nd) at frequency fc strictly between two nodes of ascending f."""
    for i in range(1, len(f)):
        if f[i - 1] < fc < f[i]:
            return (S[i - 1] * (f[i] - fc) + S[i] * (fc - f[i - 1])) / (f[i] - f[i - 1])
    raise ValueError("fc outside")


def ref_split(f, d, S, fmin, fmax, dmin, dmax):
    """-> (freq labels, is_node flags, dir labels (set semantics), values). f ascending."""
    rows, flab, isnode = [], [], []
    on = lambda v: any(v == x for x in f)
    if fmin is not None and not on(fmin):
        rows.append(lin_interp(f, S, fmin)); flab.append(fmin); isnode.append(False)
    for i in range(len(f)):
        if (fmin is None or f[i] >= fmin) and (fmax is None or f[i] <= fmax):
            rows.append(S[i].astype(float)); flab.append(float(f[i])); isnode.append(True)
    if fmax is not None and not on(fmax):
        rows.append(lin_interp(f, S, fmax)); flab.append(fmax); isnode.append(False)
    keep = [j for j in range(len(d)) if (dmin is None or d[j] >= dmin) and (dmax is None or d[j] <= dmax)]
    vals = np.array(rows).reshape(len(rows), len(d))[:, keep]
    return np.array(flab), np.array(isnode, dtype=bool), d[keep], vals


def split_pred(ctx, fmin, fmax, dmin, dmax, about="freq"):
    """Discriminating predicate of the limits; `about` selects the limits the violated clause depends on."""
    f, d = ctx.f, ctx.d
    lo = f.min() if fmin is None else fmin
    hi = f.max() if fmax is None else fmax
    if not any(lo <= x <= hi for x in f):
        return "band-holds-no-grid-frequency"
    if (dmin is None and dmax == 0) or (dmax is None and dmin == 0) or (dmin == 0 and dmax == 0):
        return "only-direction-limit-is-0"
    pf = "fmin:%s,fmax:%s" % (kind_of(fmin, f), kind_of(fmax, f))
    pd = "dmin:%s,dmax:%s" % (kind_of(dmin, d), kind_of(dmax, d))
    if about == "freq":
        return pf
    if about == "dir":
        return pd
    given = lambda a, b: "none" if a is None and b is None else "given"
    return "freq-limits:%s,dir-limits:%s" % (given(fmin, fmax), given(dmin, dmax))


def eval_split(ctx, fmin, fmax, dmin, dmax, stats=False):
    f, d = ctx.f, ctx.d
    assert np.all(np.diff(f) > 0)
    pred = split_pred(ctx, fmin, fmax, dmin, dmax, "freq")
    pred_d = split_pred(ctx, fmin, fmax, dmin, dmax, "dir")
    pred_a = split_pred(ctx, fmin, fmax, dmin, dmax, "all")
    lim = "fmin=%r fmax=%r dmin=%r dmax=%r" % (fmin, fmax, dmin, dmax)
    info = {"interp": 0, "nontrivial": False}
    try:
        out = ctx.da.spec.split(fmin=fmin, fmax=fmax, dmin=dmin, dmax=dmax)
        r = ctx.out_array(out)
    except Exception as e:  # noqa
        return [("split", "raises-" + type(e).__name__, pred_a, "split(%s) raised %s: %s" % (lim, type(e).__name__, e))], info
    if r is None:
        return [("split", "dims-unchanged", pred_a, "split(%s) returned dims %s" % (lim, out.dims))], info
    vals, fo, do = r
    bad = []
    for b in range(ctx.N):
        efl, isnode, edl, ev = ref_split(f, d, ctx.E[b], fmin, fmax, dmin, dmax)
        if b == 0:
            info["interp"] = int((~isnode).sum())
            info["nontrivial"] = bool(len(efl) < len(f) or len(edl) < len(d) or (~isnode).any())
            if not (len(fo) == len(efl) and np.array_equal(fo, efl)):
                return [("split", "frequencies-are-band-nodes-plus-cutoffs", pred, "split(%s): output freq %s, expected %s (grid %s)" % (lim, fo.tolist(), efl.tolist(), f.tolist()))], info
            dj = label_index(do, edl)
            if len(do) != len(edl) or -1 in dj or len(set(dj)) != len(edl):
                return [("split", "directions-are-band-nodes", pred_d, "split(%s): output dir %s, expected %s (grid %s)" % (lim, do.tolist(), edl.tolist(), d.tolist()))], info
        o = vals[b].astype(float)
        e = ev[:, dj]
        oknode = (o == e) | ~isnode[:, None]
        if not oknode.all():
            i, j = first_bad(oknode)
            return [("split", "inside-bins-unchanged", pred, "split(%s) spectrum %d bin f=%g d=%g: got %r, input %r" % (lim, b, fo[i], do[j], float(o[i, j]), float(e[i, j])))], info
        scale = np.abs(ctx.E[b]).max() + 1e-300
        okint = (np.abs(o - e) <= ctx.tol * scale) | isnode[:, None]
        if not okint.all():
            i, j = first_bad(okint)
            return [("split", "cutoff-slice-is-linear-interpolation", pred, "split(%s) spectrum %d at inserted f=%g d=%g: got %r, linear interpolation %r" % (
                lim, b, fo[i], do[j], float(o[i, j]), float(e[i, j])))], info
    if stats:
        try:
            st = ctx.da.spec.stats(STATS, fmin=fmin, fmax=fmax, dmin=dmin, dmax=dmax).compute()
            got = {s: np.asarray(st[s].transpose(*ctx.lead).values, dtype=float).reshape(ctx.N) for s in STATS}
            out = out.compute()
        except Exception as e:  # noqa
            return [("stats", "raises-" + type(e).__name__, pred_a, "stats(%s, %s) raised %s: %s" % (STATS, lim, type(e).__name__, e))], info
        for s in STATS:
            ref = np.asarray(getattr(out.spec, s)().transpose(*ctx.lead).values, dtype=float).reshape(ctx.N)
            g = got[s]
            ok = (np.abs(g - ref) <= 1e-12 * np.abs(ref)) | (np.isnan(g) & np.isnan(ref))
            if not ok.all():
                b = first_bad(ok)[0]
                return [("stats", "equals-stats-of-split-spectrum", pred_a + ",stat:" + s, "stats(%s) %s = %r but %s of split(%s) = %r (spectrum %d)" % (
                    lim, s, float(g[b]), s, lim, float(ref[b]), b))], info
    return bad, info


# ---------------------------------------------------------------------------------------------
# PTM5
# ---------------------------------------------------------------------------------------------
def ref_m0(f, S2d, d):
    """variance by the library's rectangle rule (C01): sum S(f) df + tail, S(f) = dd * sum over dir."""
    n = len(f)
    if len(d) > 1:
        dif = abs(d[1] - d[0]) % 360.0
        dd = min(dif, 360.0 - dif)
    else:
        dd = 1.0
    S1 = [dd * math.fsum(S2d[i].tolist()) for i in range(n)]
    df = [0.0] * n
    df[0] = f[1] - f[0]
    df[-1] = f[-1] - f[-2]
    for i in range(1, n - 1):
        df[i] = (f[i + 1] - f[i - 1]) / 2.0
    m0 = math.fsum(S1[i] * df[i] for i in range(n))
    if f[-1] > 0.333:
        m0 += 0.25 * S1[-1] * f[-1]
    return m0


def eval_ptm5(ctx, fcut, interpolate=True):
    f, d = ctx.f, ctx.d
    assert np.all(np.diff(f) > 0)
    onnode = any(fcut == x for x in f)
    pred = ("cutoff:node" if onnode else "cutoff:between") + ("" if interpolate else ",interpolate=False")
    info = {"c": []}
    try:
        out = ctx.da.spec.partition.ptm5(fcut, interpolate=interpolate)
    except Exception as e:  # noqa
        return [("raises-" + type(e).__name__, pred, "ptm5(%r) raised %s: %s" % (fcut, type(e).__name__, e))], info
    r = ctx.out_array(out, extra=("part",))
    if r is None or r[0].shape[1] != 2:
        return [("two-partitions", pred, "output dims %s sizes %s" % (out.dims, dict(out.sizes)))], info
    vals, fo, do = r
    efo = np.array(sorted(set(f.tolist()) | ({fcut} if interpolate else set())))
    di = label_index(do, d)
    if not np.array_equal(fo, efo) or len(do) != len(d) or -1 in di or len(set(di)) != len(d):
        return [("grid-is-input-plus-cutoff", pred, "ptm5(%r): output freq %s dir %s, expected freq %s dir %s" % (fcut, fo.tolist(), do.tolist(), efo.tolist(), d.tolist()))], info
    fi = label_index(fo, f)  # -1 at the inserted cutoff
    for b in range(ctx.N):
        S = ctx.E[b][:, di]
        o = vals[b].astype(float)
        # zero strictly beyond the cutoff
        for p, beyond in ((0, fo < fcut), (1, fo > fcut)):
            rows_bad = [i for i in range(len(fo)) if beyond[i] and (o[p][i] != 0).any()]
            if rows_bad:
                i = rows_bad[0]
                return [("zero-strictly-beyond-cutoff", pred, "ptm5(%r) spectrum %d part %d (%s) at f=%g: %s, expected zeros" % (
                    fcut, b, p, "sea" if p == 0 else "swell", fo[i], o[p][i].tolist()))], info
        # elsewhere: input times ONE factor
        ref = np.empty((len(fo), len(d)))
        for i in range(len(fo)):
            ref[i] = S[fi[i]] if fi[i] >= 0 else lin_interp(f, S, fcut)
        scale = np.abs(S).max()
        if scale == 0:
            if (o != 0).any():
                return [("single-factor", pred + ",zero-spectrum", "ptm5(%r) of an all-zero spectrum is not zero" % fcut)], info
            continue
        within = [(0, fo >= fcut), (1, fo <= fcut)]
        # estimate the factor from the largest original-node bin inside either part
        isn = np.array([k >= 0 for k in fi])
        big = np.unravel_index(np.argmax(np.where(isn[:, None], ref, -1.0)), ref.shape)
        p_big = 0 if fo[big[0]] >= fcut else 1
        c = o[p_big][big] / ref[big]
        info["c"].append(float(c))
        tol = max(ctx.tol, 1e-12) * scale * max(1.0, abs(c))
        for p, inside in within:
            okn = (np.abs(o[p] - c * ref) <= tol) | ~(inside & isn)[:, None]
            if not okn.all():
                i, j = first_bad(okn)
                return [("single-factor", pred, "ptm5(%r) spectrum %d part %d bin f=%g d=%g: got %r = %r x input %r, but factor elsewhere is %r" % (
                    fcut, b, p, fo[i], do[j], float(o[p][i, j]), float(o[p][i, j] / ref[i, j]) if ref[i, j] else float("nan"), float(ref[i, j]), float(c)))], info
            oki = (np.abs(o[p] - c * ref) <= tol) | ~(inside & ~isn)[:, None]
            if not oki.all():
                i, j = first_bad(oki)
                return [("cutoff-slice-is-factor-times-linear-interpolation", pred, "ptm5(%r) spectrum %d part %d at inserted f=%g d=%g: got %r, factor x interpolation = %r" % (
                    fcut, b, p, fo[i], do[j], float(o[p][i, j]), float(c * ref[i, j])))], info
        if onnode or not interpolate:
            exact = all(np.array_equal(o[p][inside], ref[inside]) for p, inside in within)
            if not exact:
                return [("factor-is-1-when-cutoff-is-a-grid-frequency", pred, "ptm5(%r) spectrum %d: kept bins differ from the input (factor %r)" % (fcut, b, float(c)))], info
        else:
            R = np.where((fo >= fcut)[:, None], o[0], o[1])
            ds = np.sort(d)
            m_in, m_out = ref_m0(f, ctx.E[b], ds), ref_m0(fo, R, ds)
            vt = 1e-9 if ctx.dtype == "float64" else 1e-5
            if abs(m_out - m_in) > vt * m_in:
                return [("factor-preserves-variance", pred, "ptm5(%r) spectrum %d: variance of the re-assembled output %r, of the input %r (factor %r)" % (fcut, b, float(m_out), float(m_in), float(c)))], info
    return [], info


# ---------------------------------------------------------------------------------------------
# replay
# ---------------------------------------------------------------------------------------------
def sig(op, clause, pred):
    return "%s|%s|%s" % (op, clause, pred)


def replay(case):
    common.load_wavespectra()
    ctx = ctx_of(case)
    op = case["op"]
    if op == "ptm4":
        bad, _ = eval_ptm4(ctx, case["wspd"], case["wdir"], case["dpt"], case["agefac"], scalar=bool(case.get("scalar")), pinned=case.get("pinned"))
        return [Violation(PROP, sig("spec.partition.ptm4", cl, pr), msg, case) for cl, pr, msg in bad]
    if op == "bbox":
        bad, _ = eval_bbox(ctx, [dict(b) for b in case["boxes"]])
        return [Violation(PROP, sig("spec.partition.bbox", cl, pr), msg, case) for cl, pr, msg in bad]
    if op == "split":
        bad, _ = eval_split(ctx, case["fmin"], case["fmax"], case["dmin"], case["dmax"], stats=bool(case.get("stats")))
        return [Violation(PROP, sig("spec." + o, cl, pr), msg, case) for o, cl, pr, msg in bad]
    if op == "ptm5":
        bad, _ = eval_ptm5(ctx, case["fcut"], interpolate=bool(case.get("interpolate", True)))
        return [Violation(PROP, sig("spec.partition.ptm5", cl, pr), msg, case) for cl, pr, msg in bad]
    raise ValueError(op)


# ---------------------------------------------------------------------------------------------
# work items
# ---------------------------------------------------------------------------------------------
WIND = {
    "quick": dict(wspd=[0.0, 5.0, 10.0, 25.0], wdir=[0.0, 45.0, 200.0, 359.0], dpt=[3.0, 30.0, 3000.0], agefac=[1.0, 1.7]),
    "thorough": dict(wspd=[0.0, 1.0, 5.0, 10.0, 15.0, 25.0, 40.0], wdir=[0.0, 45.0, 90.0, 180.0, 200.0, 275.0, 359.0, 360.0],
                     dpt=[1.0, 3.0, 10.0, 30.0, 100.0, 3000.0], agefac=[1.0, 1.3, 1.7, 2.0]),
}


def new_res():
    return {"evals": 0, "n_nontrivial": 0, "samples": [], "outcomes": {}, "violations": [], "parts": {}}


def bump(res, key, n=1):
    res["outcomes"][key] = res["outcomes"].get(key, 0) + n


def add_violation(res, seen, v):
    if v.signature not in seen:
        seen.add(v.signature)
        res["violations"].append(v)


def run_ptm4(it):
    res, seen = new_res(), set()
    f, d, dtype = it["grid"]
    nf, nd = len(f), len(d)
    sp = spectra(nf, nd, it["seed"])
    mode = it["mode"]
    W = WIND[it["tier"]]
    WSPD, WDIR, DPT, AGEFAC = W["wspd"], W["wdir"], W["dpt"], W["agefac"]

    def report(ctx, bad, info, kw):
        """Re-run the failing position alone (smaller replay); keep the batch if it only fails inside the batch."""
        for cl, pr, msg in bad:
            case = ctx.case(**kw)
            b = info.get("bad_pos")
            if b is not None and not kw.get("scalar"):
                one = Ctx(f, d, ctx.Ein[b:b + 1], dtype, "time_site")
                kw1 = dict(kw, wspd=[kw["wspd"][b]], wdir=[kw["wdir"][b]], dpt=[kw["dpt"][b]])
                if kw.get("pinned") is not None:
                    kw1["pinned"] = [kw["pinned"][b]]
                bad1, _ = eval_ptm4(one, kw1["wspd"], kw1["wdir"], kw1["dpt"], kw["agefac"], pinned=kw1.get("pinned"))
                if [x[:2] for x in bad1] == [(cl, pr)]:
                    case, msg = one.case(**kw1), bad1[0][2]
            add_violation(res, seen, Violation(PROP, sig("spec.partition.ptm4", cl, pr), "grid %s: %s" % (it["gname"], msg), case))

    if mode == "product-batched":
        cfgs = list(itertools.product(WSPD, WDIR, DPT))  # 48 positions, one call per age factor
        # positions whose wind or depth is missing: the rule cannot hold there, so every bin is swell and nothing may be lost
        nan = float("nan")
        cfgs += [(nan, 45.0, 30.0), (10.0, nan, 30.0), (10.0, 45.0, nan), (nan, nan, nan)]
        E = np.array([sp[k % len(sp)] for k in range(len(cfgs))])
        ctx = Ctx(f, d, E, dtype, "time_site")
        for ag in AGEFAC:
            kw = dict(op="ptm4", wspd=[c[0] for c in cfgs], wdir=[c[1] for c in cfgs], dpt=[c[2] for c in cfgs], agefac=ag)
            bad, info = eval_ptm4(ctx, kw["wspd"], kw["wdir"], kw["dpt"], ag)
            res["evals"] += ctx.N
            res["n_nontrivial"] += info["both_nonempty"]
            bump(res, "ptm4:both-parts-nonempty", info["both_nonempty"])
            bump(res, "ptm4:one-part-empty", ctx.N - info["both_nonempty"])
            bump(res, "ptm4:dontcare-bins", info["dontcare_bins"])
            report(ctx, bad, info, kw)
            if ag == 1.7 and it["gname"] == "g44":
                res["samples"].append(dict(op="ptm4", grid=it["gname"], freq=f, dir=d, position=7, efth=E[7], wspd=kw["wspd"][7], wdir=kw["wdir"][7], dpt=kw["dpt"][7], agefac=ag))
    elif mode == "product-scalar":
        ctx = Ctx(f, d, sp, dtype, "site")
        ctx1 = Ctx(f, d, sp[:1], dtype, "none")
        k = 0
        for ws, wd, dp in itertools.product(WSPD, WDIR, DPT):
            for ag in AGEFAC:
                c = ctx1 if k % 4 == 0 else ctx
                k += 1
                bad, info = eval_ptm4(c, ws, wd, dp, ag, scalar=True)
                res["evals"] += c.N
                res["n_nontrivial"] += info["both_nonempty"]
                bump(res, "ptm4:both-parts-nonempty", info["both_nonempty"])
                bump(res, "ptm4:one-part-empty", c.N - info["both_nonempty"])
                for cl, pr, msg in bad:
                    add_violation(res, seen, Violation(PROP, sig("spec.partition.ptm4", cl, pr), "grid %s: %s" % (it["gname"], msg),
                                                       c.case(op="ptm4", wspd=ws, wdir=wd, dpt=dp, agefac=ag, scalar=True)))
    elif mode == "boundary":
        from wavespectra.core.utils import celerity
        import xarray as xr

        # one position per (bin, depth): wspd = celerity(f_i, dpt) / agefac, wdir = d_j
        pos = [(i, j, dp) for i in range(nf) for j in range(nd) for dp in DPT]
        E = np.array([sp[k % 4] for k in range(len(pos))])  # never the all-zero spectrum
        ctx = Ctx(f, d, E, dtype, "time_site")
        dpt = [p[2] for p in pos]
        cda = celerity(ctx.da.freq, ctx.posarray(dpt)).transpose(*(ctx.lead + ["freq"]))
        cpos = np.asarray(cda.values, dtype=float).reshape(ctx.N, nf)
        for ag in AGEFAC:
            wspd = [float(cpos[b, p[0]] / ag) for b, p in enumerate(pos)]
            wdir = [float(d[p[1]]) for p in pos]
            pinned = [[p[0], p[1]] for p in pos]
            bad, info = eval_ptm4(ctx, wspd, wdir, dpt, ag, pinned=pinned)
            res["evals"] += ctx.N
            res["n_nontrivial"] += info["pinned_exact"]
            bump(res, "ptm4-boundary:equality-exact(pinned wind sea)", info["pinned_exact"])
            bump(res, "ptm4-boundary:equality-inexact(dont-care)", info["pinned_inexact"])
            report(ctx, bad, info, dict(op="ptm4", wspd=wspd, wdir=wdir, dpt=dpt, agefac=ag, pinned=pinned))
            if ag == 1.0 and it["gname"] == "g44":
                res["samples"].append(dict(op="ptm4-boundary", grid=it["gname"], freq=f, dir=d, bin=pinned[5], wspd=wspd[5], wdir=wdir[5], dpt=dpt[5], agefac=ag))
    res["parts"]["ptm4:" + mode] = res["evals"]
    return res


def run_bbox(it):
    res, seen = new_res(), set()
    f, d, dtype = it["grid"]
    sp = spectra(len(f), len(d), it["seed"])
    ctx = Ctx(f, d, sp if it.get("batch", True) else sp[:1], dtype, "site" if it.get("batch", True) else "none")
    for boxes in it["sets"]:
        bad, info = eval_bbox(ctx, boxes)
        res["evals"] += 1
        res["n_nontrivial"] += 1 if (info["nontrivial"] or info["cat"] == "must-raise") else 0
        bump(res, "bbox%d:%s->%s" % (len(boxes), info["cat"], info["outcome"]))
        for cl, pr, msg in bad:
            add_violation(res, seen, Violation(PROP, sig("spec.partition.bbox", cl, pr), "grid %s: %s" % (it["gname"], msg), ctx.case(op="bbox", boxes=boxes)))
    if it.get("sample") and it["sets"]:
        res["samples"].append(dict(op="bbox", grid=it["gname"], freq=f, dir=d, boxes=it["sets"][len(it["sets"]) // 2], efth=sp[0]))
    res["parts"]["bbox:" + it["name"]] = res["evals"]
    return res


def run_split(it):
    res, seen = new_res(), set()
    f, d, dtype = it["grid"]
    sp = spectra(len(f), len(d), it["seed"])
    ctx = Ctx(f, d, sp, dtype, it.get("layout", "site"))
    for (fmin, fmax, dmin, dmax) in it["limits"]:
        bad, info = eval_split(ctx, fmin, fmax, dmin, dmax, stats=it["stats"])
        res["evals"] += 1
        res["n_nontrivial"] += 1 if info["nontrivial"] else 0
        bump(res, "%s:interpolated-cutoffs=%d" % ("split+stats" if it["stats"] else "split", info["interp"]))
        for op, cl, pr, msg in bad:
            add_violation(res, seen, Violation(PROP, sig("spec." + op, cl, pr), "grid %s: %s" % (it["gname"], msg),
                                               ctx.case(op="split", fmin=fmin, fmax=fmax, dmin=dmin, dmax=dmax, stats=it["stats"])))
    if it.get("sample") and it["limits"]:
        lm = it["limits"][len(it["limits"]) // 2]
        res["samples"].append(dict(op="split+stats" if it["stats"] else "split", grid=it["gname"], freq=f, dir=d, fmin=lm[0], fmax=lm[1], dmin=lm[2], dmax=lm[3], efth=sp[0]))
    res["parts"][("stats:" if it["stats"] else "split:") + it["name"]] = res["evals"]
    return res


def run_ptm5(it):
    res, seen = new_res(), set()
    f, d, dtype = it["grid"]
    sp = spectra(len(f), len(d), it["seed"])
    for layout, E in (("time_site", np.concatenate([sp, sp[:3][:, ::-1]])), ("none", sp[1:2])):
        ctx = Ctx(f, d, E, dtype, layout)
        for fcut in it["cuts"]:
            for interp in (True, False):
                bad, info = eval_ptm5(ctx, fcut, interpolate=interp)
                res["evals"] += 1
                res["n_nontrivial"] += 1 if f.min() < fcut < f.max() else 0
                cs = info["c"]
                lab = "none" if not cs else ("==1" if all(c == 1.0 for c in cs) else ("~1(1e-12)" if all(abs(c - 1) < 1e-12 for c in cs) else "!=1"))
                bump(res, "ptm5:%s,interp=%s,factor%s" % ("node" if any(fcut == x for x in f) else "between", interp, lab))
                for cl, pr, msg in bad:
                    add_violation(res, seen, Violation(PROP, sig("spec.partition.ptm5", cl, pr), "grid %s: %s" % (it["gname"], msg),
                                                       ctx.case(op="ptm5", fcut=fcut, interpolate=interp)))
    if it.get("sample"):
        res["samples"].append(dict(op="ptm5", grid=it["gname"], freq=f, dir=d, fcut=it["cuts"][len(it["cuts"]) // 2], efth=sp[0]))
    res["parts"]["ptm5"] = res["evals"]
    return res


def dispatch(it):
    common.load_wavespectra()
    return {"ptm4": run_ptm4, "bbox": run_bbox, "split": run_split, "ptm5": run_ptm5}[it["op"]](it)


def mkbox(fi, di):
    b = {}
    if fi[0] is not None:
        b["fmin"] = fi[0]
    if fi[1] is not None:
        b["fmax"] = fi[1]
    if di[0] is not None:
        b["dmin"] = di[0]
    if di[1] is not None:
        b["dmax"] = di[1]
    return b


def nexplicit(b):
    return len(b)


def chunks(lst, n):
    return [lst[i:i + n] for i in range(0, len(lst), n)]


def coarse_vals(nodes):
    """{n1, midpoint(n1,n2), n2} of the sorted axis"""
    s = np.sort(nodes)
    return [float(s[1]), float((s[1] + s[2]) / 2.0), float(s[2])]


def build_items(tier, seed, parts):
    G = grids(seed)
    thorough = tier == "thorough"
    items = []
    want = lambda p: parts is None or p in parts
    # ---- PTM4
    if want("ptm4"):
        for gname in ("g44", "g35", "g58", "g35u", "g44z"):
            for mode in ("product-scalar", "product-batched", "boundary"):
                if mode == "product-scalar" and gname in ("g35u", "g44z") and not thorough:
                    continue
                items.append(dict(op="ptm4", gname=gname, grid=G[gname], seed=seed, mode=mode, tier=tier))
    # ---- bbox: single boxes, every limit in {omitted, node, between nodes}
    if want("bbox"):
        def singles(gname, fv=None, dv=None):
            f, d, _ = G[gname]
            fvals = axis_values(f) if fv is None else fv
            dvals = axis_values(d) if dv is None else dv
            fint = intervals(f, fvals)
            dint = intervals(d, dvals, allow_equal=True)
            boxes = [[mkbox(a, b)] for a in fint for b in dint]
            boxes.sort(key=lambda s: nexplicit(s[0]))
            return boxes

        plan = [("g35", None, None), ("g44", None, None), ("g44z", coarse_vals(G["g44z"][0]), None), ("g35u", coarse_vals(G["g35u"][0]), None)]
        if thorough:
            plan += [("g58", None, None), ("g44z", None, None)]
        else:
            d58 = G["g58"][1]
            plan += [("g58", None, axis_values(d58, node_idx=(0, 1, 4, 7), gap_idx=(0, 3, 6)))]
        for gname, fv, dv in plan:
            bx = singles(gname, fv, dv)
            for k, ch in enumerate(chunks(bx, 250)):
                items.append(dict(op="bbox", name="single", gname=gname, grid=G[gname], seed=seed, sets=ch, sample=(k == 1 and gname == "g44"), batch=(k % 2 == 0)))

        # pairs: coarse alphabet {omitted, n1, mid(n1,n2), n2} on both axes of g44 (all 4 relations per axis: apart, touching at a
        # node, touching between nodes, overlapping)
        def box_alphabet(gname, fvals, dvals, dint_filter=None):
            f, d, _ = G[gname]
            fint = intervals(f, fvals)
            dint = [x for x in intervals(d, dvals, allow_equal=True) if not (x[0] is not None and x[0] == x[1] and kind_of(x[0], d) == "between")]
            if dint_filter:
                dint = [x for x in dint if dint_filter(x)]
            return [mkbox(a, b) for a in fint for b in dint]

        for gname in (("g44", "g44z") if thorough else ("g44",)):
            f, d, _ = G[gname]
            # single-row (dmin == dmax) boxes are part of the pair alphabet: inside another box they overlap it, on its edge they touch
            A = box_alphabet(gname, coarse_vals(f), coarse_vals(d), None)
            # unordered pairs; every other one is passed in reverse order (the order only decides the part index)
            pairs = [[a, b] if n % 2 == 0 else [b, a] for n, (a, b) in enumerate(itertools.combinations(A, 2))]
            pairs.sort(key=lambda s: sum(nexplicit(b) for b in s))
            for k, ch in enumerate(chunks(pairs, 400)):
                items.append(dict(op="bbox", name="pair", gname=gname, grid=G[gname], seed=seed, sets=ch, sample=(k == 3), batch=(k % 2 == 0)))
        # quarter-point family: positive-area overlap that holds no bin (either outcome allowed), touching between nodes
        f, d, _ = G["g44"]
        s = np.sort(f)
        q = [float(s[1]), float(s[1] + (s[2] - s[1]) / 4.0), float(s[1] + 3 * (s[2] - s[1]) / 4.0), float(s[2])]
        sd = np.sort(d)
        md = float((sd[1] + sd[2]) / 2.0)
        Aq = [mkbox(a, b) for a in intervals(f, q) for b in [(None, None), (None, md), (md, None)]]
        pairs = [[a, b] for a, b in itertools.combinations(Aq, 2)]
        for k, ch in enumerate(chunks(pairs, 400)):
            items.append(dict(op="bbox", name="pair-quarter-points", gname="g44", grid=G["g44"], seed=seed, sets=ch, batch=False))
        # triples on a coarser alphabet
        fi3 = [(None, None), (None, float(s[1])), (None, (float(s[1]) + float(s[2])) / 2), ((float(s[1]) + float(s[2])) / 2, None), (float(s[2]), None), (float(s[1]), float(s[2]))]
        di3 = [(None, None), (None, float(sd[1])), (None, md), (md, None), (float(sd[2]), None)] + ([(float(sd[1]), float(sd[2]))] if thorough else [])
        A3 = [mkbox(a, b) for a in fi3 for b in di3]
        triples = [list(t) for t in itertools.combinations(A3, 3)]
        triples.sort(key=lambda s_: sum(nexplicit(b) for b in s_))
        for k, ch in enumerate(chunks(triples, 500)):
            items.append(dict(op="bbox", name="triple", gname="g44", grid=G["g44"], seed=seed, sets=ch, sample=(k == 2), batch=False))
    # ---- split / stats
    if want("split"):
        def limits(gname, fv, dv):
            f, d, _ = G[gname]
            fint = intervals(f, fv, allow_equal_one_omitted=True)
            dint = intervals(d, dv, allow_equal_one_omitted=True)
            L = [(a[0], a[1], b[0], b[1]) for a in fint for b in dint]
            L.sort(key=lambda t: sum(x is not None for x in t))
            return L

        plan = [("g35", axis_values(G["g35"][0], quarters=True), axis_values(G["g35"][1])),
                ("g44", axis_values(G["g44"][0], quarters=thorough), axis_values(G["g44"][1])),
                ("g44z", coarse_vals(G["g44z"][0]), axis_values(G["g44z"][1]))]
        if thorough:
            plan.append(("g58", axis_values(G["g58"][0]), axis_values(G["g58"][1])))
        else:
            plan.append(("g58", axis_values(G["g58"][0]), axis_values(G["g58"][1], node_idx=(0, 1, 4, 7), gap_idx=(0, 3, 6))))
        for gname, fv, dv in plan:
            for k, ch in enumerate(chunks(limits(gname, fv, dv), 250)):
                items.append(dict(op="split", name=gname, gname=gname, grid=G[gname], seed=seed, limits=ch, stats=False, sample=(k == 1 and gname == "g44"),
                                  layout="time_site" if k % 2 else "site"))
        # unsorted stored directions: frequency limits only change nothing in the direction order; direction limits sort
        f, d, _ = G["g35u"]
        for k, ch in enumerate(chunks(limits("g35u", coarse_vals(f) + [float(f[0] + (f[1] - f[0]) / 2)], axis_values(d, node_idx=(0, 2, 4), gap_idx=(1, 3))), 250)):
            items.append(dict(op="split", name="g35u", gname="g35u", grid=G["g35u"], seed=seed, limits=ch, stats=False))
    if want("stats"):
        def limits2(gname, fv, dv):
            f, d, _ = G[gname]
            fint = intervals(f, fv, allow_equal_one_omitted=False)
            dint = intervals(d, dv, allow_equal_one_omitted=True)
            L = [(a[0], a[1], b[0], b[1]) for a in fint for b in dint]
            L.sort(key=lambda t: sum(x is not None for x in t))
            return L

        f, d, _ = G["g35"]
        sd = np.sort(d)
        plan = [("g35", axis_values(f), axis_values(d) if thorough else [float(sd[1]), float((sd[2] + sd[3]) / 2), float(sd[3])]),
                ("g44z", coarse_vals(G["g44z"][0]) if thorough else coarse_vals(G["g44z"][0])[1:2], axis_values(G["g44z"][1]))]
        for gname, fv, dv in plan:
            for k, ch in enumerate(chunks(limits2(gname, fv, dv), 20)):
                items.append(dict(op="split", name=gname, gname=gname, grid=G[gname], seed=seed, limits=ch, stats=True, sample=(k == 1 and gname == "g35")))
    # ---- PTM5
    if want("ptm5"):
        for gname in ("g44", "g35", "g58", "g35u", "g44z"):
            f = G[gname][0]
            items.append(dict(op="ptm5", gname=gname, grid=G[gname], seed=seed, cuts=axis_values(f, quarters=True), sample=(gname == "g58")))
    return items


def run(rep, tier, seed, parts=None):
    common.load_wavespectra()
    rep.extra["tier_note"] = ("thorough: full direction alphabet on 5x8, degenerate boxes in the pair alphabet, pairs also on the 0-deg grid, 36-box triple alphabet, "
                              "quarter points in split on 4x4, larger wind/depth/age-factor alphabets") if tier == "thorough" else "quick"
    rep.rule = (
        "grids 4x4, 5x8, 3x5 (non-uniform frequencies with one narrow pair, first direction 5/7.5/2.5 deg by seed), a 4x4 grid starting at 0 deg "
        "and a 3x5 grid with rotated stored directions; 5 spectra per grid (distinct value in every bin, with few / many zeros, scaled, all-zero; "
        "float32 on the 3x5 grid). PTM4: wspd{0,5,10,25} x wdir{0,45,200,359} x dpt{3,30,3000} x agefac{1,1.7} as scalar arguments and as per-position "
        "(time,site) fields, plus one position per (bin, depth, agefac) with wspd = celerity/agefac and wdir = the bin's direction. bbox: every single box "
        "with every limit in {omitted, node, midpoint} (reduced direction alphabet on 5x8 in the quick tier), every pair of boxes over "
        "{omitted, n1, mid(n1,n2), n2}^4 on 4x4, pairs with 1/4 and 3/4 points, every triple of a 30-box alphabet; each set classified by the reference. "
        "split: every (fmin,fmax,dmin,dmax) from {None, nodes, midpoints (and quarter points on 3x5)}; stats(limits) vs stats of split on reduced "
        "alphabets. PTM5: every cutoff at a node, midpoint and quarter point, interpolate on/off. Non-trivial: PTM4 position with both parts non-empty "
        "(or a bin exactly on the boundary), box set where box and complement are both non-empty or that must be rejected, split that removes or "
        "inserts something, PTM5 cutoff inside the range.")
    rep.assumptions = [
        "celerity() is taken from the library (checked against the dispersion relation by C01)",
        "PTM4 bins whose celerity is within 1e-9 (relative) of the wind component are don't-care for membership unless equality is exact in IEEE arithmetic "
        "(direction == wdir and agefac*wspd == celerity bitwise), where the statement pins 'wind sea'; disjointness and exact sum are always required",
        "box sets that share a bin without positive-area overlap (touching at a node) carry no requirement; sets with positive-area overlap holding no bin may be rejected or split",
        "ptm5: at the inserted cutoff frequency 'the input' is the linear interpolation between the neighbouring grid frequencies; variance of the factor clause uses the library's "
        "rectangle rule with tail (C01)",
        "cutoffs closer than 1e-10 Hz to a grid frequency without being equal are not enumerated (don't-care)",
    ]
    items = build_items(tier, seed, parts)
    for res in common.pmap(dispatch, items):
        rep.merge(res)
    rep.extra["work_items"] = len(items)
    rep.extra["grids"] = {k: dict(freq=v[0], dir=v[1], dtype=v[2]) for k, v in grids(seed).items()}
