"""Regenerates /verif/MANIFEST.json from the table below: python -m mc.manifest"""
import json
import os

VERIF = os.path.dirname(os.path.dirname(os.path.abspath(__file__)))
PY = "/venv/bin/python"

# id -> (category, engine, technique, text, note, design_ref)
CHECKS = {
    "C01": ("exploration", "bex", "bounded exhaustive enumeration of inputs on the real code vs a bin-by-bin reference model",
            "Every assignment of a small value alphabet to every bin of every small grid (full products up to 8/9 cells, complete "
            "structured families to 40 cells) x grid families x layouts x dtypes is run through the real accessor and compared with "
            "an independent plain-loop evaluation of each defining integral; bounded-exhaustive, not sampled.",
            "Values outside the alphabets and grids beyond the cell bound are not covered; integrals are linear in E so the impulse "
            "basis+pairs decide them per grid. dm accepts either moment convention consistently. numpy/xarray are trusted.",
            "3 C01"),
}

PENDING = {
}


def main():
    props = [json.loads(l) for l in open(os.path.join(VERIF, "properties.jsonl"))]
    checks = []
    na = []
    for p in props:
        pid = p["id"]
        if pid in CHECKS:
            cat, eng, tech, text, note, ref = CHECKS[pid]
            checks.append({
                "property_id": pid,
                "quick_cmd": "%s -m mc.check %s --tier quick" % (PY, pid),
                "thorough_cmd": "%s -m mc.check %s --tier thorough" % (PY, pid),
                "evidence_file": "/verif/evidence/%s.json" % pid,
                "replay_cmd_template": "%s -m mc.check %s --replay {path}" % (PY, pid),
                "engine": eng,
                "level_claimed": {"category": cat, "text": text, "design_ref": "DESIGN.md section " + ref},
                "level_note": note,
                "technique": tech,
            })
        else:
            na.append({"property_id": pid, "reason": PENDING.get(pid, "check not built yet in this session (planned; see DESIGN.md section 3)")})
    man = {
        "version": 1,
        "setup_cmd": "cd /verif && %s -m mc.setup" % PY,
        "hooks": {
            "guard": "WAVESPECTRA_VERIF",
            "enable": "no hooks are needed: every seam used is public API, sys.settrace, dask scheduler callbacks or the C function compiled into a driver; checks import the sources from VERIF_REPO (default /repo) and rebuild the C extension from the working tree",
            "baseline_off_cmd": "cd /repo && /venv/bin/python -m pytest -ra -q -p no:cacheprovider --timeout=900 --continue-on-collection-errors",
            "source_commits": [],
            "add_only": True,
        },
        "engines": [
            {"name": "bex", "path": "mc/gen.py", "serves_properties": ["C01", "C02", "C03", "C05", "C06", "C08", "C09", "C10", "C14", "C15", "C16", "C20"],
             "kind_free_text": "bounded-exhaustive input explorer: complete enumeration of small grids x value alphabets x parameter menus through the real API, sharded over processes"},
            {"name": "hist", "path": "mc/hist.py", "serves_properties": ["C17", "C18", "C19"], "kind_free_text": "operation-history explorer (all sequences to depth d, prefix replay on fresh objects, fresh-process reference)"},
            {"name": "tasksched", "path": "mc/tasksched.py", "serves_properties": ["C07"], "kind_free_text": "controlled dask scheduler enumerating task orders of the real graphs"},
            {"name": "threadsched", "path": "mc/threadsched.py", "serves_properties": ["C07"], "kind_free_text": "sys.settrace baton scheduler enumerating 2-thread interleavings up to a preemption bound"},
            {"name": "cdrv", "path": "mc/cdrv/driver.c", "serves_properties": ["C04", "C20"], "kind_free_text": "C driver enumerating grids/spectra/levels against specpart.c under ASan+UBSan with a flood-fill oracle"},
            {"name": "fmt", "path": "mc/fmt.py", "serves_properties": ["C11", "C12", "C13"], "kind_free_text": "independent reference encoders/decoders of the file formats fed with enumerated contents"},
        ],
        "checks": checks,
        "not_applicable": na,
        "notes": "All checks: cwd=/verif, honour VERIF_SEED / VERIF_TIER / VERIF_REPO; evidence is rewritten on every run; known findings in /verif/known_findings.json.",
    }
    with open(os.path.join(VERIF, "MANIFEST.json"), "w") as f:
        json.dump(man, f, indent=1)
    print("MANIFEST.json: %d checks, %d not_applicable" % (len(checks), len(na)))


if __name__ == "__main__":
    main()
