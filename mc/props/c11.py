"""C11 - write -> read returns the same spectra (bounded-exhaustive datasets x format pairs, E6 + E1).

Every dataset of a finite, fully enumerated family (times x layouts x spectral grids x direction orders x per-spectrum
magnitude classes x side variables x dtype) is written with every format writer under every supported option
(plain/.gz, ntime chunking, packed/unpacked, both netCDF readers) and read back with the matching reader.  The result is
compared position by position with the *written arrays* (never with a second library call) at the resolution that follows
from the writer's format strings.
"""
from __future__ import annotations

import itertools
import math
import os
import shutil
import tempfile

import numpy as np

from mc import common
from mc.common import Violation

PROP = "C11"
LEVEL = "exploration"

# ---------------------------------------------------------------------------------------------
# alphabets (VERIF_SEED only selects which finite variant is enumerated completely)
# ---------------------------------------------------------------------------------------------
CLASSES0 = ["one", "zero", "big", "nan", "tiny", "mixed"]
FREQS = [  # every table straddles 0.125 Hz (default fcut of the Octopus writer) for nf = 2 and 3
    [0.04118, 0.1012345, 0.25],
    [0.05, 0.1, 0.2],
    [0.0418, 0.11, 0.3456789],
    [0.0625, 0.12, 0.4],
    [0.03, 0.0912345, 0.5],
]
DIR_START = [7.5, 3.25, 11.0, 0.5, 22.5]
DIR_START_WHOLE = [7.0, 3.0, 11.0, 1.0, 22.0]
TIMES = ["2020-02-28T23:59:59", "2020-02-29T00:00:00", "2021-12-31T12:30:01"]
SITE_LON = [170.5, -70.123456, 359.654321, 0.000001]
SITE_LAT = [-45.5, 30.0, -89.999999, 12.345678]
SITE_ID = [5, 2, 9, 4]
GRID_LAT = [-10.25, -9.0, 3.123456]
GRID_LON = [100.5, 101.0, 359.000001]

ORDERS = ("sorted", "rotated", "reversed", "shuffled")
SITE_LAYOUTS = [("site", 1), ("site", 2), ("site", 3)]
GRID_LAYOUTS = [("grid", (1, 1)), ("grid", (1, 2)), ("grid", (2, 1)), ("grid", (2, 3)), ("grid", (3, 2))]


def variant(seed):
    s = int(seed) % 5
    r = int(seed) % 6
    return dict(seed=int(seed), freqs=FREQS[s], dstart=DIR_START[s], dstart_whole=DIR_START_WHOLE[s],
                classes=CLASSES0[r:] + CLASSES0[:r])


# ---------------------------------------------------------------------------------------------
# reference pieces (plain loops)
# ---------------------------------------------------------------------------------------------
def ref_df(f):
    n = len(f)
    if n == 1:
        return np.array([1.0])
    df = np.empty(n)
    df[0] = f[1] - f[0]
    df[-1] = f[-1] - f[-2]
    for i in range(1, n - 1):
        df[i] = (f[i + 1] - f[i - 1]) / 2.0
    return df


def circ_diff(a, b):
    d = np.abs((np.asarray(a, dtype=float) - np.asarray(b, dtype=float)) % 360.0)
    return np.minimum(d, 360.0 - d)


def directions(nd, order, start):
    """Evenly spaced over the circle (so dd = 360/nd whatever the storage order)."""
    step = 360.0 / nd
    if order == "sorted":  # starts at 0 (funwave turns a 0 into 360, ww3 180 -> 0)
        return [k * step for k in range(nd)]
    base = [start + k * step for k in range(nd)]
    if order == "rotated":  # ascending but starting half way round: [s+180, ..., s, ...]
        h = nd // 2
        return base[h:] + base[:h]
    if order == "reversed":
        return base[::-1]
    if order == "shuffled":  # first two stored directions are NOT neighbours on the circle
        idx = list(range(0, nd, 2)) + list(range(1, nd, 2))
        return [base[i] for i in idx]
    raise ValueError(order)


def spectrum(cls, k, nf, nd, big=1e4):
    """Spectrum number k of a dataset: every bin differs from the same bin of every other non-degenerate spectrum."""
    if cls == "zero":
        return np.zeros((nf, nd))
    if cls == "nan":
        return np.full((nf, nd), np.nan)
    pat = np.empty((nf, nd))
    for i in range(nf):
        for j in range(nd):
            pat[i, j] = 0.25 + 0.75 * ((3 * i + 5 * j + 7 * k + i * j) % 17) / 17.0
    if cls == "one":
        return pat
    if cls == "plain":
        return pat
    if cls == "tiny":
        return 1e-8 * pat
    if cls == "big":
        return big * pat
    if cls == "mixed":
        nb = nf * nd
        out = np.empty((nf, nd))
        for i in range(nf):
            for j in range(nd):
                r = ((i * nd + j) * 5 + k) % nb  # a permutation of the bins (5 is coprime with 8,12,18)
                out[i, j] = 50.0 * pat[i, j] * 10.0 ** (-10.0 * r / (nb - 1))
        return out
    raise ValueError(cls)


def class_of(case, k):
    if case["off"] == "plain":
        return "plain"
    cl = variant(case.get("seed", 0))["classes"]
    return cl[(k + int(case["off"])) % len(cl)]


def expected(case):
    """The written content as plain arrays (the oracle's side of the comparison)."""
    v = variant(case.get("seed", 0))
    nt, nf, nd = case["nt"], case["nf"], case["nd"]
    kind = case["layout"]
    whole = case["fmt"] == "octopus"
    f = list(v["freqs"]) if nf == 3 else [v["freqs"][1], v["freqs"][2]]
    d = directions(nd, case["dirorder"], v["dstart_whole"] if whole else v["dstart"])
    if kind == "site":
        n = case["n"]
        lon = [SITE_LON[i] for i in range(n)]
        lat = [SITE_LAT[i] for i in range(n)]
        if case.get("dup"):  # co-located stations: two sites at one position (n=2); one more on the same latitude (n=3)
            lon = [SITE_LON[i] for i in ([0, 0] if n == 2 else [0, 1, 1])]
            lat = [SITE_LAT[0]] * n
        npos = n
        glat = glon = None
    elif kind == "grid":
        nlat, nlon = case["n"]
        glat = GRID_LAT[:nlat]
        glon = GRID_LON[:nlon]
        if case.get("latdesc"):
            glat = glat[::-1]
        lat = [a for a in glat for _ in glon]
        lon = [b for _ in glat for b in glon]
        npos = nlat * nlon
    else:  # bare / wrapped single spectrum
        npos = 1
        lon, lat, glat, glon = [SITE_LON[0]], [SITE_LAT[0]], None, None
    E = np.empty((nt, npos, nf, nd))
    classes = []
    for it in range(nt):
        for ip in range(npos):
            k = it * npos + ip
            c = class_of(case, k)
            classes.append(c)
            E[it, ip] = spectrum(c, k, nf, nd, big=1e2 if case["fmt"] == "funwave" else 1e4)
    dtype = case.get("dtype", "float64")
    E = E.astype(dtype)
    if case.get("tsweep"):
        # a long record off every round raster: 10-minute steps from 23:40:07 on New Year's Eve, the last step irregular (+7 min 13 s)
        t0 = np.datetime64("2021-12-31T23:40:07", "ns")
        tt = t0 + np.arange(nt) * np.timedelta64(600, "s")
        tt[-1] = tt[-2] + np.timedelta64(433, "s")
    else:
        tt = np.array(TIMES[:nt], dtype="datetime64[ns]")
    return dict(times=tt, freq=np.array(f, dtype=float), dir=np.array(d, dtype=float),
                lon=np.array(lon), lat=np.array(lat), glat=glat, glon=glon, E=E, classes=classes, npos=npos,
                site=np.array(SITE_ID[:npos]) if kind == "site" else None)


def build(case, exp):
    """The xarray dataset in the wavespectra convention holding exactly `exp`."""
    import xarray as xr

    nt, nf, nd = case["nt"], case["nf"], case["nd"]
    kind = case["layout"]
    E = exp["E"]
    if kind == "site":
        ds = xr.Dataset({"efth": (("time", "site", "freq", "dir"), E.copy())},
                        coords={"time": exp["times"], "site": exp["site"], "freq": exp["freq"], "dir": exp["dir"]})
        ds["lon"] = (("site",), exp["lon"].copy())
        ds["lat"] = (("site",), exp["lat"].copy())
        sdims = ("time", "site")
        sshape = (nt, case["n"])
    elif kind == "grid":
        nlat, nlon = case["n"]
        ds = xr.Dataset({"efth": (("time", "lat", "lon", "freq", "dir"), E.reshape(nt, nlat, nlon, nf, nd).copy())},
                        coords={"time": exp["times"], "lat": np.array(exp["glat"]), "lon": np.array(exp["glon"]),
                                "freq": exp["freq"], "dir": exp["dir"]})
        sdims = ("time", "lat", "lon")
        sshape = (nt, nlat, nlon)
    elif kind == "wrapped":
        ds = xr.Dataset({"efth": (("time", "site", "freq", "dir"), E.copy())},
                        coords={"time": exp["times"], "site": [SITE_ID[0]], "freq": exp["freq"], "dir": exp["dir"]})
        sdims, sshape = None, None
    else:  # bare
        ds = xr.Dataset({"efth": (("freq", "dir"), E[0, 0].copy())}, coords={"freq": exp["freq"], "dir": exp["dir"]})
        sdims, sshape = None, None
    if case.get("extras") and sdims is not None:
        n = int(np.prod(sshape))
        ds["wspd"] = (sdims, (1.25 + 0.5 * np.arange(n)).reshape(sshape))
        ds["wdir"] = (sdims, ((37.0 + 101.0 * np.arange(n)) % 360.0).reshape(sshape))
        ds["dpt"] = (sdims, (12.5 + 3.0 * np.arange(n)).reshape(sshape))
    return ds


# ---------------------------------------------------------------------------------------------
# format table: writer / reader calls and the resolution implied by the writer's format strings
# ---------------------------------------------------------------------------------------------
EPS = 1e-9  # slack for decimal <-> binary representation only


def fmt_res(fmt):
    if fmt == "swan":  # AFREQ %11.5f, NDIR %11.4f, LONLAT %.6f, time %Y%m%d.%H%M%S
        return dict(f=0.5e-5, d=0.5e-4, xy=0.5e-6, t=1e-3)
    if fmt == "octopus":  # freq %8.7f, dir %0.0f, Latitude/Longitude %0.6f, CCYYMM,DDHHmm (whole minutes)
        return dict(f=0.5e-7, d=0.5, xy=0.5e-6, t=59.999)
    if fmt == "funwave":  # Freq %10.5f, Dire %10.3f
        return dict(f=0.5e-5, d=0.5e-3, xy=None, t=None)
    if fmt == "ww3":  # float64 variables; time in float64 days since 1990 -> ~1e-7 s
        return dict(f=1e-12, d=1e-9, xy=1e-12, t=1e-3)
    return dict(f=0.0, d=0.0, xy=0.0, t=1e-3)  # json / netcdf: binary or repr-exact


def ntime_rel(case, opts):
    n = opts.get("ntime")
    if n is None or n >= case["nt"]:
        return "one-chunk"
    return "chunks-even" if case["nt"] % n == 0 else "chunks-remainder"


def roundtrip(case, opts, ds, tmpdir):
    """Write with the real writer, read with the real reader; returns the loaded result dataset."""
    import wavespectra as ws

    fmt = case["fmt"]
    if fmt == "swan":
        p = os.path.join(tmpdir, "s.spec" + (".gz" if opts["gz"] else ""))
        ds.spec.to_swan(p, ntime=opts["ntime"])
        if opts.get("as_site") == "default":  # several stations read without as_site: still stations (they do not fill a lat x lon mesh)
            return ws.read_swan(p).load()
        return ws.read_swan(p, as_site=case["layout"] == "site").load()
    if fmt == "octopus":
        p = os.path.join(tmpdir, "o.oct" + (".gz" if opts["gz"] else ""))
        ds.spec.to_octopus(p, ntime=opts["ntime"])
        return ws.read_octopus(p).load()
    if fmt == "json":
        p = os.path.join(tmpdir, "j.json")
        ds.spec.to_json(p)
        return ws.read_json(p).load()
    if fmt == "netcdf":
        p = os.path.join(tmpdir, "n.nc")
        ds.spec.to_netcdf(p, ncformat="NETCDF3_64BIT", compress=False, packed=opts["packed"])
        r = getattr(ws, opts["reader"])(p)
        out = r.load()
        r.close()
        return out
    if fmt == "ww3":
        p = os.path.join(tmpdir, "w.nc")
        ds.spec.to_ww3(p)
        r = ws.read_ww3(p)
        out = r.load()
        r.close()
        return out
    if fmt == "funwave":
        p = os.path.join(tmpdir, "f.txt")
        ds.spec.to_funwave(p, clip=False)
        return ws.read_funwave(p).load()
    raise ValueError(fmt)


# ---------------------------------------------------------------------------------------------
# comparison
# ---------------------------------------------------------------------------------------------
def layout_pred(case):
    k = case["layout"]
    if k == "site":
        return "station" + (",co-located" if case.get("dup") else "")
    if k == "grid":
        nlat, nlon = case["n"]
        s = "grid,nlat>1,nlon>1" if (nlat > 1 and nlon > 1) else "grid,single-row-or-column"
        return s + (",lat-descending" if case.get("latdesc") else "")
    return k


def efth_tolerance(case, opts, exp, Eexp):
    """abs tolerance per bin in efth units, or None when the comparison is done in the format's own quantity."""
    fmt = case["fmt"]
    f32 = case.get("dtype", "float64") == "float32"
    A = np.abs(np.where(np.isfinite(Eexp), Eexp, 0.0))
    if fmt == "swan":
        # integer of spec/fac, fac = max/9998 printed %0.8E: half a unit of fac (+ 9998 * 5e-9 from the printed factor)
        mx = A.reshape(A.shape[0], A.shape[1], -1).max(axis=2)[:, :, None, None]
        fac = mx / 9998.0
        return fac * (0.5 + 1e-4 + (2e-3 if f32 else 0.0)) + 1e-300
    if fmt == "json":
        return np.zeros_like(A)
    if fmt == "netcdf":
        if opts.get("packed"):
            # float32 data are divided by the scale in float32 before rounding to int32: 2 ulp of the data on top
            return 0.5e-5 * (1 + 1e-6) + A * (2.4e-7 if f32 else 1e-12)
        return np.zeros_like(A)
    if fmt == "ww3":  # x R2D on write, x D2R on read, in the dtype of the data
        return A * (4e-7 if f32 else 1e-14)
    return None


def compare(case, opts, exp, R):
    """-> list of (clause, predicate, message). Only what the statement promises, at the format's resolution."""
    fmt = case["fmt"]
    res = fmt_res(fmt)
    out = []
    nt, nf, nd = case["nt"], case["nf"], case["nd"]
    lay = layout_pred(case)
    if "efth" not in R:
        return [("structure", lay, "no efth variable in the dataset read back: %s" % list(R.data_vars))]
    da = R["efth"]
    single = case["layout"] in ("bare", "wrapped")

    # ---- frequencies (by index) and directions (as a set mod 360; bins are matched by direction value)
    if "freq" not in da.dims or "dir" not in da.dims:
        return [("structure", lay, "efth read back has dims %s" % (da.dims,))]
    fr = np.asarray(R["freq"].values, dtype=float)
    dr = np.asarray(R["dir"].values, dtype=float)
    if fr.shape != (nf,) or np.any(np.abs(fr - exp["freq"]) > res["f"] * (1 + EPS) + 1e-12):
        out.append(("freq", "nf=%d" % nf, "frequencies written %s read %s (resolution %g)" % (exp["freq"].tolist(), fr.tolist(), res["f"])))
        if fr.shape != (nf,):
            return out
    dmap = None
    if dr.shape != (nd,):
        out.append(("dir", "dirorder=%s" % case["dirorder"], "directions written %s read %s" % (exp["dir"].tolist(), dr.tolist())))
        return out
    M = circ_diff(exp["dir"][:, None], dr[None, :]) <= res["d"] * (1 + EPS) + 1e-9
    if (M.sum(axis=0) == 1).all() and (M.sum(axis=1) == 1).all():
        dmap = M.argmax(axis=1)  # written bin j is read bin dmap[j]
    else:
        out.append(("dir", "dirorder=%s" % case["dirorder"], "directions written %s read %s (mod 360, resolution %g)" % (
            exp["dir"].tolist(), dr.tolist(), res["d"])))
        return out

    # ---- times
    if not single:
        if "time" not in da.dims:
            return out + [("structure", lay, "efth read back has dims %s (no time)" % (da.dims,))]
        tr = np.asarray(R["time"].values).astype("datetime64[ns]")
        if tr.shape != (nt,):
            out.append(("times", ntime_rel(case, opts), "%d times written, %d read back: %s" % (nt, tr.size, tr.astype("datetime64[s]").tolist())))
            return out
        dt = np.abs((tr - exp["times"]).astype("timedelta64[ns]").astype(np.int64)) / 1e9
        if np.any(dt > res["t"]):
            out.append(("times", ntime_rel(case, opts), "times written %s read %s" % (exp["times"].astype("datetime64[s]").tolist(), tr.tolist())))

    # ---- positions -> canonical array G[nt, npos, nf, nd] in written position order
    if single:
        extra = [x for x in da.dims if x not in ("freq", "dir")]
        if any(da.sizes[x] != 1 for x in extra):
            return out + [("structure", lay, "one spectrum written, efth read back has sizes %s" % dict(da.sizes))]
        G = np.asarray(da.transpose(*(extra + ["freq", "dir"])).values, dtype=float).reshape(1, 1, nf, nd)
    else:
        npos = exp["npos"]
        if "site" in da.dims:
            if da.sizes["site"] != npos:
                return out + [("positions", lay, "%d positions written, %d sites read back" % (npos, da.sizes["site"]))]
            G = np.asarray(da.transpose("time", "site", "freq", "dir").values, dtype=float)
            if "lon" not in R or "lat" not in R:
                return out + [("structure", lay, "no lon/lat in the dataset read back")]
            rlon = np.asarray(R["lon"].values, dtype=float).reshape(-1)
            rlat = np.asarray(R["lat"].values, dtype=float).reshape(-1)
            if rlon.shape != (npos,) or rlat.shape != (npos,):
                return out + [("positions", lay, "lon/lat read back have shapes %s %s" % (R["lon"].shape, R["lat"].shape))]
            if case["layout"] == "site":
                order = np.arange(npos)  # station files: position = index along site
            else:  # a grid written, sites read (octopus): match by coordinates
                order = _match_points(exp["lon"], exp["lat"], rlon, rlat, res["xy"])
                if order is None:
                    return out + [("positions", lay, "grid positions written lon %s lat %s, read lon %s lat %s" % (
                        exp["lon"].tolist(), exp["lat"].tolist(), rlon.tolist(), rlat.tolist()))]
            tolxy = res["xy"] * (1 + EPS) + 1e-12
            if np.any(np.abs(rlon[order] - exp["lon"]) > tolxy) or np.any(np.abs(rlat[order] - exp["lat"]) > tolxy):
                out.append(("positions", lay, "lon/lat written %s %s read %s %s" % (exp["lon"].tolist(), exp["lat"].tolist(), rlon.tolist(), rlat.tolist())))
            if case["layout"] == "site" and fmt in ("json", "netcdf", "ww3"):
                rs = np.asarray(R["site"].values)
                if rs.shape != (npos,) or np.any(rs != exp["site"]):
                    out.append(("site-labels", lay, "site labels written %s read %s" % (exp["site"].tolist(), rs.tolist())))
            G = G[:, order]
        elif "lat" in da.dims and "lon" in da.dims:
            if case["layout"] != "grid":
                return out + [("structure", lay, "stations written, grid read back: %s" % (da.dims,))]
            nlat, nlon = case["n"]
            rlat = np.asarray(R["lat"].values, dtype=float)
            rlon = np.asarray(R["lon"].values, dtype=float)
            ia = _match_axis(np.array(exp["glat"]), rlat, res["xy"])
            io = _match_axis(np.array(exp["glon"]), rlon, res["xy"])
            if ia is None or io is None:
                return out + [("positions", lay, "grid written lat %s lon %s, read lat %s lon %s" % (exp["glat"], exp["glon"], rlat.tolist(), rlon.tolist()))]
            G = np.asarray(da.transpose("time", "lat", "lon", "freq", "dir").values, dtype=float)
            G = G[:, ia][:, :, io].reshape(nt, nlat * nlon, nf, nd)
        else:
            return out + [("structure", lay, "efth read back has dims %s" % (da.dims,))]
    G = G[..., dmap]  # read bins in written direction order
    Eexp = np.asarray(exp["E"], dtype=float)
    if G.shape != Eexp.shape:
        return out + [("structure", lay, "efth read back has shape %s, written %s" % (G.shape, Eexp.shape))]

    # ---- energy densities, spectrum by spectrum
    tol = efth_tolerance(case, opts, exp, Eexp)
    if tol is not None:
        tol = np.broadcast_to(tol, Eexp.shape)
        got_q, exp_q = G, Eexp
    else:
        # octopus / funwave store E*df*dd (%8.7f) resp. sqrt(2*E*df*dd) (%12.8f): compare in that quantity,
        # rebuilt from what was read with the reference bandwidths of the *read* frequencies and dd = 360/nd
        dd = 360.0 / nd
        w_exp = (ref_df(exp["freq"]) * dd)[None, None, :, None]
        w_got = (ref_df(fr) * dd)[None, None, :, None]
        if fmt == "octopus":
            exp_q, got_q = Eexp * w_exp, G * w_got
            tol = np.broadcast_to(0.5e-7 * (1 + 1e-6) + np.abs(np.where(np.isfinite(exp_q), exp_q, 0)) * 1e-12, Eexp.shape)
        else:
            with np.errstate(invalid="ignore"):
                exp_q, got_q = np.sqrt(2 * Eexp * w_exp), np.sqrt(2 * G * w_got)
            neg = G < 0
            if neg.any():
                got_q = np.where(neg, -1.0, got_q)
            tol = np.broadcast_to(0.5e-8 * (1 + 1e-6) + np.abs(np.where(np.isfinite(exp_q), exp_q, 0)) * 1e-12, Eexp.shape)
    nT, nP = Eexp.shape[0], Eexp.shape[1]
    classes = exp["classes"]
    degenerate = ("nan", "zero")

    def matches(g, e, t, cls):
        if cls == "nan":
            return bool(np.isnan(g).all())
        with np.errstate(invalid="ignore"):
            return bool((np.abs(g - e) <= t).all())

    failing = [(it, ip) for it in range(nT) for ip in range(nP)
               if not matches(got_q[it, ip], exp_q[it, ip], tol[it, ip], classes[it * nP + ip])]
    if not failing:
        return out
    nondeg = [(it, ip) for it in range(nT) for ip in range(nP) if classes[it * nP + ip] not in degenerate]
    fail_nd = [x for x in failing if classes[x[0] * nP + x[1]] not in degenerate]
    base_pred = []
    if case.get("dtype", "float64") != "float64":
        base_pred.append(case["dtype"])
    if opts.get("packed"):
        base_pred.append("packed")
    seen = set()
    moved_pred = None
    # non-degenerate spectra first: a permutation of positions is recognised on them and then also explains a zero <-> missing swap
    failing.sort(key=lambda x: classes[x[0] * nP + x[1]] in degenerate)
    for (it, ip) in failing:
        cls = classes[it * nP + ip]
        e, g, t = exp_q[it, ip], got_q[it, ip], tol[it, ip]
        clause = "missing" if cls == "nan" else ("zero" if cls == "zero" else "efth-value")
        pred = (hazards(case) if clause == "efth-value" else []) + base_pred
        if clause == "efth-value" and len(fail_nd) < len(nondeg):
            pred.append("class=" + "+".join(sorted(set(classes[a * nP + b] for a, b in fail_nd))))
        msg = "spectrum time %d position %d (class %s): written %s read %s (tolerance %s)" % (
            it, ip, cls, np.round(Eexp[it, ip], 12).tolist(), G[it, ip].tolist(), float(np.max(t)))
        # a permutation of positions? (this spectrum arrived somewhere else, or somebody else's spectrum arrived here)
        moved = None
        for it2 in range(nT):
            for ip2 in range(nP):
                if (it2, ip2) == (it, ip):
                    continue
                if cls not in degenerate and matches(got_q[it2, ip2], e, t, cls):
                    moved = ((it, ip), (it2, ip2))  # this spectrum arrived over there
                    break
                c2 = classes[it2 * nP + ip2]
                if c2 not in degenerate and matches(g, exp_q[it2, ip2], tol[it2, ip2], c2):
                    moved = ((it2, ip2), (it, ip))  # somebody else's spectrum arrived here
                    break
            if moved is not None:
                break
        if moved is not None:
            (a0, b0), (a1, b1) = moved
            clause = "efth-position"
            pred = [lay] if a0 == a1 else [lay, "across-times"]
            moved_pred = moved_pred or pred
            msg = "spectrum written at time %d position %d (lon %s lat %s) came back at time %d position %d (lon %s lat %s)" % (
                a0, b0, exp["lon"][b0], exp["lat"][b0], a1, b1, exp["lon"][b1], exp["lat"][b1])
        elif moved_pred is not None and cls in degenerate and (np.isnan(G[it, ip]).all() or (G[it, ip] == 0).all()):
            clause, pred = "efth-position", moved_pred
        pred = ",".join(pred) if pred else "any-spectrum"
        if (clause, pred) not in seen:
            seen.add((clause, pred))
            out.append((clause, pred, msg))
    return out


def hazards(case):
    """Input predicates that matter to formats storing band energies (they need the direction bin width)."""
    if case["fmt"] not in ("octopus", "funwave"):
        return []
    v = variant(case.get("seed", 0))
    d = directions(case["nd"], case["dirorder"], v["dstart_whole"] if case["fmt"] == "octopus" else v["dstart"])
    step = 360.0 / case["nd"]
    h = []
    if case["fmt"] == "octopus":  # (the funwave writer re-orders the directions into its own convention first)
        if abs(float(circ_diff(d[0], d[1])) - step) > 1e-9:
            h.append("first-two-stored-dirs-not-neighbours")
        elif abs(abs(d[1] - d[0]) - step) > 1e-9:
            h.append("first-two-stored-dirs-across-360")
    if case["fmt"] == "funwave" and sum(1 for x in d if 0.0 < x % 360.0 < 90.0) == 1:
        h.append("one-dir-strictly-inside-(0,90)")
    return h


def _match_axis(written, read, tol):
    """index array ia with read[ia[i]] == written[i] within tol, bijective; None otherwise."""
    if read.shape != written.shape:
        return None
    M = np.abs(written[:, None] - read[None, :]) <= tol * (1 + EPS) + 1e-12
    if not ((M.sum(axis=0) == 1).all() and (M.sum(axis=1) == 1).all()):
        return None
    return M.argmax(axis=1)


def _match_points(wlon, wlat, rlon, rlat, tol):
    if rlon.shape != wlon.shape:
        return None
    t = tol * (1 + EPS) + 1e-12
    M = (np.abs(wlon[:, None] - rlon[None, :]) <= t) & (np.abs(wlat[:, None] - rlat[None, :]) <= t)
    if not ((M.sum(axis=0) == 1).all() and (M.sum(axis=1) == 1).all()):
        return None
    return M.argmax(axis=1)


# ---------------------------------------------------------------------------------------------
# one case = one dataset x one format x one option set
# ---------------------------------------------------------------------------------------------
PAIR = {"swan": "to_swan->read_swan", "octopus": "to_octopus->read_octopus", "json": "to_json->read_json",
        "netcdf": "to_netcdf->read_netcdf", "ww3": "to_ww3->read_ww3", "funwave": "to_funwave->read_funwave"}


def opt_pred(case, opts):
    p = []
    if opts.get("gz"):
        p.append("gz")
    if "ntime" in opts and ntime_rel(case, opts) != "one-chunk":
        p.append(ntime_rel(case, opts))
    if opts.get("packed"):
        p.append("compress=False,packed=True")
    if opts.get("as_site") == "default":
        p.append("as_site-omitted")
    if opts.get("reader") == "read_wavespectra":
        p.append("read_wavespectra")
    return ",".join(p) if p else "default-options"


def baseline_of(case):
    b = dict(case)
    b.update(nf=2, nd=4, dirorder="sorted", off="plain", extras=False, dtype="float64")
    b.pop("latdesc", None)
    if case["layout"] in ("site", "grid"):
        b.update(layout="site", n=1)
    elif case["layout"] == "wrapped":
        b.update(layout="bare")
    return b


_TMP_PARENT = None  # set by run(): one parent directory (outside /repo and /verif), removed when the run ends


def _exec(case, opts):
    """-> ('ok', R) | ('raise', stage, exc)"""
    common.load_wavespectra()
    exp = expected(case)
    ds = build(case, exp)
    tmpdir = tempfile.mkdtemp(prefix="c11_", dir=_TMP_PARENT)
    try:
        try:
            R = roundtrip(case, opts, ds, tmpdir)
        except Exception as e:  # noqa
            import traceback

            tb = traceback.extract_tb(e.__traceback__)
            stage = "roundtrip"
            for fr in tb:
                fn = fr.filename.replace("\\", "/")
                if "/wavespectra/output/" in fn or "/wavespectra/specdataset" in fn:
                    stage = "writer"
                if "/wavespectra/input/" in fn:
                    stage = "reader"
                    break
            if stage == "roundtrip":
                for fr in tb:
                    if fr.name.startswith("to_"):
                        stage = "writer"
                    if fr.name.startswith("read_"):
                        stage = "reader"
            where = ""
            for fr in reversed(tb):
                if "/wavespectra/" in fr.filename.replace("\\", "/"):
                    where = "%s:%d" % (fr.filename.split("/wavespectra/")[-1], fr.lineno)
                    break
            return ("raise", stage, e, where), exp
        return ("ok", R), exp
    finally:
        shutil.rmtree(tmpdir, ignore_errors=True)


_RAISE_MEMO = {}


def _raises(case, opts, en):
    key = (repr(sorted(case.items())), repr(sorted(opts.items())))
    if key not in _RAISE_MEMO:
        r, _ = _exec(case, opts)
        _RAISE_MEMO[key] = type(r[2]).__name__ if r[0] == "raise" else None
    return _RAISE_MEMO[key] == en


def default_opts(fmt):
    if fmt in ("swan", "octopus"):
        return dict(gz=False, ntime=None)
    if fmt == "netcdf":
        return dict(packed=False, reader="read_netcdf")
    return {}


def raise_pred(case, opts, en, exp):
    """Smallest description of what is needed for this exception: options first, then the dataset (a few memoised probes)."""
    dflt = default_opts(case["fmt"])
    o = dict(opts)
    for k in sorted(o):
        if o[k] != dflt[k]:
            trial = dict(o, **{k: dflt[k]})
            if _raises(case, trial, en):
                o = trial
    pred = [opt_pred(case, o)]
    base = baseline_of(case)
    if base == case or _raises(base, o, en):
        return ",".join(pred)
    b2 = dict(base, layout=case["layout"], n=case["n"])
    if case.get("latdesc"):
        b2["latdesc"] = True
    if _raises(b2, o, en):
        return ",".join(pred + [layout_pred(case)])
    flags = [layout_pred(case), "dirorder=%s" % case["dirorder"]]
    cl = set(exp["classes"])
    if "nan" in cl:
        flags.append("has-nan-spectrum")
    if "zero" in cl:
        flags.append("has-zero-spectrum")
    if case.get("extras"):
        flags.append("wind+depth")
    if case.get("dtype", "float64") != "float64":
        flags.append(case["dtype"])
    return ",".join(pred + flags)


def run_case(case, opts):
    """-> list[Violation] for one (dataset, format, options)."""
    fmt = case["fmt"]
    full = dict(case, opts=dict(opts))
    res, exp = _exec(case, opts)
    vs = []
    if res[0] == "raise":
        _, stage, e, where = res
        en = type(e).__name__
        vs.append(Violation(PROP, "%s|%s-raises:%s|%s" % (PAIR[fmt], stage, en, raise_pred(case, opts, en, exp)),
                            "%s raised %s: %s (at %s)" % (stage, en, str(e)[:200], where), full))
        return vs
    R = res[1]
    found = compare(case, opts, exp, R)
    if found and case.get("dtype", "float64") != "float64":
        # "float32" stays in the predicate only when the float64 twin of this very case does not fail the same way
        twin = dict(case, dtype="float64")
        tres, texp = _exec(twin, opts)
        tset = set((c, p) for c, p, _ in compare(twin, opts, texp, tres[1])) if tres[0] == "ok" else set()
        strip = lambda p: ",".join(x for x in p.split(",") if x != case["dtype"]) or "any-spectrum"
        found = [(c, strip(p), m) if (c, strip(p)) in tset else (c, p, m) for c, p, m in found]
    for clause, pred, msg in found:
        vs.append(Violation(PROP, "%s|%s|%s" % (PAIR[fmt], clause, pred), msg + "  [options %s]" % opts, full))
    return vs


def replay(case):
    case = dict(case)
    opts = case.pop("opts", {})
    if isinstance(case.get("n"), list):
        case["n"] = tuple(case["n"])
    return run_case(case, opts)


# ---------------------------------------------------------------------------------------------
# enumeration
# ---------------------------------------------------------------------------------------------
def class_offsets(N, quick):
    """Offsets into the class cycle such that every class occurs in the family of datasets of this shape."""
    if not quick:
        return list(range(6))
    return list(range(0, 6, N)) if N < 6 else [0, 3]


def datasets(tier, seed):
    """Dataset descriptions (without fmt) for the multi-position formats."""
    quick = tier == "quick"
    orders = ORDERS
    site_l = list(SITE_LAYOUTS) + ([] if quick else [("site", 4)])
    grid_l = list(GRID_LAYOUTS) + ([] if quick else [("grid", (2, 2)), ("grid", (3, 3))])
    out = []
    for (kind, n) in site_l + grid_l:
        npos = n if kind == "site" else n[0] * n[1]
        for nt in (1, 2, 3):
            offs = class_offsets(nt * npos, quick)
            for nf in (2, 3):
                for nd in (4, 6):
                    for order in orders:
                        for off in offs:
                            for extras in (False, True):
                                d = dict(layout=kind, n=n, nt=nt, nf=nf, nd=nd, dirorder=order, off=off, extras=extras,
                                         dtype="float64", seed=seed)
                                out.append(d)
                                if kind == "grid" and n[0] > 1 and (not quick or (nf == 2 and nd == 4 and not extras)):
                                    out.append(dict(d, latdesc=True))
                                if kind == "site" and n in (2, 3) and (not quick or (nf == 2 and nd == 4 and not extras)):
                                    out.append(dict(d, dup=True))
            # float32 data: a smaller complete sub-product
            if nt == 2 or not quick:
                for nd in ((4,) if quick else (4, 6)):
                    for order in (("sorted",) if quick else orders):
                        for off in offs:
                            out.append(dict(layout=kind, n=n, nt=nt, nf=2, nd=nd, dirorder=order, off=off, extras=False,
                                            dtype="float32", seed=seed))
    # long records (150 time stamps with odd seconds, across a year boundary): time encodings of every format
    for (kind, n) in (("site", 1), ("site", 2)):
        out.append(dict(layout=kind, n=n, nt=150, nf=2, nd=4, dirorder="sorted", off="plain", extras=False, dtype="float64", seed=seed, tsweep=True))
    # fine direction grids (1 and 1.5 degree bins: more values per frequency row than any fixed line width a writer may assume)
    for (kind, n) in (("site", 1), ("site", 2), ("grid", (1, 2))):
        for nt in (1, 2):
            for nd in (240, 360):
                for order in (("sorted", "rotated") if quick else orders):
                    for off in class_offsets(nt * (n if kind == "site" else 2), True)[:2]:
                        out.append(dict(layout=kind, n=n, nt=nt, nf=2, nd=nd, dirorder=order, off=off, extras=False, dtype="float64", seed=seed))
    return out


def octopus_datasets(tier, seed):
    """One site (as a station or a 1x1 grid), whole-degree directions. The writer is ~0.4 s per file (it computes a dozen
    integrated parameters per record), so the quick tier uses a smaller complete product."""
    quick = tier == "quick"
    out = []
    if quick:
        for nt in (1, 2, 3):
            offs = class_offsets(nt, True)
            for (nf, nd) in ((2, 4), (3, 6)):
                for order in ORDERS:
                    for off in offs:
                        for extras in (False, True):
                            out.append(dict(layout="site", n=1, nt=nt, nf=nf, nd=nd, dirorder=order, off=off, extras=extras,
                                            dtype="float64", seed=seed))
        for off in class_offsets(2, True):
            out.append(dict(layout="grid", n=(1, 1), nt=2, nf=2, nd=4, dirorder="sorted", off=off, extras=False, dtype="float64", seed=seed))
            out.append(dict(layout="site", n=1, nt=2, nf=2, nd=4, dirorder="sorted", off=off, extras=False, dtype="float32", seed=seed))
        return out
    for d in datasets(tier, seed):
        if ((d["layout"] == "site" and d["n"] == 1) or (d["layout"] == "grid" and tuple(d["n"]) == (1, 1))) and d["nd"] != 240 and not d.get("tsweep"):  # whole degrees, day-of-month time stamps only
            out.append(d)
    return out


def funwave_cases(tier, seed):
    quick = tier == "quick"
    orders = ORDERS
    out = []
    for layout in ("bare", "wrapped"):
        for nf in (2, 3):
            for nd in (4, 6):
                for order in orders:
                    for off in range(6):
                        for dtype in ("float64", "float32"):
                            out.append(dict(layout=layout, n=1, nt=1, nf=nf, nd=nd, dirorder=order, off=off,
                                            extras=False, dtype=dtype, seed=seed))
    return out


def option_sets(fmt, tier="thorough"):
    if fmt == "swan":
        return [dict(gz=g, ntime=n) for g in (False, True) for n in (None, 1, 2)]
    if fmt == "octopus":
        if tier == "quick":
            return [dict(gz=False, ntime=None), dict(gz=False, ntime=1), dict(gz=False, ntime=2), dict(gz=True, ntime=None)]
        return [dict(gz=g, ntime=n) for g in (False, True) for n in (None, 1, 2)]
    if fmt == "netcdf":
        return [dict(packed=pk, reader=r) for pk in (False, True) for r in ("read_netcdf", "read_wavespectra")]
    return [dict()]


def size_key(c):
    n = c["n"]
    npos = n if isinstance(n, int) else n[0] * n[1]
    return (c["nt"] * npos * c["nf"] * c["nd"], c["dirorder"] != "sorted", bool(c.get("extras")), c.get("dtype") != "float64",
            bool(c.get("latdesc")))


def work_items(tier, seed, parts=None):
    items = []
    ds = datasets(tier, seed)
    for fmt in ("swan", "json", "netcdf", "ww3", "octopus", "funwave"):
        if parts and fmt not in parts:
            continue
        if fmt == "octopus":
            src = octopus_datasets(tier, seed)
        elif fmt == "funwave":
            src = funwave_cases(tier, seed)
        elif fmt == "ww3":
            src = [d for d in ds if d["layout"] == "site"]
        else:
            src = ds
        items.extend(dict(d, fmt=fmt, _tier=tier) for d in src)
    items.sort(key=size_key)  # stable: simplest datasets first, formats interleaved
    return items


def run_item(item):
    case = dict(item)
    tier = case.pop("_tier", "thorough")
    res = {"evals": 0, "nontrivial": [], "samples": [], "outcomes": {}, "violations": [], "parts": {}}
    fmt = case["fmt"]
    exp = expected(case)
    nontrivial = any(c not in ("zero", "nan") for c in exp["classes"])
    optl = list(option_sets(fmt, tier))
    if fmt == "swan" and case["layout"] == "site" and case["n"] >= 2:
        optl.append(dict(gz=False, ntime=None, as_site="default"))
    for opts in optl:
        vs = run_case(case, opts)
        res["evals"] += 1
        if nontrivial:
            res["nontrivial"].append(common.hkey(repr(sorted(case.items(), key=lambda kv: kv[0])), repr(sorted(opts.items()))))
        lab = fmt + ":" + ("ok" if not vs else "+".join(sorted(set(v.signature.split("|")[1] for v in vs))))
        res["outcomes"][lab] = res["outcomes"].get(lab, 0) + 1
        res["violations"].extend(vs)
    res["parts"][fmt] = res["evals"]
    return res


def run(rep, tier, seed, parts=None):
    common.load_wavespectra()
    v = variant(seed)
    rep.rule = (
        "Complete products, no sampling. Datasets: times {1,2,3} x layouts {1..3 stations; lat x lon in (1,1),(1,2),(2,1),(2,3),(3,2)} x "
        "nf {2,3} x nd {4,6} x direction order {sorted from 0, rotated half a turn, descending, shuffled (first two stored directions not "
        "neighbours)} x magnitude-class offset (spectrum k of a dataset is of class[(k+off)%6] out of {~1, all-zero, ~1e4, all-NaN, ~1e-8, "
        "mixed over 10 decades}; quick: off in range(0,6,N) for a dataset of N<6 spectra, {0,3} otherwise, so that every class occurs at "
        "every shape; thorough: all 6 offsets) x {without, with wspd/wdir/dpt} plus two 150-step records with odd-second time stamps across a year boundary, plus 1 and 1.5 degree direction grids (nd 360 and 240; stations and a 1x2 grid, 1-2 times) and a float32 sub-product (quick: 2 times, nf 2, nd 4, "
        "sorted; thorough: full). Every spectrum of a dataset differs from every other one in every bin, so a permutation of positions, "
        "times, frequencies or directions is visible. Each dataset goes through every in-scope pair under every option: SWAN ASCII "
        "(plain/.gz x ntime None/1/2; read as_site for stations, and without as_site for >= 2 stations incl. co-located ones), JSON, wavespectra netCDF-3 (unpacked/packed x read_netcdf/"
        "read_wavespectra), WW3 netCDF-3 (stations), Octopus (one site as a station or a 1x1 grid, whole-degree directions; thorough: the "
        "full product above x plain/.gz x ntime None/1/2; quick, because one file costs 0.4 s: (nf,nd) in {(2,4),(3,6)}, options "
        "{plain x ntime None/1/2, .gz}), Funwave (one spectrum, clip=False: bare (freq,dir) and time=1 x site=1 datasets x nf x nd x order "
        "x 6 classes x 2 dtypes). thorough adds 4 stations, 2x2 and 3x3 grids and descending latitudes. Non-trivial = the dataset holds "
        "at least one finite non-zero spectrum.")
    rep.extra["alphabet"] = dict(freqs=v["freqs"], dir_start=v["dstart"], dir_start_octopus=v["dstart_whole"], class_order=v["classes"],
                                 times=TIMES, site_lon=SITE_LON, site_lat=SITE_LAT, grid_lat=GRID_LAT, grid_lon=GRID_LON)
    rep.assumptions = [
        "sandbox limit: netCDF4/h5netcdf/zarr are not installed, so to_netcdf can only run as ncformat='NETCDF3_64BIT', compress=False "
        "(compress=True asks scipy for zlib -> ValueError; the default NETCDF4 format has no backend) and to_ww3 writes netCDF-3 through "
        "scipy whatever ncformat says; the NETCDF4/zarr paths of to_netcdf/to_ww3/read_* are not explored",
        "resolution per format is derived from the writer's format strings: SWAN half a unit of max/9998 per spectrum (+1e-4 unit for the "
        "%0.8E factor), freq 5e-6, dir 5e-5, lon/lat 5e-7; Octopus 5e-8 in E*df*dd, whole-minute times (DDHHmm), whole-degree directions; "
        "JSON and unpacked netCDF exact; packed netCDF half of 1e-5; WW3 1e-14 relative (4e-7 for float32 data), times 1 ms "
        "(float days since 1990); Funwave 5e-9 in amplitude sqrt(2 E df dd), freq 5e-6, dir 5e-4",
        "Octopus/Funwave store band energies/amplitudes: the comparison is made in that stored quantity, rebuilt from the read efth with "
        "reference bandwidths (df by centred differences of the read frequencies, dd = 360/nd)",
        "directions are compared as a set modulo 360 and bins are matched by direction value (readers may sort directions); stations are "
        "matched by index, grid cells by their coordinate values; SWAN ASCII does not store site labels, so labels are compared only for "
        "JSON/netCDF/WW3",
        "wind/depth variables are present in half of the datasets to exercise the writers; their values are not compared (not in the statement)",
        "magnitudes stay below the int32 range of the packed netCDF encoding (2.1e4 m2/Hz/deg); for Funwave the large class is ~1e2 so "
        "that amplitudes stay below 100 m, the widest number the fixed-width %12.8f columns keep separated",
        "Octopus needs the split frequency fcut=0.125 Hz (writer default) strictly inside the frequency range: every frequency table does",
    ]
    items = work_items(tier, seed, parts)
    rep.extra["datasets_x_formats"] = len(items)
    for it in items[:1] + items[len(items) // 2:len(items) // 2 + 1] + items[-1:]:
        it = {k: v for k, v in it.items() if k != "_tier"}
        e = expected(it)
        rep.samples.append(dict(case=it, options=option_sets(it["fmt"], tier), freq=e["freq"], dir=e["dir"], lon=e["lon"], lat=e["lat"],
                                classes=e["classes"], efth_first_spectrum=e["E"][0, 0]))
    global _TMP_PARENT
    import signal

    def _term(signum, frame):  # make SIGTERM unwind through the finally blocks so that no file is left behind
        raise SystemExit(143)

    prev = signal.signal(signal.SIGTERM, _term)
    _TMP_PARENT = tempfile.mkdtemp(prefix="c11_run_")
    try:
        for res in common.pmap(run_item, items, chunksize=4):
            rep.merge(res)
    finally:
        shutil.rmtree(_TMP_PARENT, ignore_errors=True)
        _TMP_PARENT = None
        signal.signal(signal.SIGTERM, prev)
