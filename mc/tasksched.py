"""E3: controlled dask scheduler. Enumerates execution orders of the real dask graph.

`explore(build, check, bound)` runs `build()` (returns dask collections) under a custom `get` built on
dask.local.get_async with a synchronous executor and callbacks that own the ready list: at every scheduling point the
ready tasks are sorted canonically and the next entry of a choice vector decides which one runs. DFS over choice vectors
enumerates every linear extension (deviation bound None) or all orders with at most `bound` deviations from the default
(choice 0) order. Every execution is replay-checked for determinism on demand.
"""
from __future__ import annotations

from concurrent.futures import Future


class ScheduleDivergence(Exception):
    pass


def make_get(choices, record, strict=True):
    import dask.local

    def submit(fn, *args, **kwargs):
        fut = Future()
        try:
            fut.set_result(fn(*args, **kwargs))
        except BaseException as e:  # noqa
            fut.set_exception(e)
        return fut

    def pick(state):
        ready = state["ready"]
        if not ready:
            return
        ready.sort(key=lambda k: repr(k))
        i = len(record)
        c = choices[i] if i < len(choices) else 0
        if c >= len(ready):
            if strict:
                raise ScheduleDivergence("choice %d out of range (%d ready) at point %d" % (c, len(ready), i))
            c = 0
        record.append((len(ready), repr(ready[c])))
        k = ready.pop(c)
        ready.append(k)  # fire_tasks pops from the end

    def start_state(dsk, state):
        pick(state)

    def posttask(key, result, dsk, state, worker_id):
        pick(state)

    def get(dsk, keys, **kwargs):
        kwargs.pop("num_workers", None)
        kwargs.pop("pool", None)
        return dask.local.get_async(submit, 1, dsk, keys, callbacks=[(None, start_state, None, posttask, None)], **kwargs)

    return get


def run_once(build, choices):
    """Executes the collections returned by build() in the order given by `choices`; returns (results, record)."""
    import dask

    record = []
    cols = build()
    res = dask.compute(*cols, scheduler=make_get(list(choices), record), optimize_graph=True)
    return res, record


def explore(build, on_result, bound=None, max_runs=None, max_seconds=None):
    """DFS over choice vectors. on_result(choices, results, record) is called for every execution.
    Returns dict(runs, points_max, capped)."""
    import time as _time
    t0 = _time.time()
    stack = [[]]
    runs = 0
    pmax = 0
    capped = False
    while stack:
        prefix = stack.pop()
        res, record = run_once(build, prefix)
        runs += 1
        pmax = max(pmax, len(record))
        choices = prefix + [0] * (len(record) - len(prefix))
        on_result(choices, res, record)
        if (max_runs and runs >= max_runs) or (max_seconds and _time.time() - t0 > max_seconds):
            capped = bool(stack) or any(r[0] > 1 for r in record[len(prefix):])
            break
        dev = sum(1 for c in prefix if c != 0)
        for i in range(len(record) - 1, len(prefix) - 1, -1):
            if bound is not None and dev + 1 > bound:
                break
            for alt in range(record[i][0] - 1, 0, -1):
                stack.append(choices[:i] + [alt])
    return dict(runs=runs, points_max=pmax, capped=capped)
