"""C05 - results depend on labelled values, not on storage order / memory layout / dtype / stored direction sequence.

Metamorphic: op(T(x)) re-aligned by labels == op(x) for every combination of transformation factors (quick: every factor
alone and every pair of factor values; thorough: full product).
"""
from __future__ import annotations

import itertools
import math
import numpy as np

from mc import common, gen
from mc.common import Violation

PROP = "C05"
LEVEL = "exploration"

FREQ = np.array([0.05, 0.07, 0.1, 0.125, 0.18, 0.25])
ND = 8


def kind_nd(kind):
    return int(kind.split("-nd")[1]) if "-nd" in kind else ND


def base_data(kind, seed):
    """float32-exact, pairwise distinct positive values, multi-modal. kind '4d': (time=2,site=2,freq=6,dir=8); '2d': (freq,dir);
    '2d-nd<k>': (freq, dir) with k directions."""
    nf, nd = len(FREQ), kind_nd(kind)
    bs = []
    specs = [((1, 2), 48.0, (4, 6), 20.0), ((2, 7), 36.0, (4, 3), 26.0), ((1, 0), 30.0, (3, 4), 44.0), ((2, 5), 52.0, (4, 1), 12.0)]
    n = 4 if kind == "4d" else 1
    for s in range(n):
        (i1, j1), h1, (i2, j2), h2 = specs[(s + seed) % 4]
        v = np.zeros((nf, nd))
        for i in range(nf):
            for j in range(nd):
                dj1 = min((j - j1 % nd) % nd, (j1 % nd - j) % nd)
                dj2 = min((j - j2 % nd) % nd, (j2 % nd - j) % nd)
                a = h1 / (1 + (i - i1) ** 2 + dj1 ** 2) + h2 / (1 + (i - i2) ** 2 + dj2 ** 2)
                v[i, j] = a
        # make values distinct and exactly representable in float32 (multiples of 1/64 with a unique small offset)
        v = np.round(v * 64) / 64 + (np.arange(nf * nd).reshape(nf, nd) * 7 % (nf * nd)) / 4096.0
        bs.append(v)
    arr = np.array(bs)
    assert np.array_equal(arr.astype(np.float32).astype(float), arr)
    return arr.reshape((2, 2, nf, nd)) if kind == "4d" else arr[0]


def make(kind, seed, tr):
    """Build the transformed DataArray + aux (wind etc). tr = dict(perm, layout, dtype, rot, desc)"""
    import xarray as xr

    data = base_data(kind, seed)
    ND_ = kind_nd(kind)
    dirs = (np.arange(ND_) * (360.0 / ND_)) + [0.0, 5.0, 10.0][seed % 3]
    dims = ["time", "site", "freq", "dir"] if kind == "4d" else ["freq", "dir"]
    # stored direction sequence
    idx = np.arange(ND_)
    if tr.get("desc"):
        idx = idx[::-1]
    idx = np.roll(idx, tr.get("rot", 0))
    data = np.take(data, idx, axis=-1)
    dirs_st = dirs[idx]
    perm = tr.get("perm") or tuple(range(len(dims)))
    pdims = [dims[p] for p in perm]
    pdata = np.transpose(data, perm)
    dt = np.dtype(tr.get("dtype", "float64"))
    lay = tr.get("layout", "C")
    if lay == "C":
        arr = np.ascontiguousarray(pdata, dtype=dt)
    elif lay == "F":
        arr = np.asfortranarray(pdata, dtype=dt)
    elif lay == "strided":
        big = np.full(pdata.shape[:-1] + (pdata.shape[-1] * 2,), -777.0, dtype=dt)
        big[..., ::2] = pdata
        arr = big[..., ::2]
    elif lay == "negstride":
        big = np.ascontiguousarray(pdata[::-1], dtype=dt)
        arr = big[::-1]
    else:
        raise ValueError(lay)
    coords = {"freq": FREQ.copy(), "dir": dirs_st}
    if kind == "4d":
        coords["time"] = np.array(["2021-01-01T00", "2021-01-01T06"], dtype="datetime64[ns]")
        coords["site"] = np.array([1, 2])
    da = xr.DataArray(arr, dims=pdims, coords={k: coords[k] for k in pdims}, name="efth")
    aux = {}
    if kind == "4d":
        c = {"time": coords["time"], "site": coords["site"]}
        aux["wspd"] = xr.DataArray(np.array([[4.0, 9.0], [14.0, 22.0]]), dims=["time", "site"], coords=c)
        aux["wdir"] = xr.DataArray(np.array([[20.0, 100.0], [200.0, 310.0]]), dims=["time", "site"], coords=c)
        aux["dpt"] = xr.DataArray(np.array([[8.0, 30.0], [100.0, 15.0]]), dims=["time", "site"], coords=c)
    else:
        aux["wspd"] = xr.DataArray(12.0)
        aux["wdir"] = xr.DataArray(100.0)
        aux["dpt"] = xr.DataArray(25.0)
    return da, aux, dirs


def operations(dirs):
    """name -> (callable(da, aux), kind) ; kind: 'stat' | 'watershed' """
    nf = FREQ
    newf = np.array([0.04, 0.06, 0.1, 0.15, 0.26, 0.3])
    newd = (dirs + 22.5) % 360
    newd2 = np.array([350.0, 355.0, 0.0, 5.0, 10.0])
    ops = {}
    for s in ["hs", "hrms", "hmax", "tp", "fp", "tm01", "tm02", "dm", "dp", "dpm", "dspr", "dpspr", "swe", "sw", "gw", "alpha", "gamma",
              "goda", "crsd", "uss_x", "uss_y", "uss", "mss", "to_energy", "oned"]:
        ops[s] = (lambda da, aux, s=s: getattr(da.spec, s)(), "stat")
    ops["tp(smooth=False)"] = (lambda da, aux: da.spec.tp(smooth=False), "stat")
    ops["momf(1)"] = (lambda da, aux: da.spec.momf(1), "stat")
    ops["momd(1)"] = (lambda da, aux: da.spec.momd(1), "stat")
    ops["fdspr"] = (lambda da, aux: da.spec.fdspr(), "stat")
    ops["uss_x(depth=10)"] = (lambda da, aux: da.spec.uss_x(depth=10.0), "stat")
    ops["smooth(3,3)"] = (lambda da, aux: da.spec.smooth(3, 3), "stat")
    ops["smooth(1,5)"] = (lambda da, aux: da.spec.smooth(1, 5), "stat")
    ops["interp(freq)"] = (lambda da, aux: da.spec.interp(freq=newf), "stat")
    ops["interp(dir)"] = (lambda da, aux: da.spec.interp(dir=newd), "stat")
    ops["interp(freq,dir,seam)"] = (lambda da, aux: da.spec.interp(freq=newf, dir=newd2, maintain_m0=False), "stat")
    ops["rotate(45)"] = (lambda da, aux: da.spec.rotate(45.0), "stat")
    ops["rotate(7.3)"] = (lambda da, aux: da.spec.rotate(7.3), "stat")
    ops["split(f)"] = (lambda da, aux: da.spec.split(fmin=0.06, fmax=0.2), "stat")
    ops["split(f,d)"] = (lambda da, aux: da.spec.split(fmin=0.07, fmax=0.25, dmin=40.0, dmax=200.0), "stat")
    ops["stats(limits)"] = (lambda da, aux: da.spec.stats(["hs", "tm01", "dm", "dspr"], fmin=0.06, fmax=0.2, dmin=40.0, dmax=250.0), "stat")
    ops["scale_by_hs"] = (lambda da, aux: da.spec.scale_by_hs("2*hs", hs_min=0.0), "stat")
    ops["ptm4"] = (lambda da, aux: da.spec.partition.ptm4(aux["wspd"], aux["wdir"], aux["dpt"]), "stat")
    ops["ptm5"] = (lambda da, aux: da.spec.partition.ptm5(fcut=0.11), "stat")
    ops["bbox"] = (lambda da, aux: da.spec.partition.bbox([dict(fmin=0.06, fmax=0.12, dmin=40.0, dmax=200.0), dict(fmin=0.15, fmax=0.3)]), "stat")
    ops["ptm1"] = (lambda da, aux: da.spec.partition.ptm1(aux["wspd"], aux["wdir"], aux["dpt"], swells=2), "watershed")
    ops["ptm2"] = (lambda da, aux: da.spec.partition.ptm2(aux["wspd"], aux["wdir"], aux["dpt"], swells=2), "watershed")
    ops["ptm3"] = (lambda da, aux: da.spec.partition.ptm3(parts=3), "watershed")
    ops["ptm3(smooth)"] = (lambda da, aux: da.spec.partition.ptm3(parts=3, smooth=True), "watershed")
    return ops


def canon(res):
    """-> dict name -> (dims, values) with dims sorted by name and freq/dir sorted by label"""
    import xarray as xr

    out = {}

    def one(name, a):
        if "dir" in a.dims:
            a = a.sortby("dir")
        if "freq" in a.dims:
            a = a.sortby("freq")
        dims = sorted(a.dims)
        a = a.transpose(*dims)
        co = {d: np.asarray(a[d].values) for d in dims if d in a.coords}
        out[name] = (tuple(dims), np.asarray(a.values), co)

    if isinstance(res, tuple):
        for i, r in enumerate(res):
            one("ret%d" % i, r)
    elif isinstance(res, xr.Dataset):
        for v in res.data_vars:
            one(v, res[v])
    else:
        one("ret", res)
    return out


def compare(a, b, tol):
    if isinstance(a, Exception) or isinstance(b, Exception):
        if isinstance(a, Exception) and isinstance(b, Exception):
            return None
        return "one side raised: %r vs %r" % (a if isinstance(a, Exception) else "ok", b if isinstance(b, Exception) else "ok")
    if set(a) != set(b):
        return "different outputs %s vs %s" % (sorted(a), sorted(b))
    for k in a:
        da, va, ca = a[k]
        db, vb, cb = b[k]
        if da != db or va.shape != vb.shape:
            return "%s: dims/shape %s%s vs %s%s" % (k, da, va.shape, db, vb.shape)
        for d in ca:
            x, y = ca[d], cb.get(d)
            if y is None or x.shape != y.shape:
                return "%s: coordinate %s differs in shape" % (k, d)
            if x.dtype.kind in "fc":
                if not np.allclose(x, y, rtol=1e-6, atol=1e-6):
                    return "%s: coordinate %s differs: %s vs %s" % (k, d, x.tolist(), y.tolist())
            elif not np.array_equal(x, y):
                return "%s: coordinate %s differs" % (k, d)
        x = va.astype(float)
        y = vb.astype(float)
        scale = max(np.nanmax(np.abs(y)) if np.isfinite(y).any() else 0.0, 1e-30)
        ok = (np.abs(x - y) <= tol * (np.abs(y) + 1e-3 * scale)) | (np.isnan(x) & np.isnan(y))
        if not ok.all():
            i = tuple(np.argwhere(~ok)[0])
            return "%s%s: %r vs %r (max|ref|=%g)" % (k, list(i), float(x[i]), float(y[i]), scale)
    return None


def run_op(fn, da, aux):
    try:
        return canon(fn(da, aux))
    except Exception as e:  # noqa
        return e


def tr_pred(kind, tr):
    """discriminating predicate of a (minimal) transformation"""
    p = []
    dims = ["time", "site", "freq", "dir"] if kind == "4d" else ["freq", "dir"]
    perm = tr.get("perm")
    if perm and tuple(perm) != tuple(range(len(dims))):
        pd = [dims[i] for i in perm]
        p.append("dims:" + ("dir-before-freq" if pd.index("dir") < pd.index("freq") else "spectral-dims-not-last" if pd[-2:] != ["freq", "dir"] else "leading-dims-permuted"))
    if tr.get("layout", "C") != "C":
        p.append("layout:" + tr["layout"])
    if tr.get("dtype", "float64") != "float64":
        p.append("dtype:float32")
    if tr.get("desc"):
        p.append("dirs:descending" + ("+rotated" if tr.get("rot") else ""))
    elif tr.get("rot"):
        p.append("dirs:seam-between-first-two-stored" if tr["rot"] == 1 else "dirs:rotated")
    if "-nd" in kind:
        p.append("nd=%d" % kind_nd(kind))
    return ",".join(p) or "identity"


def minimise(kind, seed, tr, opname, fn, base, tol_of):
    """try each single factor alone; return the first single-factor transformation that still fails, else tr"""
    singles = []
    for key in ("perm", "layout", "dtype"):
        if key in tr and tr[key] is not None:
            singles.append({key: tr[key]})
    if tr.get("desc") or tr.get("rot"):
        singles.append({"desc": tr.get("desc", False), "rot": tr.get("rot", 0)})
        if tr.get("desc") and tr.get("rot"):
            singles.append({"desc": True})
            singles.append({"rot": tr["rot"]})
    for s in singles:
        if tr_pred(kind, s) == "identity":
            continue
        da, aux, dirs = make(kind, seed, s)
        r = run_op(fn, da, aux)
        if compare(r, base, tol_of(s)) is not None:
            return s
    return tr


def tol_of_factory(opkind):
    def tol_of(tr):
        return 2e-5 if tr.get("dtype", "float64") == "float32" else 1e-9
    return tol_of


def run_item(it):
    common.load_wavespectra()
    kind, seed = it["kind"], it["seed"]
    da0, aux0, dirs = make(kind, seed, {})
    ops = operations(dirs)
    if kind.startswith("2d"):
        ops = {k: v for k, v in ops.items() if k not in ("hmax",)}
    base = {name: run_op(fn, da0, aux0) for name, (fn, k) in ops.items()}
    res = {"evals": 0, "n_nontrivial": 0, "samples": [], "outcomes": {}, "violations": [], "parts": {}}
    seen = set()
    for tr in it["trs"]:
        da, aux, _ = make(kind, seed, tr)
        for name, (fn, opkind) in ops.items():
            if opkind == "watershed" and tr.get("desc"):
                continue  # the statement excuses orientation dependence of the watershed tie-breaking
            r = run_op(fn, da, aux)
            res["evals"] += 1
            tol = 2e-5 if tr.get("dtype", "float64") == "float32" else 1e-9
            msg = compare(r, base[name], tol)
            if msg is None:
                continue
            mtr = minimise(kind, seed, tr, name, fn, base[name], tol_of_factory(opkind))
            sig = "%s|label-invariance|%s" % (name, tr_pred(kind, mtr))
            if sig in seen:
                continue
            seen.add(sig)
            res["violations"].append(Violation(PROP, sig, "op %s on transformed input (%s) differs from the canonical result: %s" % (name, tr_pred(kind, tr), msg),
                                               dict(kind=kind, seed=seed, tr=mtr, op=name)))
        if tr_pred(kind, tr) != "identity":
            res["n_nontrivial"] += 1
    res["parts"][kind] = res["evals"]
    res["samples"].append(dict(kind=kind, transformation=it["trs"][len(it["trs"]) // 2], ops=len(ops)))
    return res


def replay(case):
    common.load_wavespectra()
    kind, seed, tr, name = case["kind"], int(case["seed"]), case["tr"], case["op"]
    if tr.get("perm") is not None:
        tr = dict(tr, perm=tuple(int(x) for x in tr["perm"]))
    da0, aux0, dirs = make(kind, seed, {})
    fn, opkind = operations(dirs)[name]
    base = run_op(fn, da0, aux0)
    da, aux, _ = make(kind, seed, tr)
    r = run_op(fn, da, aux)
    tol = 2e-5 if tr.get("dtype", "float64") == "float32" else 1e-9
    msg = compare(r, base, tol)
    if msg is None:
        return []
    return [Violation(PROP, "%s|label-invariance|%s" % (name, tr_pred(kind, tr)), msg, case)]


def transformations(kind, tier):
    if "-nd" in kind:
        k = kind_nd(kind)
        return [dict(perm=p, layout="C", dtype="float64", rot=r, desc=dsc) for p in ((0, 1), (1, 0)) for dsc in (False, True) for r in range(k)]
    nd = 4 if kind == "4d" else 2
    perms = list(itertools.permutations(range(nd)))
    layouts = ["C", "F", "strided", "negstride"]
    dtypes = ["float64", "float32"]
    dirst = [(r, dsc) for dsc in (False, True) for r in range(ND)]
    F = {"perm": perms, "layout": layouts, "dtype": dtypes, "dirst": dirst}

    def mk(perm=None, layout="C", dtype="float64", dirst=(0, False)):
        return dict(perm=tuple(perm) if perm is not None else None, layout=layout, dtype=dtype, rot=dirst[0], desc=dirst[1])

    out = []
    if tier == "thorough":
        for p in perms:
            for l in layouts:
                for t in dtypes:
                    for ds in dirst:
                        out.append(mk(p, l, t, ds))
        return out
    keys = list(F)
    seen = set()

    def add(**kw):
        t = mk(**kw)
        k = repr(sorted(t.items(), key=lambda x: x[0]))
        if k not in seen:
            seen.add(k)
            out.append(t)

    for k in keys:
        for v in F[k]:
            add(**{k: v})
    # perms that differ in where freq/dir sit relative to each other and to the leading dims
    psub = perms if nd == 2 else [p for p in perms if p in ((0, 1, 3, 2), (3, 2, 0, 1), (2, 3, 0, 1), (0, 3, 1, 2), (3, 0, 1, 2), (2, 0, 3, 1))]
    for k1, k2 in itertools.combinations(keys, 2):
        for v1 in (psub if k1 == "perm" and k2 == "dirst" else F[k1]):
            for v2 in F[k2]:
                add(**{k1: v1, k2: v2})
    return out


def run(rep, tier, seed, parts=None):
    common.load_wavespectra()
    rep.rule = ("transformations = dimension-order permutation (24 / 2) x memory layout {C copy, Fortran copy, strided view of a larger "
                "buffer, negative-stride view} x dtype {f8,f4} x stored direction sequence {8 rotations x ascending/descending}; quick: "
                "every factor value alone and every pair of factor values (dimension order x stored-direction pairs on 6 representative "
                "orders) on a 4-D dataset and a 2-D array; thorough: full product on both. 60+ operations (all statistics, smooth, interp, rotate, split, stats with limits, scale_by_hs, "
                "ptm1..ptm5, bbox) are applied to every transformed input and compared, after re-aligning by labels, with the result on "
                "the canonical input; plus 2-D arrays with 2,3,4,5,6,12 directions x both dimension orders x every rotation x both orientations. "
                "Non-trivial = non-identity transformation.")
    rep.assumptions = ["descending direction order is excluded for the watershed methods only, as the statement allows",
                       "input values are exactly representable in float32 and pairwise distinct, so dtype narrowing does not move decisions (peaks, basins)"]
    items = []
    for kind in ("2d", "4d", "2d-nd2", "2d-nd3", "2d-nd4", "2d-nd5", "2d-nd6", "2d-nd12"):
        trs = transformations(kind, tier)
        n = 24
        for i in range(0, len(trs), n):
            items.append(dict(kind=kind, seed=seed, trs=trs[i:i + n]))
        rep.extra["transformations_" + kind] = len(trs)
    for res in common.pmap(run_item, items):
        rep.merge(res)
