"""C10 - statistics obey energy scaling, rotation (relabelling) symmetry and physical bounds; scale_by_hs (E1, metamorphic).

Every non-degenerate spectrum of a complete family is evaluated through the real accessor three ways: as is, multiplied by
k, and with its direction coordinate relabelled by +a (stored order kept, so the 0/360 seam moves inside the array).  The
oracle is metamorphic (relations between the runs) plus closed-form bounds; conditioning / tie / threshold decisions use a
plain bin-by-bin reference that never calls the library.
"""
from __future__ import annotations

import math
import itertools
import numpy as np

from mc import common, gen
from mc.common import Violation

PROP = "C10"
LEVEL = "exploration"
D2R = math.pi / 180.0
R2D = 180.0 / math.pi
DSPR_MAX = 81.03

KS = [1e-6, 1e-3, 0.5, 2.0, 1e3, 1e6]
ANGLE_LABELS = ["dd", "-dd", "7.3", "-33", "180", "360", "725.5", "1e-3"]
EXPRS = ["2*hs", "0.13*hs+0.02", "1.0", "2.5e-1*HS + 1e-2"]   # plain arithmetic on hs, incl. scientific notation and upper case
DEPTH = 7.0

F64_REL = 1e-9
F32_REL = 1e-5
RAD_ABS = 1e-10      # comparison of radicands of sqrt-of-difference statistics (float64 data)
RAD_DONTCARE = 1e-9  # radicands this close to zero: the statistic is rounding noise / NaN -> don't care


def angle_value(label, dd):
    if label == "dd":
        return dd
    if label == "-dd":
        return -dd
    return float(label)


def expr_value(expr, hs):
    if expr == "2*hs":
        return 2 * hs
    if expr == "0.13*hs+0.02":
        return 0.13 * hs + 0.02
    if expr == "1.0":
        return np.full_like(hs, 1.0)
    if expr == "2.5e-1*HS + 1e-2":
        return 0.25 * hs + 0.01
    raise ValueError(expr)


# ---------------------------------------------------------------------------------------------
# plain reference (loops over bins, vectorised over the batch only)
# ---------------------------------------------------------------------------------------------
def circ_diff(a, b):
    d = np.abs((np.asarray(a, dtype=float) - np.asarray(b, dtype=float)) % 360.0)
    return np.minimum(d, 360.0 - d)


class Ref:
    def __init__(self, f, d, E):
        self.f = np.asarray(f, dtype=np.float64)
        self.d = np.asarray(d, dtype=np.float64)
        self.E = np.asarray(E, dtype=np.float64)
        self.N, self.nf, self.nd = self.E.shape
        n = self.nf
        df = np.empty(n)
        df[0] = self.f[1] - self.f[0]
        df[-1] = self.f[-1] - self.f[-2]
        for i in range(1, n - 1):
            df[i] = (self.f[i + 1] - self.f[i - 1]) / 2.0
        self.df = df
        dif = abs(self.d[1] - self.d[0]) % 360.0
        self.dd = min(dif, 360.0 - dif)
        S = np.zeros((self.N, n))
        for j in range(self.nd):
            S += self.E[:, :, j]
        self.S = S * self.dd
        self.tail = bool(self.f[-1] > 0.333)
        self.m0, self.m1, self.m2, self.m4 = self.m(0), self.m(1), self.m(2), self.m(4)
        e = self.m0.copy()
        if self.tail:
            e = e + 0.25 * self.S[:, -1] * self.f[-1]
        self.etot = e
        self.hs = 4 * np.sqrt(e)
        with np.errstate(all="ignore"):
            self.swe_rad = 1.0 - self.m2 ** 2 / (self.m0 * self.m4)
            self.sw_rad = self.m0 * self.m2 / self.m1 ** 2 - 1.0
            # frequency standard deviation of the normalised spectrum (what a "Gaussian width" in Hz is)
            self.gw_rad_norm = self.m2 / self.m0 - (self.m1 / self.m0) ** 2
            # the radicand as coded: m0/Tm02^2 - m0^2/Tm01^2 with m0 = (hs/4)^2 (tail included), Tm from the moments
            r = self.etot / self.m0
            self.gw_rad_lib = r * self.m2 - (r * self.m1) ** 2
            self.gw_rad_lib_scale = r * self.m2 + (r * self.m1) ** 2
        # direction moments
        s = np.zeros(self.N)
        c = np.zeros(self.N)
        sw_ = np.zeros(self.N)
        cw_ = np.zeros(self.N)
        tot = np.zeros(self.N)
        ps = np.zeros((self.N, n))
        pc = np.zeros((self.N, n))
        pt = np.zeros((self.N, n))
        for j in range(self.nd):
            sj, cj = math.sin(self.d[j] * D2R), math.cos(self.d[j] * D2R)
            for i in range(n):
                e_ = self.E[:, i, j]
                s += e_ * sj
                c += e_ * cj
                sw_ += e_ * sj * df[i]
                cw_ += e_ * cj * df[i]
                tot += e_
                ps[:, i] += e_ * sj
                pc[:, i] += e_ * cj
                pt[:, i] += e_
        with np.errstate(all="ignore"):
            self.dm_cond = np.sqrt(s ** 2 + c ** 2) / tot        # resultant length of the frequency-summed moments
            self.dm = (np.arctan2(s, c) * R2D) % 360.0
            self.dspr_rad = 1.0 - np.sqrt(sw_ ** 2 + cw_ ** 2) * self.dd / self.m0
            self.bin_cond = np.sqrt(ps ** 2 + pc ** 2) / pt       # (N, nf)
            self.bin_dir = (np.arctan2(ps, pc) * R2D) % 360.0
            self.bin_rad = 1.0 - self.bin_cond
        # column totals for dp
        self.col = self.E.sum(axis=1)  # (N, nd)
        self._peaks()

    def m(self, n):
        acc = np.zeros(self.N)
        for i in range(self.nf):
            acc += self.S[:, i] * self.df[i] * self.f[i] ** n
        return acc

    def _peaks(self):
        S, n = self.S, self.nf
        pk = np.zeros((self.N, n), dtype=bool)
        for i in range(1, n - 1):
            pk[:, i] = (S[:, i] > S[:, i - 1]) & (S[:, i] > S[:, i + 1])
        smax = S.max(axis=1)
        top = np.where(pk, S, -1.0).max(axis=1)
        adm = pk & (S >= top[:, None] * (1 - 1e-12))
        self.has_peak = pk.any(axis=1)
        self.ipeak = np.where(self.has_peak, adm.argmax(axis=1), -1)
        near = np.zeros(self.N, dtype=bool)
        for i in range(n - 1):
            near |= (np.abs(S[:, i] - S[:, i + 1]) <= 1e-12 * smax) & ((S[:, i] > 0) | (S[:, i + 1] > 0))
        # robust: rounding cannot create / remove / swap the selected peak
        self.robust = ~near & (adm.sum(axis=1) <= 1)
        # smooth peak period at the reference peak (parabola vertex), float32 frequencies as the library uses
        f32 = self.f.astype(np.float32).astype(np.float64)
        tps = np.full(self.N, np.nan)
        rows = np.arange(self.N)
        ip = np.where(self.has_peak, self.ipeak, 1)
        if n >= 3:
            f1, f2, f3 = f32[ip - 1], f32[ip], f32[ip + 1]
            e1, e2, e3 = S[rows, ip - 1], S[rows, ip], S[rows, ip + 1]
            with np.errstate(all="ignore"):
                num = (f2 - f1) ** 2 * (e2 - e3) - (f2 - f3) ** 2 * (e2 - e1)
                den = (f2 - f1) * (e2 - e3) - (f2 - f3) * (e2 - e1)
                tps = np.where(self.has_peak, 1.0 / (f2 - 0.5 * num / den), np.nan)
        self.tps = tps
        self.pk_dir = np.where(self.has_peak, self.bin_dir[rows, ip], np.nan)
        self.pk_cond = np.where(self.has_peak, self.bin_cond[rows, ip], np.nan)
        self.pk_rad = np.where(self.has_peak, self.bin_rad[rows, ip], np.nan)


# ---------------------------------------------------------------------------------------------
# the library side
# ---------------------------------------------------------------------------------------------
def build(f, d, E):
    import xarray as xr

    N = E.shape[0]
    return xr.DataArray(np.array(E, dtype=np.float64), dims=["site", "freq", "dir"],
                        coords={"site": np.arange(N), "freq": np.asarray(f, dtype=float), "dir": np.asarray(d, dtype=float)},
                        name="efth")


STATS = [
    ("hs", lambda sp: sp.hs()), ("hs_notail", lambda sp: sp.hs(tail=False)), ("hrms", lambda sp: sp.hrms()),
    ("hmax", lambda sp: sp.hmax()),
    ("tp", lambda sp: sp.tp()), ("tp_discrete", lambda sp: sp.tp(smooth=False)),
    ("fp", lambda sp: sp.fp()), ("fp_discrete", lambda sp: sp.fp(smooth=False)),
    ("tm01", lambda sp: sp.tm01()), ("tm02", lambda sp: sp.tm02()),
    ("dm", lambda sp: sp.dm()), ("dp", lambda sp: sp.dp()), ("dpm", lambda sp: sp.dpm()),
    ("dspr", lambda sp: sp.dspr()), ("dpspr", lambda sp: sp.dpspr()),
    ("swe", lambda sp: sp.swe()), ("sw", lambda sp: sp.sw()), ("gw", lambda sp: sp.gw()),
    ("alpha", lambda sp: sp.alpha()), ("gamma", lambda sp: sp.gamma()), ("gamma_raw", lambda sp: sp.gamma(scaled=False)),
    ("goda", lambda sp: sp.goda()),
    ("uss", lambda sp: sp.uss()), ("uss_x", lambda sp: sp.uss_x()), ("uss_y", lambda sp: sp.uss_y()), ("mss", lambda sp: sp.mss()),
    ("uss_depth", lambda sp: sp.uss(depth=DEPTH)), ("uss_x_depth", lambda sp: sp.uss_x(depth=DEPTH)),
    ("uss_y_depth", lambda sp: sp.uss_y(depth=DEPTH)), ("mss_depth", lambda sp: sp.mss(depth=DEPTH)),
]
HEIGHTS = ["hs", "hs_notail", "hrms", "hmax"]
LINEAR = ["uss", "mss", "uss_depth", "mss_depth"]
LINEAR_XY = [("uss_x", "uss"), ("uss_y", "uss"), ("uss_x_depth", "uss_depth"), ("uss_y_depth", "uss_depth")]
PLAIN64 = ["tm01", "tm02", "goda"]                    # float64, well conditioned, independent of the peak
PEAK32 = ["tp", "tp_discrete", "fp", "fp_discrete"]   # float32, depend on the selected peak
PEAKSHAPE = ["gamma", "gamma_raw"]


INPLACE_LABELS = {"-dd", "-33", "725.5"}   # these relabellings are applied in place on an object whose statistics were already used


def lib_stats(f, d, E, inplace_from=None):
    common.load_wavespectra()
    N = E.shape[0]
    if inplace_from is not None:
        # the relabelling as an in-place coordinate assignment on the same object, after every statistic was evaluated once
        da = build(f, inplace_from, E)
        for name, fn in STATS:
            try:
                fn(da.spec).values
            except Exception:  # noqa
                pass
        da["dir"] = np.asarray(d, dtype=float)
        sp = da.spec
    else:
        sp = build(f, d, E).spec
    out = {}
    for name, fn in STATS:
        try:
            out[name] = np.asarray(fn(sp).values, dtype=np.float64).reshape(N)
        except Exception as e:  # noqa
            out[name] = e
    return out


def np_twins(f, d, E, nmax):
    """numpy twins of hs and dm (npstats), per spectrum"""
    common.load_wavespectra()
    from wavespectra.core import npstats

    n = min(nmax, E.shape[0])
    hs = np.array([float(npstats.hs(E[b], np.asarray(f, dtype=float), np.asarray(d, dtype=float))) for b in range(n)])
    dm = np.array([float(npstats.dm(E[b], np.asarray(d, dtype=float))) for b in range(n)])
    return hs, dm


# ---------------------------------------------------------------------------------------------
# oracle clauses
# ---------------------------------------------------------------------------------------------
class Fails:
    """collects (idx, stat, clause, pred, msg): the first failing index of every (stat, clause, pred)"""

    def __init__(self):
        self.items = []

    def add(self, ok, stat, clause, pred, fmt):
        ok = np.asarray(ok)
        if ok.all():
            return
        i = int(np.argwhere(~ok)[0][0])
        self.items.append((i, stat, clause, pred, fmt(i)))

    def raised(self, stat, exc, pred):
        self.items.append((-1, stat, "raises-" + type(exc).__name__, pred, "%s raised %s: %s" % (stat, type(exc).__name__, exc)))


def both_nan(a, b):
    return np.isnan(a) & np.isnan(b)


def rel_ok(got, ref, tol):
    with np.errstate(all="ignore"):
        return (np.abs(got - ref) <= tol * np.abs(ref) + 1e-300) | both_nan(got, ref)


def valid(L, n):
    return not isinstance(L[n], Exception)


def check_bounds(f, d, E, L, R, F):
    """physical bounds of one evaluated (possibly transformed) batch"""
    pred = "tail" if R.tail else "notail"
    lo, hi = 1.0 / R.f[-1], 1.0 / R.f[0]
    d32 = np.asarray(d, dtype=np.float64).astype(np.float32).astype(np.float64)
    for n in L:
        if isinstance(L[n], Exception):
            F.raised(n, L[n], pred)
    # directions in [0, 360)
    for n, nan_ok in (("dm", False), ("dp", False), ("dpm", True)):
        if valid(L, n):
            v = L[n]
            ok = ((v >= 0) & (v < 360)) | (np.isnan(v) if nan_ok else False)
            F.add(ok, n, "bounds:0<=dir<360", pred, lambda i, n=n, v=v: "%s=%r outside [0,360)" % (n, float(v[i])))
    # dp is one of the direction coordinates, and one with (tie-)maximal frequency-summed energy
    if valid(L, "dp"):
        v = L["dp"]
        member = np.zeros(R.N, dtype=bool)
        adm = np.zeros(R.N, dtype=bool)
        cmax = R.col.max(axis=1)
        for j in range(R.nd):
            eq = v == d32[j]
            member |= eq
            adm |= eq & (R.col[:, j] >= cmax * (1 - 1e-9))
        F.add(member, "dp", "bounds:is-a-direction-coordinate", pred,
              lambda i: "dp=%r is not one of the direction coordinates %s" % (float(v[i]), list(map(float, d))))
        F.add(adm | ~member, "dp", "direction-of-largest-energy", pred,
              lambda i: "dp=%r: column totals %s over directions %s" % (float(v[i]), R.col[i].tolist(), list(map(float, d))))
    # 1/fmax <= Tm02 <= Tm01 <= 1/fmin
    if valid(L, "tm01") and valid(L, "tm02"):
        t1, t2 = L["tm01"], L["tm02"]
        e = 1e-12
        F.add(t2 >= lo * (1 - e), "tm02", "bounds:1/fmax<=tm02", pred, lambda i: "tm02=%r < 1/fmax=%r" % (float(t2[i]), lo))
        F.add(t2 <= t1 * (1 + e), "tm02", "bounds:tm02<=tm01", pred, lambda i: "tm02=%r > tm01=%r" % (float(t2[i]), float(t1[i])))
        F.add(t1 <= hi * (1 + e), "tm01", "bounds:tm01<=1/fmin", pred, lambda i: "tm01=%r > 1/fmin=%r" % (float(t1[i]), hi))
    # peak period inside the frequency range
    for n in ("tp", "tp_discrete"):
        if valid(L, n):
            v = L[n]
            ok = np.isnan(v) | ((v >= lo * (1 - 2e-6)) & (v <= hi * (1 + 2e-6)))
            F.add(ok, n, "bounds:1/fmax<=tp<=1/fmin", pred, lambda i, n=n, v=v: "%s=%r outside [%r, %r]" % (n, float(v[i]), lo, hi))
    for n in ("fp", "fp_discrete"):
        if valid(L, n):
            v = L[n]
            ok = np.isnan(v) | ((v >= R.f[0] * (1 - 2e-6)) & (v <= R.f[-1] * (1 + 2e-6)))
            F.add(ok, n, "bounds:fmin<=fp<=fmax", pred, lambda i, n=n, v=v: "%s=%r outside [%r, %r]" % (n, float(v[i]), R.f[0], R.f[-1]))
    # directional spread in [0, 81.03]
    if valid(L, "dspr"):
        v = L["dspr"]
        ok = ((v >= 0) & (v <= DSPR_MAX)) | (R.dspr_rad < RAD_DONTCARE)
        F.add(ok, "dspr", "bounds:0<=dspr<=81.03", pred, lambda i: "dspr=%r (reference radicand %r)" % (float(v[i]), float(R.dspr_rad[i])))
    if valid(L, "dpspr"):
        v = L["dpspr"]
        ok = np.isnan(v) | ((v >= 0) & (v <= DSPR_MAX))
        F.add(ok, "dpspr", "bounds:0<=dspr<=81.03", pred, lambda i: "dpspr=%r" % float(v[i]))
    # widths real, swe <= 1
    if valid(L, "swe"):
        v = L["swe"]
        F.add(~np.isnan(v), "swe", "bounds:real", pred, lambda i: "swe is NaN (reference radicand %r)" % float(R.swe_rad[i]))
        F.add(np.isnan(v) | (v <= 1.0 + 1e-12), "swe", "bounds:swe<=1", pred, lambda i: "swe=%r > 1" % float(v[i]))
    if valid(L, "sw"):
        v = L["sw"]
        unmasked = R.hs >= 0.001 * (1 + 1e-6)      # the library documents sw as masked below hs = 0.001
        ok = ~np.isnan(v) | ~unmasked | (R.sw_rad < RAD_DONTCARE)
        F.add(ok, "sw", "bounds:real", pred, lambda i: "sw is NaN for hs=%r (reference radicand %r)" % (float(R.hs[i]), float(R.sw_rad[i])))
    if valid(L, "gw"):
        v = L["gw"]
        ok = ~np.isnan(v) | (R.gw_rad_norm < RAD_DONTCARE)
        F.add(ok, "gw", "bounds:real", "variance-above-m0m2/m1^2",
              lambda i: "gw is NaN for a spectrum with hs=%r whose frequency standard deviation is %r Hz (m0/Tm02^2 - m0^2/Tm01^2 = %r < 0)" % (
                  float(R.hs[i]), float(math.sqrt(R.gw_rad_norm[i])), float(R.gw_rad_lib[i])))


def cmp_radicand(F, stat, clause, pred, a, b, scale, dontcare, what):
    """a, b: values of a sqrt-of-difference statistic on the two runs; compare their squares"""
    with np.errstate(all="ignore"):
        ok = (np.abs(a ** 2 - b ** 2) <= RAD_ABS * scale) | both_nan(a, b) | dontcare
    F.add(ok, stat, clause, pred, lambda i: "%s: %s=%r on the original, %r on the transformed spectrum" % (what, stat, float(a[i]), float(b[i])))


def check_invariants(L0, L1, R0, F, clause, pred, kfac=None):
    """statistics that must be unchanged by both transformations. kfac: energy factor (None for relabelling)"""
    what = clause
    for n in PLAIN64:
        if valid(L0, n) and valid(L1, n):
            a, b = L0[n], L1[n]
            F.add(rel_ok(b, a, F64_REL), n, clause, pred, lambda i, n=n, a=a, b=b: "%s: %s=%r before, %r after" % (what, n, float(a[i]), float(b[i])))
    if valid(L0, "swe") and valid(L1, "swe"):
        floor_zone = np.abs(R0.swe_rad - 1e-6) <= 1e-8          # documented floor: swe < 0.001 -> 1.0
        cmp_radicand(F, "swe", clause, pred, L0["swe"], L1["swe"], 1.0, floor_zone | (R0.swe_rad < RAD_DONTCARE), what)
    if valid(L0, "sw") and valid(L1, "sw"):
        hs1 = R0.hs * (math.sqrt(kfac) if kfac else 1.0)
        masked = (R0.hs < 0.001 * (1 + 1e-5)) | (hs1 < 0.001 * (1 + 1e-5))   # documented mask hs < 0.001 (and its threshold)
        cmp_radicand(F, "sw", clause, pred, L0["sw"], L1["sw"], 1.0, masked | (R0.sw_rad < RAD_DONTCARE), what)
    if valid(L0, "dspr") and valid(L1, "dspr"):
        a, b = (L0["dspr"] * D2R) / math.sqrt(2), (L1["dspr"] * D2R) / math.sqrt(2)
        with np.errstate(all="ignore"):
            ok = (np.abs(a ** 2 - b ** 2) <= RAD_ABS) | (R0.dspr_rad < RAD_DONTCARE)
        F.add(ok, "dspr", clause, pred, lambda i: "%s: dspr=%r before, %r after" % (what, float(L0["dspr"][i]), float(L1["dspr"][i])))
    # peak based (float32): only where rounding cannot change which peak is selected
    rb = R0.robust
    for n in PEAK32 + PEAKSHAPE:
        if valid(L0, n) and valid(L1, n):
            a, b = L0[n], L1[n]
            F.add(rel_ok(b, a, F32_REL) | ~rb, n, clause, pred, lambda i, n=n, a=a, b=b: "%s: %s=%r before, %r after" % (what, n, float(a[i]), float(b[i])))
    if valid(L0, "dpspr") and valid(L1, "dpspr"):
        a, b = L0["dpspr"], L1["dpspr"]
        with np.errstate(all="ignore"):
            skip = ~rb | (R0.has_peak & ~(R0.pk_rad >= RAD_DONTCARE))
        F.add(rel_ok(b, a, F32_REL) | skip, "dpspr", clause, pred, lambda i: "%s: dpspr=%r before, %r after" % (what, float(a[i]), float(b[i])))


def check_scale(L0, L1, R0, k, F, twins=None):
    pred = "tail" if R0.tail else "notail"
    rk = math.sqrt(k)
    for n in HEIGHTS:
        if valid(L0, n) and valid(L1, n):
            a, b = L0[n], L1[n]
            F.add(rel_ok(b, a * rk, F64_REL), n, "scale:x-sqrt(k)", pred,
                  lambda i, n=n, a=a, b=b: "%s(k*S)=%r, expected sqrt(k)*%s(S)=%r (k=%g)" % (n, float(b[i]), n, float(a[i] * rk), k))
    for n in LINEAR:
        if valid(L0, n) and valid(L1, n):
            a, b = L0[n], L1[n]
            F.add(rel_ok(b, a * k, F64_REL), n, "scale:x-k", pred,
                  lambda i, n=n, a=a, b=b: "%s(k*S)=%r, expected k*%s(S)=%r (k=%g)" % (n, float(b[i]), n, float(a[i] * k), k))
    for n, tot in LINEAR_XY:
        if valid(L0, n) and valid(L1, n) and valid(L0, tot):
            a, b, t = L0[n], L1[n], np.abs(L0[tot])
            F.add(np.abs(b - a * k) <= F64_REL * k * t + 1e-300, n, "scale:x-k", pred,
                  lambda i, n=n, a=a, b=b: "%s(k*S)=%r, expected k*%s(S)=%r (k=%g)" % (n, float(b[i]), n, float(a[i] * k), k))
    check_invariants(L0, L1, R0, F, "scale:unchanged", pred, kfac=k)
    # Gaussian width: a frequency spread [the library's own gaussian() takes it in Hz]
    if valid(L0, "gw") and valid(L1, "gw"):
        a, b = L0["gw"], L1["gw"]
        F.add(rel_ok(b, a, 1e-6) | (R0.gw_rad_norm < RAD_DONTCARE), "gw", "scale:unchanged", "energy-dependent",
              lambda i: "gw(S)=%r but gw(k*S)=%r for k=%g: the width of the same spectral shape depends on its energy" % (float(a[i]), float(b[i]), k))
    # directions
    if valid(L0, "dm") and valid(L1, "dm"):
        a, b = L0["dm"], L1["dm"]
        F.add((circ_diff(a, b) <= 1e-6) | ~(R0.dm_cond > 1e-6), "dm", "scale:unchanged", pred,
              lambda i: "dm(S)=%r, dm(k*S)=%r (k=%g)" % (float(a[i]), float(b[i]), k))
    if valid(L0, "dpm") and valid(L1, "dpm"):
        a, b = L0["dpm"], L1["dpm"]
        with np.errstate(all="ignore"):
            skip = ~R0.robust | (R0.has_peak & ~(R0.pk_cond > 1e-6))
        F.add((circ_diff(a, b) <= 2e-4) | both_nan(a, b) | skip, "dpm", "scale:unchanged", pred,
              lambda i: "dpm(S)=%r, dpm(k*S)=%r (k=%g)" % (float(a[i]), float(b[i]), k))
    # dp: the admissible-direction clause of check_bounds on k*S is the demand (ties between equal totals are don't-care)
    if twins is not None:
        (h0, d0), (h1, d1) = twins
        n = len(h0)
        F.add(rel_ok(h1, h0 * rk, F64_REL), "npstats.hs", "scale:x-sqrt(k)", pred,
              lambda i: "npstats.hs(k*S)=%r expected %r (k=%g)" % (float(h1[i]), float(h0[i] * rk), k))
        F.add((circ_diff(d0, d1) <= 1e-6) | ~(R0.dm_cond[:n] > 1e-6), "npstats.dm", "scale:unchanged", pred,
              lambda i: "npstats.dm(S)=%r, npstats.dm(k*S)=%r (k=%g)" % (float(d0[i]), float(d1[i]), k))


def check_relabel(L0, L1, R0, shift, label, ascending, F, twins=None):
    """shift[j] = (new coordinate - old coordinate) of stored position j (== a modulo 360 up to rounding)"""
    pred = "a=%s,%s" % (label, "stored-ascending" if ascending else "seam-inside")
    a0 = float(shift[0])
    for n in HEIGHTS + LINEAR:
        if valid(L0, n) and valid(L1, n):
            a, b = L0[n], L1[n]
            F.add(rel_ok(b, a, F64_REL), n, "relabel:unchanged", pred,
                  lambda i, n=n, a=a, b=b: "%s=%r before, %r after relabelling directions by %s" % (n, float(a[i]), float(b[i]), label))
    check_invariants(L0, L1, R0, F, "relabel:unchanged", pred)
    if valid(L0, "gw") and valid(L1, "gw"):
        a, b = L0["gw"], L1["gw"]
        with np.errstate(all="ignore"):
            # don't-care where either reading of the radicand (m2 - m1^2 as coded, m2/m0 - (m1/m0)^2 as a width in Hz) cancels to ~0
            cancel = (np.abs(R0.gw_rad_lib) <= 1e-6 * R0.gw_rad_lib_scale) | (R0.gw_rad_norm < RAD_DONTCARE)
            ok = (np.abs(a ** 2 - b ** 2) <= 1e-6 * np.maximum(a ** 2, b ** 2)) | both_nan(a, b) | cancel
        F.add(ok, "gw", "relabel:unchanged", pred, lambda i: "gw=%r before, %r after relabelling directions by %s" % (float(a[i]), float(b[i]), label))
    if valid(L0, "alpha") and valid(L1, "alpha"):
        a, b = L0["alpha"], L1["alpha"]
        F.add(rel_ok(b, a, F32_REL) | ~R0.robust, "alpha", "relabel:unchanged", pred,
              lambda i: "alpha=%r before, %r after relabelling directions by %s" % (float(a[i]), float(b[i]), label))
    if valid(L0, "dm") and valid(L1, "dm"):
        a, b = L0["dm"], L1["dm"]
        F.add((circ_diff(a + a0, b) <= 1e-6) | ~(R0.dm_cond > 1e-6), "dm", "relabel:shift-by-a", pred,
              lambda i: "dm=%r before, %r after relabelling by %s (expected %r)" % (float(a[i]), float(b[i]), label, float((a[i] + a0) % 360)))
    if valid(L0, "dpm") and valid(L1, "dpm"):
        a, b = L0["dpm"], L1["dpm"]
        with np.errstate(all="ignore"):
            skip = ~R0.robust | (R0.has_peak & ~(R0.pk_cond > 1e-6))
        F.add((circ_diff(a + a0, b) <= 2e-4) | both_nan(a, b) | skip, "dpm", "relabel:shift-by-a", pred,
              lambda i: "dpm=%r before, %r after relabelling by %s (expected %r)" % (float(a[i]), float(b[i]), label, float((a[i] + a0) % 360)))
    if valid(L0, "dp") and valid(L1, "dp"):
        a, b = L0["dp"], L1["dp"]
        # same stored data: any direction of (tie-)maximal energy is admissible on both sides; where the maximum is unique the shift is pinned
        cmax = R0.col.max(axis=1)
        unique = (R0.col >= cmax[:, None] * (1 - 1e-9)).sum(axis=1) == 1
        F.add((circ_diff(a + a0, b) <= 1e-4) | ~unique, "dp", "relabel:shift-by-a", pred,
              lambda i: "dp=%r before, %r after relabelling by %s (expected %r)" % (float(a[i]), float(b[i]), label, float((a[i] + a0) % 360)))
    if twins is not None:
        (h0, d0), (h1, d1) = twins
        n = len(h0)
        F.add(rel_ok(h1, h0, F64_REL), "npstats.hs", "relabel:unchanged", pred,
              lambda i: "npstats.hs=%r before, %r after relabelling by %s" % (float(h0[i]), float(h1[i]), label))
        F.add((circ_diff(d0 + a0, d1) <= 1e-6) | ~(R0.dm_cond[:n] > 1e-6), "npstats.dm", "relabel:shift-by-a", pred,
              lambda i: "npstats.dm=%r before, %r after relabelling by %s" % (float(d0[i]), float(d1[i]), label))


def relabelled(d, a):
    """the relabelling exactly as a user would apply it: da.assign_coords(dir=(dir + a) % 360), stored order kept"""
    d = np.asarray(d, dtype=np.float64)
    return (d + a) % 360.0


NTWIN = 32


def eval_group(f, d, E, ks, labels, bounds=True, twins=True, outcomes=None):
    """Evaluate base + every k + every relabelling; returns list of (idx, kind, param, stat, clause, pred, msg)."""
    f = np.asarray(f, dtype=float)
    d = np.asarray(d, dtype=float)
    E = np.asarray(E, dtype=float)
    out = []

    def flush(F, kind, param):
        for (i, stat, clause, pred, msg) in F.items:
            out.append((i, kind, param, stat, clause, pred, msg))

    R0 = Ref(f, d, E)
    L0 = lib_stats(f, d, E)
    T0 = np_twins(f, d, E, NTWIN) if twins else None
    def twin_range(T, F, tail):
        if T is not None:
            v = T[1]
            F.add((v >= 0) & (v < 360), "npstats.dm", "bounds:0<=dir<360", "tail" if tail else "notail",
                  lambda i: "npstats.dm=%r outside [0,360)" % float(v[i]))

    if bounds:
        F = Fails()
        check_bounds(f, d, E, L0, R0, F)
        twin_range(T0, F, R0.tail)
        flush(F, "bounds", None)
    for k in ks:
        Ek = E * k
        Lk = lib_stats(f, d, Ek)
        Tk = np_twins(f, d, Ek, NTWIN) if twins else None
        F = Fails()
        check_scale(L0, Lk, R0, k, F, twins=(T0, Tk) if twins else None)
        flush(F, "scale", k)
        if outcomes is not None and valid(L0, "alpha") and valid(Lk, "alpha"):
            with np.errstate(all="ignore"):
                lin = rel_ok(Lk["alpha"], L0["alpha"] * k, 1e-4) | ~R0.robust
            key = "alpha(k*S)=k*alpha(S) [observed, not demanded]: %s" % ("holds" if lin.all() else "differs")
            outcomes[key] = outcomes.get(key, 0) + 1
        if bounds:
            F = Fails()
            check_bounds(f, d, Ek, Lk, Ref(f, d, Ek), F)
            twin_range(Tk, F, R0.tail)
            flush(F, "bounds-scaled", k)
    for label in labels:
        a = angle_value(label, R0.dd)
        d2 = relabelled(d, a)
        assert ((d2 >= 0) & (d2 < 360)).all() and (d2.astype(np.float32) < 360).all(), d2
        shift = (d2 - d) % 360.0
        ascending = bool(np.all(np.diff(d2) > 0))
        La = lib_stats(f, d2, E, inplace_from=d if label in INPLACE_LABELS else None)
        Ta = np_twins(f, d2, E, NTWIN) if twins else None
        F = Fails()
        check_relabel(L0, La, R0, shift, label, ascending, F, twins=(T0, Ta) if twins else None)
        flush(F, "relabel", label)
        if bounds:
            F = Fails()
            check_bounds(f, d2, E, La, Ref(f, d2, E), F)
            twin_range(Ta, F, R0.tail)
            flush(F, "bounds-relabelled", label)
    if outcomes is not None:
        def cnt(key, n):
            if n:
                outcomes[key] = outcomes.get(key, 0) + int(n)
        cnt("spectra: robust interior peak", (R0.robust & R0.has_peak).sum())
        cnt("spectra: robustly no interior peak (tp NaN)", (R0.robust & ~R0.has_peak).sum())
        cnt("spectra: peak selection sensitive to rounding (peak statistics don't-care)", (~R0.robust).sum())
        cnt("spectra: mean direction ill-conditioned (dm don't-care)", (~(R0.dm_cond > 1e-6)).sum())
        cnt("spectra: sw masked by hs<0.001 at k=1", (R0.hs < 0.001).sum())
        cnt("spectra: swe floored to 1.0", (R0.swe_rad < 1e-6).sum())
        if valid(L0, "gw"):
            cnt("spectra: gw NaN at k=1", np.isnan(L0["gw"]).sum())
    return out


# ---------------------------------------------------------------------------------------------
# scale_by_hs
# ---------------------------------------------------------------------------------------------
def pick_thresholds(v):
    """lower / upper threshold = exact elements at the 1/3 and 2/3 positions of the sorted distinct finite values"""
    u = np.unique(v[np.isfinite(v)])
    if u.size == 0:
        return None
    return float(u[(u.size - 1) // 3]), float(u[(2 * (u.size - 1) + 2) // 3])


def window_configs(hsL, tpL, dpmL):
    th, tt, tdp = pick_thresholds(hsL), pick_thresholds(tpL), pick_thresholds(dpmL)
    cfgs = [("none", {})]
    cfgs.append(("hs", dict(hs_min=th[0], hs_max=th[1])))
    cfgs.append(("hs_min", dict(hs_min=th[0])))
    cfgs.append(("hs_max", dict(hs_max=th[1])))
    cfgs.append(("hs_empty", dict(hs_min=th[1] * 1.5 + 1.0, hs_max=th[0] * 0.5)))
    if tt is None:
        tt = (5.0, 9.0)
    if tdp is None:
        tdp = (90.0, 270.0)
    cfgs.append(("tp", dict(tp_min=tt[0], tp_max=tt[1])))
    cfgs.append(("tp_min", dict(tp_min=tt[0])))
    cfgs.append(("dpm", dict(dpm_min=tdp[0], dpm_max=tdp[1])))
    cfgs.append(("dpm_max", dict(dpm_max=tdp[1])))
    cfgs.append(("hs+tp+dpm", dict(hs_min=th[0], hs_max=th[1], tp_min=tt[0], tp_max=tt[1], dpm_min=tdp[0], dpm_max=tdp[1])))
    return cfgs


def tri_in(ref, lib, lo, hi, tol, known):
    """tri-state membership of lo <= x <= hi: 1 inside, 0 outside, -1 don't care.
    ref: reference value (NaN = no value -> outside); lib: the library's own statistic (only used to recognise a value that
    is *exactly* the bound, which the inclusive range must accept); known: reference value is trustworthy."""
    N = len(ref)
    res = np.ones(N, dtype=int)
    for bound, sign in ((lo, 1.0), (hi, -1.0)):
        if bound is None:
            continue
        with np.errstate(all="ignore"):
            exact = lib == bound
            close = np.abs(ref - bound) <= tol * abs(bound) + 1e-300
            inside = sign * (ref - bound) > 0
        r = np.where(exact, 1, np.where(~known | close, -1, np.where(inside, 1, 0)))
        r = np.where(np.isnan(ref) & known, 0, r)
        # combine: outside dominates, then don't-care
        res = np.where((res == 0) | (r == 0), 0, np.where((res == -1) | (r == -1), -1, 1))
    return res


def eval_sbh(f, d, E, configs=None, exprs=EXPRS, outcomes=None):
    """scale_by_hs on a batch. configs: list of (name, kwargs) or None to derive them from the batch's own statistics.
    returns list of (idx, kind, param, stat, clause, pred, msg) with kind 'scale_by_hs', param (expr, name, kwargs)"""
    common.load_wavespectra()
    f = np.asarray(f, dtype=float)
    d = np.asarray(d, dtype=float)
    E = np.ascontiguousarray(E, dtype=float)
    N = E.shape[0]
    R = Ref(f, d, E)
    da = build(f, d, E)
    out = []
    try:
        hsL = np.asarray(da.spec.hs().values, dtype=float).reshape(N)
        tpL = np.asarray(da.spec.tp().values, dtype=float).reshape(N)
        dpmL = np.asarray(da.spec.dpm().values, dtype=float).reshape(N)
    except Exception as e:  # noqa
        return [(-1, "scale_by_hs", None, "scale_by_hs", "raises-" + type(e).__name__, "statistics", "hs/tp/dpm raised %s: %s" % (type(e).__name__, e))]
    if configs is None:
        configs = window_configs(hsL, tpL, dpmL)
    # spectra whose densities are whole numbers are also passed as an integer-typed array (counts, unpacked integers)
    variants = [("", da)]
    if np.array_equal(E, np.rint(E)) and E.max() >= 1:
        variants.append((",int64-input", da.astype("int64")))
    hs_known = np.ones(N, dtype=bool)
    pk_known = R.robust
    with np.errstate(all="ignore"):
        # the direction scale is cut at 0/360: a mean direction within 1e-3 of the cut may legitimately come out on either side
        dpm_known = R.robust & (~R.has_peak | ((R.pk_cond > 1e-6) & (R.pk_dir > 1e-3) & (R.pk_dir < 360.0 - 1e-3)))
    for name, kw in configs:
        m = tri_in(R.hs, hsL, kw.get("hs_min"), kw.get("hs_max"), 1e-9, hs_known) if ("hs_min" in kw or "hs_max" in kw) else np.ones(N, dtype=int)
        if "tp_min" in kw or "tp_max" in kw:
            t = tri_in(R.tps, tpL, kw.get("tp_min"), kw.get("tp_max"), 1e-5, pk_known)
            m = np.where((m == 0) | (t == 0), 0, np.where((m == -1) | (t == -1), -1, 1))
        if "dpm_min" in kw or "dpm_max" in kw:
            t = tri_in(R.pk_dir, dpmL, kw.get("dpm_min"), kw.get("dpm_max"), 1e-5, dpm_known)
            m = np.where((m == 0) | (t == 0), 0, np.where((m == -1) | (t == -1), -1, 1))
        on_boundary = np.zeros(N, dtype=bool)
        for key, lib in (("hs_min", hsL), ("hs_max", hsL), ("tp_min", tpL), ("tp_max", tpL), ("dpm_min", dpmL), ("dpm_max", dpmL)):
            if key in kw:
                on_boundary |= lib == kw[key]
        if outcomes is not None:
            for lab, n in (("inside", (m == 1).sum()), ("outside", (m == 0).sum()), ("dontcare", (m == -1).sum()),
                           ("inside-exactly-on-boundary", ((m == 1) & on_boundary).sum())):
                key = "scale_by_hs[%s]: %s" % (name, lab)
                outcomes[key] = outcomes.get(key, 0) + int(n) * len(exprs)
        for expr, (dsuffix, da_v) in itertools.product(exprs, variants):
            param = (expr, name, kw)
            pred = "windows=%s%s" % (name, dsuffix)
            try:
                res = da_v.spec.scale_by_hs(expr, **kw)
                new = np.asarray(res.transpose("site", "freq", "dir").values)
                if new.shape != E.shape or list(res["dir"].values) != list(d) or list(res["freq"].values) != list(f):
                    raise AssertionError("result shape/coordinates differ from the input: %s" % (res.dims,))
                new = new.astype(np.float64)
            except Exception as e:  # noqa
                out.append((-1, "scale_by_hs", param, "scale_by_hs", "raises-" + type(e).__name__, pred, "scale_by_hs(%r, %s) raised %s: %s" % (expr, kw, type(e).__name__, e)))
                continue
            target = expr_value(expr, R.hs)
            Rn = Ref(f, d, np.where(np.isfinite(new), new, 0.0))
            finite = np.isfinite(new).all(axis=(1, 2))
            F = Fails()
            inside, outside = m == 1, m == 0
            F.add(~inside | (finite & rel_ok(Rn.hs, target, F64_REL)), "scale_by_hs", "hs-equals-expression-inside-ranges", pred,
                  lambda i: "scale_by_hs(%r, %s): spectrum with hs=%r tp=%r dpm=%r is inside the ranges but has hs=%r afterwards, expected %r%s" % (
                      expr, kw, float(hsL[i]), float(tpL[i]), float(dpmL[i]), float(Rn.hs[i]), float(target[i]),
                      " [exactly on a range bound]" if on_boundary[i] else ""))
            fac = (target / R.hs) ** 2
            with np.errstate(all="ignore"):
                prop_ok = (np.abs(new - E * fac[:, None, None]) <= F64_REL * np.abs(E * fac[:, None, None]) + 1e-300).all(axis=(1, 2))
            F.add(~inside | ~rel_ok(Rn.hs, target, F64_REL) | prop_ok, "scale_by_hs", "rescaled-is-a-multiple-of-the-input", pred,
                  lambda i: "scale_by_hs(%r, %s): result is not (target/hs)^2 times the input for the spectrum with hs=%r" % (expr, kw, float(hsL[i])))
            same = (new.view(np.int64) == E.view(np.int64)).all(axis=(1, 2))
            F.add(~outside | same, "scale_by_hs", "untouched-outside-ranges", pred,
                  lambda i: "scale_by_hs(%r, %s): spectrum with hs=%r tp=%r dpm=%r is outside the ranges but was changed (hs afterwards %r)" % (
                      expr, kw, float(hsL[i]), float(tpL[i]), float(dpmL[i]), float(Rn.hs[i])))
            for (i, stat, clause, pred_, msg) in F.items:
                out.append((i, "scale_by_hs", param, stat, clause, pred_, msg))
    return out


# ---------------------------------------------------------------------------------------------
# work items
# ---------------------------------------------------------------------------------------------
def nondegenerate(E):
    return ((E.sum(axis=2) > 0).sum(axis=1) >= 2) & ((E.sum(axis=1) > 0).sum(axis=1) >= 2)


def family(kind, nf, nd, al):
    nz = [a for a in al if a != 0]
    if kind == "product":
        return gen.product_array(nf * nd, al).reshape(-1, nf, nd)
    if kind == "structured":
        return gen.structured(nf, nd, al, kmax=2)
    if kind == "bumps1":
        return np.concatenate([gen.bumps(nf, nd, 1, [h], base=b) for h in nz for b in (0.0, min(nz) / 8.0)])
    if kind == "bumps2":
        return np.concatenate([gen.bumps(nf, nd, 2, [max(nz), min(nz)], base=b) for b in (0.0, min(nz) / 8.0)])
    if kind == "bumps3":
        return gen.bumps(nf, nd, 3, [max(nz), min(nz), (max(nz) + min(nz)) / 2.0], base=0.0)
    raise ValueError(kind)


def spectra_for(it):
    """the item's non-degenerate spectra (families joined by '+', in order), and the size of each family"""
    nf, nd = len(it["f"]), len(it["d"])
    parts, sizes = [], {}
    for kind in it["kind"].split("+"):
        E = family(kind, nf, nd, it["alpha"])
        E = E[nondegenerate(E)]
        parts.append(E)
        sizes[kind] = E.shape[0]
    E = np.concatenate(parts)
    if it.get("whole_units"):  # densities as whole numbers of the smallest positive value (these batches also run as int64 arrays)
        pos = E[E > 0]
        E = np.rint(E / (pos.min() if pos.size else 1.0))
    lo, hi = it.get("slice", (0, None))
    return E[lo:hi], sizes


CHUNK = 10000


def work_items(tier, seed):
    fams = dict(gen.freq_families(seed, sizes=(2, 3, 4, 5)))
    dsets = {len(d): d for _, d in gen.dir_sets(seed)}
    thorough = tier == "thorough"
    items = []

    def add(kind, fname, nd, alpha, **more):
        f, d = fams[fname], dsets[nd]
        it = dict(kind=kind, f=f, d=d, alpha=alpha, grid="%s/d%d" % (fname, nd), **more)
        n = spectra_for(it)[0].shape[0]
        for s in range(0, n, CHUNK):
            items.append(dict(it, slice=(s, min(n, s + CHUNK)), n=min(n, s + CHUNK) - s))

    a3 = gen.alphabet(seed, 3)
    a4 = gen.alphabet(seed, 4)
    small = [(2, 2), (2, 3), (3, 2), (2, 4), (4, 2), (3, 3)]
    for nf, nd in small:
        cells = nf * nd
        for fam in ("log_lo_%d", "log_hi_%d") + (("lin_at_%d",) if thorough else ()):
            alpha = a4 if (thorough and (cells <= 6 or (cells == 8 and fam.startswith("log_hi")))) else a3
            add("product", fam % nf, nd, alpha)
    add("product", "log_hi_3", 2, a3, whole_units=True)
    add("structured+bumps1", "irr_4", 6, a3, whole_units=True)
    for nf, nd in ((4, 6), (5, 8)):
        for fam in ("irr_%d", "irr_hi_%d") + (("log_hi_%d", "lin_at_%d") if thorough else ()):
            add("structured+bumps1+bumps2" + ("+bumps3" if thorough and nf == 4 else ""), fam % nf, nd, a3)
    items.sort(key=lambda it: (len(it["f"]) * len(it["d"]), it["kind"] != "product"))
    return items


def sig_of(kind, param, stat, clause, pred):
    return "%s|%s|%s" % (stat, clause, pred)


def case_of(it_f, it_d, Eb, kind, param, stat):
    case = dict(kind=kind, f=np.asarray(it_f, dtype=float), d=np.asarray(it_d, dtype=float), efth=Eb, stat=stat)
    if kind in ("scale", "bounds-scaled"):
        case["k"] = float(param)
    elif kind in ("relabel", "bounds-relabelled"):
        case["angle"] = param
    elif kind == "scale_by_hs" and param is not None:
        case["expr"], case["windows"], case["kwargs"] = param[0], param[1], dict(param[2])
    return case


def run_case(case):
    """all failures of one stored case (single spectrum)"""
    f = np.asarray(case["f"], dtype=float)
    d = np.asarray(case["d"], dtype=float)
    E = np.asarray(case["efth"], dtype=float)
    if E.ndim == 2:
        E = E[None]
    kind = case["kind"]
    if kind == "bounds":
        fails = eval_group(f, d, E, [], [], bounds=True)
    elif kind in ("scale", "bounds-scaled"):
        fails = eval_group(f, d, E, [float(case["k"])], [], bounds=True)
    elif kind in ("relabel", "bounds-relabelled"):
        fails = eval_group(f, d, E, [], [case["angle"]], bounds=True)
    elif kind == "scale_by_hs":
        kw = {k: float(v) for k, v in case["kwargs"].items()}
        fails = eval_sbh(f, d, E, configs=[(case["windows"], kw)], exprs=[case["expr"]])
    else:
        raise ValueError(kind)
    return [x for x in fails if x[1] == kind]


def replay(case):
    out = []
    for (i, kind, param, stat, clause, pred, msg) in run_case(case):
        out.append(Violation(PROP, sig_of(kind, param, stat, clause, pred), msg, dict(case, stat=stat)))
    return out


def isolate_exception(f, d, E, kind, param, stat):
    lo, hi = 0, E.shape[0]
    while hi - lo > 1:
        mid = (lo + hi) // 2
        case = case_of(f, d, E[lo:mid], kind, param, stat)
        if any(x[0] == -1 and x[3] == stat for x in run_case(case)):
            hi = mid
        else:
            lo = mid
    return lo


def run_item(it):
    E, sizes = spectra_for(it)
    f, d = it["f"], it["d"]
    N = E.shape[0]
    res = {"evals": 0, "n_nontrivial": 0, "samples": [], "outcomes": {}, "violations": [], "parts": {}}
    if N == 0:
        return res
    fails = eval_group(f, d, E, KS, ANGLE_LABELS, bounds=True, outcomes=res["outcomes"])
    nsbh = 0
    if it.get("sbh", True):
        fails += eval_sbh(f, d, E, outcomes=res["outcomes"])
        nsbh = 10 * len(EXPRS)
    ntr = 1 + len(KS) + len(ANGLE_LABELS)
    res["evals"] = N * (ntr + nsbh)
    nuniq = int(np.unique(E.reshape(N, -1), axis=0).shape[0])
    res["n_nontrivial"] = nuniq * (ntr + nsbh)
    if "+" in it["kind"]:
        for fam, n in sizes.items():
            res["parts"]["transform:" + fam] = n * ntr
            res["parts"]["scale_by_hs:" + fam] = n * nsbh
    else:
        res["parts"]["transform:" + it["kind"]] = N * ntr
        res["parts"]["scale_by_hs:" + it["kind"]] = N * nsbh
    seen = set()
    for (i, kind, param, stat, clause, pred, msg) in fails:
        sig = sig_of(kind, param, stat, clause, pred)
        if sig in seen:
            continue
        seen.add(sig)
        if i == -1:
            i = isolate_exception(f, d, E, kind, param, stat)
        case = case_of(f, d, E[i], kind, param, stat)
        vs = [v for v in replay(case) if v.signature == sig]
        if vs:
            res["violations"].append(vs[0])
        else:
            res["violations"].append(Violation(PROP, sig + "|batched-only", "seen only inside a batch (grid %s): %s" % (it["grid"], msg), case))
    if it["slice"][0] == 0:
        j = N // 2
        res["samples"].append(dict(grid=it["grid"], family=it["kind"], freq=f, dir=d, efth=E[j],
                                   relabelled_dir_for_a_7p3=relabelled(d, 7.3), k_values=KS))
    return res


def run(rep, tier, seed, parts=None):
    common.load_wavespectra()
    rep.rule = ("every non-degenerate spectrum (energy in >=2 frequencies and >=2 directions) among: all assignments of a 3-value "
                "(thorough: 4-value up to 6 cells, and 8 cells on the grid ending above 0.333 Hz) alphabet to the bins of 2x2, 2x3, 3x2, 2x4, 4x2, 3x3 grids; on 4x6 and 5x8 grids the "
                "complete structured families (constants, every impulse pair with every height pair, ramps, checkerboards) and every "
                "single bump / pair of bumps (thorough: triple on 4x6) with every height assignment, with and without a background; "
                "frequency grids ending below, at and above 0.333 Hz. Each spectrum is evaluated as is, times each k in "
                "{1e-6,1e-3,0.5,2,1e3,1e6}, and with directions relabelled by each a in {dd,-dd,7.3,-33,180,360,725.5,1e-3} "
                "(dir=(dir+a)%360, stored order kept), all ~30 statistics each time; scale_by_hs with 3 expressions x 10 window "
                "configurations (batches whose densities are whole numbers also as int64 arrays) taken from the batch's own hs/tp/dpm values (1/3 and 2/3 quantile elements, so some spectra are "
                "exactly on a bound). Every case is non-trivial (non-degenerate spectrum); count = distinct spectra x transformations.")
    rep.extra["alphabet"] = list(gen.alphabet(seed, 3))
    rep.extra["k_values"] = KS
    rep.extra["angles"] = ANGLE_LABELS
    rep.assumptions = [
        "documented thresholds inside the library are excluded rather than reported: sw is compared / required real only where hs stays "
        "clear of the 0.001 mask on both runs; swe is not compared where its radicand is within 1e-8 of the 1e-6 floor; gamma's clip at 1 is continuous and needs no exclusion",
        "sqrt-of-difference statistics (swe, sw, dspr, dpspr, gw) are compared on their radicand (abs 1e-10); reference radicands below 1e-9 are don't-care",
        "peak-based statistics (tp, fp, dpm, dpspr, gamma, alpha) are compared only where rounding cannot change the selected peak: no two adjacent non-zero bins of E(f) "
        "equal to 1e-12 and a unique largest interior local maximum (decided by a plain reference); ties between equal direction totals are don't-care for dp",
        "dm / dpm are compared (circularly) only where the resultant of the direction moments exceeds 1e-6 of the energy",
        "alpha is a fetch-dependent energy scale, not a shape parameter: under energy scaling nothing is demanded of it (the observed x k behaviour is recorded in distinct_outcomes); "
        "under relabelling it must be unchanged; uss_x / uss_y under relabelling are not demanded (they rotate as a vector)",
        "gw is treated as a spectral width / spread: the library's gaussian() constructor takes it as a standard deviation in Hz, so it must be real and independent of the energy scale",
        "scale_by_hs: membership of a range is decided by the plain reference; a statistic within 1e-9 (hs) / 1e-5 (tp, dpm) of a bound is don't-care "
        "unless the library's own hs()/tp()/dpm() value is exactly the bound, which the inclusive range must accept; no-peak spectra (NaN tp/dpm) are outside any tp/dpm range",
        "batched evaluation is sound (C06); every batched failure is re-run as a single spectrum before it is reported",
    ]
    items = work_items(tier, seed)
    import os
    only = os.environ.get("C10_ONLY")  # debugging aid (mutant triage): comma separated grid names
    if only:
        parts = (parts or []) + only.split(",")
        rep.cap("debug run restricted to grids %s" % only)
    if parts:
        items = [it for it in items if it["kind"] in parts or it["grid"] in parts]
    for res in common.pmap(run_item, items):
        rep.merge(res)
    rep.extra["work_items"] = len(items)
