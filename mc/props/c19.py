"""C19 - partition tracking assigns consistent wave-system identifiers over time.

Bounded-exhaustive histories of (fp, dpm) partition statistics through the REAL ``np_track_partitions`` plus an explicit
state search (BFS over (last row, canonicalised ids) states, every transition executed by the real function on a
representative history re-run from the start), the xarray wrapper ``track_partitions`` on multi-site batches and a small
end-to-end ``ptm1_track`` run.

Oracle = the invariants of the statement only (all of them are safety clauses: nothing forces a continuation):
  marker       non-empty partition (fp not NaN) <=> id >= 0 ; empty <=> -999
  unique       no id twice within a time step
  order/count  scanning time-major, partition-minor the new ids appear as 0,1,2,... and the reported count is their number
  carry        an id present at steps t-1 (partition q) and t (partition p) joins partitions with wrapped |d dpm| < ddpm_max
               and dfp_min < d fp < dfp_max, sea thresholds when q == 0, swell thresholds otherwise; thresholds are
               re-derived here from Ewans & Kibblewhite (duration limited growth) and Snodgrass et al. (swell dispersion)
  once         a previous partition is continued by at most one current partition
  no-reappear  an id absent from a step never shows up again
Comparisons closer than 1e-9 (relative) to a threshold are don't-care.
"""
from __future__ import annotations

import itertools
import math

import numpy as np

from mc import common
from mc.common import Violation

PROP = "C19"
LEVEL = "model_checking"
OP = "np_track_partitions"
MISSING = -999
G0 = 9.80665  # standard gravity (m/s2)
FAILED = -32000  # internal marker: the call raised
T0 = np.datetime64("2020-01-01T00:00:00", "ns")


# ---------------------------------------------------------------------------------------------
# thresholds, re-derived (not imported from the library)
# ---------------------------------------------------------------------------------------------
def swell_rate(dt_s, distance):
    """Snodgrass et al. (1966): swell generated at distance x arrives with f(t) = g t / (4 pi x), so over dt the peak
    frequency rises by g dt / (4 pi x)."""
    return G0 * dt_s / (4.0 * math.pi * distance)


def sea_change(wspd, fp_prev, dt_s, scaling):
    """Ewans & Kibblewhite (1986) duration-limited growth fp(t) = 15.8 (g/U)^0.57 t^-0.43.
    A sea with peak fp_prev has the equivalent duration t0 = (A/fp_prev)^(1/0.43), A = 15.8 (g/U)^0.57; after a further dt
    its peak is fp_prev (1 + dt/t0)^-0.43 (times the user scaling); the (negative) change is returned."""
    wspd = np.asarray(wspd, dtype=np.float64)
    fp_prev = np.asarray(fp_prev, dtype=np.float64)
    with np.errstate(all="ignore"):
        A = 15.8 * (G0 / wspd) ** 0.57
        t0 = (A / fp_prev) ** (1.0 / 0.43)
        return scaling * fp_prev * (1.0 + dt_s / t0) ** (-0.43) - fp_prev


def circ_absdiff(a, b):
    d = np.abs(np.asarray(a, dtype=np.float64) - np.asarray(b, dtype=np.float64)) % 360.0
    return np.minimum(d, 360.0 - d)


# ---------------------------------------------------------------------------------------------
# configurations (threshold parameters x wind) and alphabets placed relative to the thresholds
# ---------------------------------------------------------------------------------------------
MENU = [  # (ddpm_sea_max, ddpm_swell_max, dfp_sea_scaling, dfp_swell_source_distance, dt seconds)
    (30.0, 20.0, 1.0, 1e6, 3600),
    (12.0, 30.0, 1.0, 1e6, 3600),
    (20.0, 12.0, 1.0, 5e5, 3600),
    (30.0, 20.0, 0.98, 2e6, 3600),
    (30.0, 20.0, 1.02, 1e6, 3600),
    (30.0, 20.0, 1.0, 1e6, 10800),
]
WINDS = [5.0, 10.0, 20.0]
F0S = [0.2, 0.21, 0.18, 0.23, 0.19]
DPMS = [(0.0, 15.0, 350.0), (355.0, 8.0, 22.0), (2.0, 341.0, 352.0), (0.0, 16.0, 349.0), (10.0, 28.0, 1.0)]
FAR_DIRS = (170.0, 190.0, 185.0)


def make_cfg(menu_i, wspd):
    a, b, c, d, dt = MENU[menu_i]
    return dict(ddpm_sea_max=a, ddpm_swell_max=b, dfp_sea_scaling=c, dfp_swell_source_distance=d, dt_s=dt, wspd=float(wspd),
                menu=menu_i)


def all_cfgs(menus=None, winds=None):
    return [make_cfg(m, w) for m in (range(len(MENU)) if menus is None else menus) for w in (WINDS if winds is None else winds)]


def fp_values(cfg, seed):
    """[f0, f0+0.6ds, f0-0.6ds, f_mid, f_beyond]: from f0, +-0.6ds are inside the swell window, f_mid lies between the sea
    lower threshold and -ds when that gap exists (else just outside the swell window), f_beyond is below every lower
    threshold. No pair of values is within 1e-6 (relative) of any threshold (asserted, offsets are nudged otherwise)."""
    f0 = F0S[seed % len(F0S)]
    ds = swell_rate(cfg["dt_s"], cfg["dfp_swell_source_distance"])
    L0 = float(sea_change(cfg["wspd"], f0, cfg["dt_s"], cfg["dfp_sea_scaling"]))
    o_mid = 0.5 * (L0 - ds) if L0 < -1.25 * ds else -1.6 * ds
    o_far = 1.3 * min(L0, -ds) - 0.3 * ds
    offs = [0.0, 0.6 * ds, -0.6 * ds, o_mid, o_far]
    for _ in range(50):
        vals = [f0 + o for o in offs]
        clash = None
        for i, a in enumerate(vals):
            La = float(sea_change(cfg["wspd"], a, cfg["dt_s"], cfg["dfp_sea_scaling"]))
            for j, b in enumerate(vals):
                for thr in (ds, -ds, La):
                    if abs((b - a) - thr) <= 1e-6 * abs(thr):
                        clash = max(i, j)
        if clash is None:
            assert min(vals) > 0.02, vals
            return vals
        offs[clash] *= 1.013
    raise AssertionError("could not place the fp alphabet away from the thresholds")


def alphabet(cfg, seed, kind):
    """cells: index 0 is the empty partition (None), the others (fp, dpm)."""
    f = fp_values(cfg, seed)
    d = DPMS[seed % len(DPMS)]
    if kind == "full":  # 16 cells
        return [None] + [(x, y) for x in f for y in d]
    if kind == "full13":  # 13 cells
        return [None] + [(x, y) for x in f[:4] for y in d]
    if kind == "reduced":  # 5 cells
        return [None, (f[0], d[0]), (f[2], d[2]), (f[3], d[1]), (f[1], d[1])]
    if kind == "reduced4":
        return [None, (f[0], d[0]), (f[2], d[2]), (f[3], d[1])]
    if kind == "tiny":  # 3 cells
        return [None, (f[0], d[0]), (f[2], d[2])]
    if kind == "dir":  # 13 cells, directions half a circle apart included
        return [None] + [(x, y) for x in (f[0], f[2]) for y in tuple(d) + FAR_DIRS]
    if kind == "unwrap":  # 13 cells, the same directions written in other 360-degree windows (unwrapped records, mixed conventions)
        return [None] + [(x, y) for x in (f[0], f[2]) for y in (d[0], d[0] + 360.0, d[1] - 360.0, d[0] + 45.0 + 360.0, d[0] + 45.0 - 720.0, d[2] + 720.0)]
    raise ValueError(kind)


def cells_arrays(cells):
    fpv = np.array([np.nan if c is None else c[0] for c in cells], dtype=np.float64)
    dpv = np.array([np.nan if c is None else c[1] for c in cells], dtype=np.float64)
    return fpv, dpv


def decode(lo, hi, C, P, T):
    """history indices lo..hi-1 -> cell digits [N, P, T]; digit order time-major, partition-minor, most significant first
    (index 0 = everything empty)."""
    idx = np.arange(lo, hi, dtype=np.int64)
    n = P * T
    dig = np.empty((hi - lo, n), dtype=np.int64)
    for c in range(n - 1, -1, -1):
        dig[:, c] = idx % C
        idx //= C
    return dig.reshape(-1, T, P).transpose(0, 2, 1)


# ---------------------------------------------------------------------------------------------
# the implementation under test
# ---------------------------------------------------------------------------------------------
def kwargs_of(cfg):
    return dict(ddpm_sea_max=cfg["ddpm_sea_max"], ddpm_swell_max=cfg["ddpm_swell_max"], dfp_sea_scaling=cfg["dfp_sea_scaling"],
                dfp_swell_source_distance=cfg["dfp_swell_source_distance"])


def times_of(T, dt_s):
    return T0 + np.arange(T) * np.timedelta64(int(dt_s), "s")


def run_real_batch(FP, DP, W, cfg):
    """np_track_partitions on every history of the batch. IDS[i] == FAILED where the call raised (errors[i] = text)."""
    common.load_wavespectra()
    from wavespectra.partition.tracking import np_track_partitions

    N, P, T = FP.shape
    times = times_of(T, cfg["dt_s"])
    kw = kwargs_of(cfg)
    IDS = np.full((N, P, T), FAILED, dtype=np.int64)
    NP = np.full(N, FAILED, dtype=np.int64)
    errors = {}
    for i in range(N):
        try:
            ids, n = np_track_partitions(times, FP[i].copy(), DP[i].copy(), W[i].copy(), **kw)
            ids = np.asarray(ids)
            if ids.shape != (P, T):
                errors[i] = "result shape %s, expected %s" % (ids.shape, (P, T))
                continue
            IDS[i] = ids
            NP[i] = int(n)
        except Exception as e:  # noqa
            errors[i] = "%s: %s" % (type(e).__name__, str(e)[:200])
    return IDS, NP, errors


# ---------------------------------------------------------------------------------------------
# oracle: loops over steps / partitions, vectorised over the batch only
# ---------------------------------------------------------------------------------------------
def oracle_batch(FP, DP, W, cfg, IDS, NP, rtol=1e-9, maxper=20):
    """Returns (bad, counts): bad = list of (i, clause, predicate, message); counts = outcome counters."""
    N, P, T = FP.shape
    ok_run = NP != FAILED
    bad = []
    nper = {}
    cnt = {}

    def flag(mask, clause, pred, fmt):
        mask = mask & ok_run
        idx = np.flatnonzero(mask)
        if idx.size == 0:
            return
        key = (clause, pred)
        for i in idx:
            nper[key] = nper.get(key, 0) + 1
            if nper[key] <= maxper:
                bad.append((int(i), clause, pred, fmt(int(i))))

    def add(name, mask):
        v = int(np.count_nonzero(mask & ok_run))
        if v:
            cnt[name] = cnt.get(name, 0) + v

    empty = np.isnan(FP)
    # -- marker
    for t in range(T):
        for p in range(P):
            e = empty[:, p, t]
            x = IDS[:, p, t]
            flag(e & (x != MISSING), "marker", "empty-partition-not-missing",
                 lambda i, p=p, t=t: "empty partition %d at step %d got id %d instead of -999" % (p, t, IDS[i, p, t]))
            flag(~e & (x < 0), "marker", "nonempty-partition-without-id",
                 lambda i, p=p, t=t: "non-empty partition %d at step %d got %d, not an identifier" % (p, t, IDS[i, p, t]))
    # -- unique within a step
    for t in range(T):
        for p in range(P):
            for q in range(p + 1, P):
                m = (IDS[:, p, t] >= 0) & (IDS[:, p, t] == IDS[:, q, t])
                flag(m, "unique-in-step", "same-id-twice",
                     lambda i, p=p, q=q, t=t: "id %d used by partitions %d and %d at step %d" % (IDS[i, p, t], p, q, t))
    # -- order of first appearance and reported count
    nxt = np.zeros(N, dtype=np.int64)
    order_bad = np.zeros(N, dtype=bool)
    for t in range(T):
        for p in range(P):
            x = IDS[:, p, t]
            isnew = (x >= 0) & (x >= nxt)
            wrong = isnew & (x != nxt) & ~order_bad
            flag(wrong, "order", "new-id-not-next-in-order",
                 lambda i, p=p, t=t, nx=nxt.copy(): "first appearance of id %d at step %d partition %d, expected %d" % (
                     IDS[i, p, t], t, p, nx[i]))
            order_bad |= wrong
            if t > 0:
                add("new_id_after_first_step", isnew)
            nxt = nxt + isnew
    flag((NP != nxt) & ~order_bad, "count", "reported-count-differs",
         lambda i: "reported count %d, distinct ids issued %d" % (NP[i], nxt[i]))
    for k in range(P * T + 1):
        add("n_ids=%d" % k, nxt == k)
    # -- carry only within thresholds; each predecessor continued at most once
    ds = swell_rate(cfg["dt_s"], cfg["dfp_swell_source_distance"])
    for t in range(1, T):
        with np.errstate(all="ignore"):
            lo_a = sea_change(W[:, t - 1], FP[:, 0, t - 1], cfg["dt_s"], cfg["dfp_sea_scaling"])
            lo_b = sea_change(W[:, t], FP[:, 0, t - 1], cfg["dt_s"], cfg["dfp_sea_scaling"])
            lo_sea = np.fmin(lo_a, lo_b)
        for q in range(P):
            ncont = np.zeros(N, dtype=np.int64)
            typ = "sea" if q == 0 else "swell"
            dmax = cfg["ddpm_sea_max"] if q == 0 else cfg["ddpm_swell_max"]
            lo = lo_sea if q == 0 else np.full(N, -ds)
            for p in range(P):
                both = ~empty[:, p, t] & ~empty[:, q, t - 1]
                carried = (IDS[:, p, t] >= 0) & (IDS[:, p, t] == IDS[:, q, t - 1])
                ncont += carried
                with np.errstate(all="ignore"):
                    raw = np.abs(DP[:, p, t] - DP[:, q, t - 1])
                    dd = circ_absdiff(DP[:, p, t], DP[:, q, t - 1])
                    df = FP[:, p, t] - FP[:, q, t - 1]
                    out_d = dd > dmax * (1 + rtol)
                    out_hi = df > ds * (1 + rtol)
                    out_lo = df < lo - rtol * np.abs(lo)
                    near = (np.abs(dd - dmax) <= rtol * dmax) | (np.abs(df - ds) <= rtol * ds) | (np.abs(df - lo) <= rtol * np.abs(lo))
                    inside = both & ~out_d & ~out_hi & ~out_lo & ~near
                wrap = raw > 180.0
                cb = carried & both
                for msk, what in ((out_d, "dir"), (out_hi, "fp-above"), (out_lo, "fp-below")):
                    for wmask, wname in ((~wrap, ""), (wrap, ",across-360")):
                        flag(cb & msk & wmask, "carry-within-thresholds", "pred=%s,out=%s%s" % (typ, what, wname),
                             lambda i, p=p, q=q, t=t, dd=dd, df=df, lo=lo, dmax=dmax: (
                                 "id %d carried from partition %d (step %d: fp=%r dpm=%r) to partition %d (step %d: fp=%r dpm=%r): "
                                 "|d dpm|=%r (max %r), d fp=%r (allowed %r .. %r)" % (
                                     IDS[i, p, t], q, t - 1, FP[i, q, t - 1], DP[i, q, t - 1], p, t, FP[i, p, t], DP[i, p, t],
                                     float(dd[i]), dmax, float(df[i]), float(lo[i]), ds)))
                add("carried_from_" + typ, cb)
                add("carried_across_360", cb & wrap)
                if q == 0:
                    add("carried_sea_with_dfp_below_swell_window", cb & (df < -ds))
                add("dontcare_near_threshold", cb & near)
                add("pair_within_thresholds_not_carried(allowed)", inside & ~carried)
                add("pair_outside_thresholds", both & (out_d | out_hi | out_lo))
            flag(ncont > 1, "continued-at-most-once", "pred=" + typ,
                 lambda i, q=q, t=t: "partition %d of step %d is continued by more than one partition of step %d: ids %s -> %s" % (
                     q, t - 1, t, IDS[i, :, t - 1].tolist(), IDS[i, :, t].tolist()))
    # -- an id that stopped being continued never reappears
    for k in range(P * T):
        pres = (IDS == k).any(axis=1)  # [N, T]
        if not pres.any():
            break
        seen = np.zeros(N, dtype=bool)
        gone = np.zeros(N, dtype=bool)
        back = np.zeros(N, dtype=bool)
        for t in range(T):
            back |= gone & pres[:, t]
            gone |= seen & ~pres[:, t]
            seen |= pres[:, t]
        flag(back, "no-reappear", "id-returns-after-absence",
             lambda i, k=k: "id %d disappears and is used again later: ids per step %s" % (k, IDS[i].T.tolist()))
        add("id_dropped", gone)
    return bad, cnt, nper


def nontrivial_mask(FP):
    e = ~np.isnan(FP)
    anyp = e.any(axis=1)  # [N, T]
    return (anyp[:, 1:] & anyp[:, :-1]).any(axis=1)


def case_of(kind, fp, dpm, wspd, cfg, ids=None, n=None, **more):
    c = dict(kind=kind, fp=np.asarray(fp), dpm=np.asarray(dpm), wspd=np.asarray(wspd), cfg=dict(cfg))
    if ids is not None:
        c["got_ids"] = np.asarray(ids)
        c["got_count"] = int(n)
    c.update(more)
    return c


def check_batch(FP, DP, W, cfg, res, rtol=1e-9, op=OP, IDS=None, NP=None, errors=None):
    """Run + oracle on a batch; append violations / counters to the worker result dict. Returns (IDS, NP)."""
    if IDS is None:
        IDS, NP, errors = run_real_batch(FP, DP, W, cfg)
    for i, msg in sorted((errors or {}).items())[:20]:
        kind = "shape" if msg.startswith("result shape") else "raises"
        pred = msg.split(":")[0] if kind == "raises" else "wrong-shape"
        res["violations"].append(Violation(PROP, "%s|%s|%s" % (op, kind, pred), "tracking failed on a valid history: " + msg,
                                           case_of("np", FP[i], DP[i], W[i], cfg)))
    bad, cnt, nper = oracle_batch(FP, DP, W, cfg, IDS, NP, rtol=rtol)
    for (i, clause, pred, msg) in bad:
        res["violations"].append(Violation(PROP, "%s|%s|%s" % (op, clause, pred), msg,
                                           case_of("np", FP[i], DP[i], W[i], cfg, IDS[i], NP[i])))
    for k, v in cnt.items():
        res["outcomes"][k] = res["outcomes"].get(k, 0) + v
    return IDS, NP


def new_res():
    return {"evals": 0, "n_nontrivial": 0, "samples": [], "outcomes": {}, "violations": [], "parts": {}, "caps": []}


# ---------------------------------------------------------------------------------------------
# part 1: exhaustive histories
# ---------------------------------------------------------------------------------------------
CHUNK = 16384


def hist_items(tier, seed, parts):
    """(name, P, T, alphabet kind, cfgs, wind series or None)"""
    specs = []
    every = all_cfgs()
    one_per_wind = [make_cfg((seed + i) % len(MENU), w) for i, w in enumerate(WINDS)]
    if parts is None or "hist" in parts:
        specs.append(("P1T3_full16", 1, 3, "full", every, None))
        specs.append(("P2T2_full16", 2, 2, "full", every, None))
        specs.append(("P3T2_reduced5", 3, 2, "reduced", every, None))
        specs.append(("P2T3_reduced5", 2, 3, "reduced", every, None))
        if tier == "thorough":
            specs.append(("P2T3_full13", 2, 3, "full13", one_per_wind, None))
            specs.append(("P3T3_reduced5", 3, 3, "reduced", one_per_wind, None))
            specs.append(("P4T2_reduced5", 4, 2, "reduced", one_per_wind, None))
    if parts is None or "dir" in parts:
        specs.append(("P2T2_dir13", 2, 2, "dir", all_cfgs(menus=[0, 1, 2], winds=[10.0]), None))
        specs.append(("P2T2_unwrap13", 2, 2, "unwrap", all_cfgs(menus=[0, 1, 2], winds=[10.0]), None))
    if parts is None or "wind" in parts:
        specs.append(("P2T3_reduced5_wind(5,20,10)", 2, 3, "reduced", all_cfgs(menus=[0, 3, 4], winds=[5.0]), [5.0, 20.0, 10.0]))
        specs.append(("P2T3_reduced5_wind(20,5,20)", 2, 3, "reduced", all_cfgs(menus=[0, 3, 4], winds=[20.0]), [20.0, 5.0, 20.0]))
        # calm steps (wind exactly 0: the growth law has no finite duration, the sea window shrinks to its U -> 0 limit) and a gap in the wind
        # record (NaN: the sea threshold is undefined, nothing is demanded of slot 0 there; the swell clauses still apply)
        specs.append(("P2T3_reduced5_wind(0,0,10)", 2, 3, "reduced", all_cfgs(menus=[0, 3], winds=[5.0]), [0.0, 0.0, 10.0]))
        specs.append(("P2T3_reduced5_wind(10,0,0)", 2, 3, "reduced", all_cfgs(menus=[0, 3], winds=[10.0]), [10.0, 0.0, 0.0]))
        specs.append(("P2T3_reduced5_wind(nan,10,nan)", 2, 3, "reduced", all_cfgs(menus=[0], winds=[10.0]), [float("nan"), 10.0, float("nan")]))
    items = []
    for (name, P, T, kind, cfgs, wser) in specs:
        for cfg in cfgs:
            cells = alphabet(cfg, seed, kind)
            total = len(cells) ** (P * T)
            for lo in range(0, total, CHUNK):
                items.append(dict(name=name, P=P, T=T, cells=cells, cfg=cfg, wser=wser, lo=lo, hi=min(total, lo + CHUNK),
                                  first=(lo == 0)))
    order = {n: i for i, n in enumerate(dict.fromkeys(s[0] for s in specs))}
    items.sort(key=lambda it: (it["P"] * it["T"], order[it["name"]], it["lo"]))
    return items


def run_hist_item(it):
    res = new_res()
    P, T, cells, cfg = it["P"], it["T"], it["cells"], it["cfg"]
    fpv, dpv = cells_arrays(cells)
    dig = decode(it["lo"], it["hi"], len(cells), P, T)
    FP = np.ascontiguousarray(fpv[dig])
    DP = np.ascontiguousarray(dpv[dig])
    N = FP.shape[0]
    W = np.empty((N, T))
    W[:] = cfg["wspd"] if it["wser"] is None else np.asarray(it["wser"], dtype=float)
    IDS, NP = check_batch(FP, DP, W, cfg, res)
    res["evals"] = N
    res["n_nontrivial"] = int(nontrivial_mask(FP).sum())
    res["parts"][it["name"]] = N
    if it["first"] and cfg["menu"] == 0 and N > 10:
        j = N - 1 - (N // 7)
        res["samples"].append(dict(part=it["name"], cfg=cfg, fp=FP[j], dpm=DP[j], wspd=W[j], part_id=IDS[j], npart_id=int(NP[j])))
    return res


# ---------------------------------------------------------------------------------------------
# part 3: explicit state search
# ---------------------------------------------------------------------------------------------
def canon_state(row, lastcol):
    valid = sorted(int(x) for x in lastcol if x >= 0)
    rank = {v: k for k, v in enumerate(valid)}
    return (tuple(int(r) for r in row), tuple(rank[int(x)] if x >= 0 else -1 for x in lastcol))


def action_of(prev_last, n_prev, last, n_new):
    """Abstract, label-free description of one transition: per partition -1 empty, j carried from partition j,
    100+k the k-th id issued at this step, 999 an id that was neither in the previous step nor new."""
    prev = [int(x) for x in prev_last]
    act = []
    for x in last:
        x = int(x)
        if x < 0:
            act.append(-1)
        elif x in prev:
            act.append(prev.index(x))
        elif x >= n_prev:
            act.append(100 + x - n_prev)
        else:
            act.append(999)
    return tuple(act) + (int(n_new) - int(n_prev),)


def bfs_expand(item):
    """Execute every (state representative, next row) transition of a chunk with the real function, from the start."""
    res = new_res()
    cfg, P, cells, rows = item["cfg"], item["P"], item["cells"], item["rows"]
    fpv, dpv = cells_arrays(cells)
    R = np.asarray(rows, dtype=np.int64)  # [nrows, P]
    out = []
    for (skey, hist, ids_prev, n_prev) in item["entries"]:
        H = np.asarray(hist, dtype=np.int64)  # [L, P]
        L = H.shape[0]
        N = R.shape[0]
        dig = np.empty((N, P, L + 1), dtype=np.int64)
        dig[:, :, :L] = H.T[None]
        dig[:, :, L] = R
        FP = np.ascontiguousarray(fpv[dig])
        DP = np.ascontiguousarray(dpv[dig])
        W = np.full((N, L + 1), cfg["wspd"])
        IDS, NP = check_batch(FP, DP, W, cfg, res)
        res["evals"] += N
        res["n_nontrivial"] += int(nontrivial_mask(FP).sum())
        ids_prev = np.asarray(ids_prev, dtype=np.int64)
        ok = NP != FAILED
        # prefix closure: appending a step never changes the ids of the earlier steps
        diff = (IDS[:, :, :L] != ids_prev[None]).any(axis=(1, 2)) & ok
        for i in np.flatnonzero(diff)[:5]:
            res["violations"].append(Violation(
                PROP, OP + "|prefix-closure|ids-of-earlier-steps-change-when-a-step-is-appended",
                "ids of the first %d steps are %s for the %d-step history but %s once step %d is appended" % (
                    L, ids_prev.T.tolist(), L, IDS[i, :, :L].T.tolist(), L),
                case_of("prefix", FP[i], DP[i], W[i], cfg, IDS[i], NP[i])))
        acts = []
        for i in range(N):
            if not ok[i]:
                acts.append(None)
                continue
            acts.append((action_of(ids_prev[:, -1], n_prev, IDS[i, :, -1], NP[i]), IDS[i].tolist(), int(NP[i])))
        out.append((skey, hist, acts))
    res["bfs"] = out
    return res


def predicted_first_step(row):
    ids = []
    k = 0
    for c in row:
        if c == 0:
            ids.append(MISSING)
        else:
            ids.append(k)
            k += 1
    return ids, k


def hist_arrays(cells, hist, P):
    fpv, dpv = cells_arrays(cells)
    H = np.asarray(hist, dtype=np.int64)
    return fpv[H].T.copy(), dpv[H].T.copy()


def bfs(rep, cfg, P, cells, maxT, nreps, label):
    """Layered BFS: layer d holds the canonical states reached by histories of exactly d+1 steps, each with up to `nreps`
    representative histories of that length; every (representative, next row) is executed by the real function.
    G[(state,row)] is the label-free transition first observed (from the shortest history); every later execution of the
    same abstract transition from a longer/different history must agree (differential check)."""
    rows = list(itertools.product(range(len(cells)), repeat=P))
    layer = {}
    for r in rows:
        ids, k = predicted_first_step(r)
        s = canon_state(r, ids)
        layer[s] = [([r], [[x] for x in ids], k)]
    G = {}
    Gsrc = {}
    all_states = set(layer)
    execs = 0
    for d in range(maxT - 1):
        entries = [(s, h, ids, n) for s, reps in layer.items() for (h, ids, n) in reps]
        chunks = [entries[i:i + 8] for i in range(0, len(entries), 8)]
        items = [dict(cfg=cfg, P=P, cells=cells, rows=rows, entries=ch) for ch in chunks]
        nxt = {}
        for res in common.pmap(bfs_expand, items):
            out = res.pop("bfs")
            rep.merge(res)
            for (skey, hist, acts) in out:
                for r, a in zip(rows, acts):
                    if a is None:
                        continue
                    act, ids_full, n = a
                    execs += 1
                    key = (skey, r)
                    if key not in G:
                        G[key] = act
                        Gsrc[key] = hist
                    elif G[key] != act:
                        fa, da = hist_arrays(cells, list(hist) + [r], P)
                        fb, db = hist_arrays(cells, list(Gsrc[key]) + [r], P)
                        rep.violations.append(Violation(
                            PROP, OP + "|state-determinism|same-last-row-and-ids-different-continuation",
                            "two histories ending in the same row with the same id pattern continue differently on the same next "
                            "row: transition %s (history of %d steps) vs %s (history of %d steps); -1 empty, j carried from "
                            "partition j, 100+k k-th new id, last = ids issued" % (act, len(hist) + 1, G[key], len(Gsrc[key]) + 1),
                            dict(kind="bfs-diff", cfg=dict(cfg), fp_a=fa, dpm_a=da, fp_b=fb, dpm_b=db)))
                    s2 = canon_state(r, [c[-1] for c in ids_full])
                    lst = nxt.setdefault(s2, [])
                    entry = (list(hist) + [r], ids_full, n)
                    if len(lst) < nreps:
                        lst.append(entry)
                    elif nreps > 1:
                        lst[-1] = entry  # keep the first nreps-1 and the last one found
        all_states |= set(nxt)
        rep.outcomes["%s:layer%d_states" % (label, d + 1)] = len(nxt)
        layer = nxt
    rep.states = (rep.states or 0) + len(all_states)
    rep.transitions = (rep.transitions or 0) + len(G)
    rep.traces = (rep.traces or 0) + execs
    rep.parts["bfs:" + label] = rep.parts.get("bfs:" + label, 0) + execs
    return len(all_states), len(G), execs


# ---------------------------------------------------------------------------------------------
# part 4: xarray wrapper on multi-site batches, ptm1_track end to end
# ---------------------------------------------------------------------------------------------
LAYOUTS = [("site", "part", "time"), ("time", "site", "part"), ("part", "time", "site")]


def run_wrapper(FP, DP, W, cfg, layout=LAYOUTS[0], dask_chunks=None):
    """track_partitions on a (site, part, time) batch; returns ids[site, part, time], counts[site]."""
    common.load_wavespectra()
    import xarray as xr
    from wavespectra.partition.tracking import track_partitions

    S, P, T = FP.shape
    times = times_of(T, cfg["dt_s"])
    coords = dict(time=times, site=np.arange(S), part=np.arange(P))
    base = ("site", "part", "time")
    fp = xr.DataArray(FP.copy(), dims=base, coords=coords).transpose(*layout)
    dpm = xr.DataArray(DP.copy(), dims=base, coords=coords).transpose(*layout)
    stats = xr.Dataset({"fp": fp, "dpm": dpm})
    wdims = ("site", "time") if layout.index("site") < layout.index("time") else ("time", "site")
    wspd = xr.DataArray(W.copy(), dims=("site", "time"), coords=dict(site=coords["site"], time=times)).transpose(*wdims)
    if dask_chunks:
        stats = stats.chunk({"site": dask_chunks})
        wspd = wspd.chunk({"site": dask_chunks})
    out = track_partitions(stats, wspd, **kwargs_of(cfg))
    ids = np.asarray(out.part_id.transpose("site", "part", "time").values).astype(np.int64)
    cnt = np.asarray(out.npart_id.values).astype(np.int64)
    return ids, cnt


def compare_sites(FP, DP, W, cfg, layout, dask_chunks, res, kindlabel):
    """each site's result in the batch == the result of tracking that site alone."""
    backend = "dask" if dask_chunks else "numpy"
    try:
        ids, cnt = run_wrapper(FP, DP, W, cfg, layout, dask_chunks)
    except Exception as e:  # noqa
        res["violations"].append(Violation(PROP, "track_partitions|raises|%s,backend=%s" % (type(e).__name__, backend),
                                           "track_partitions raised %s: %s" % (type(e).__name__, str(e)[:300]),
                                           dict(kind="xr", fp=FP, dpm=DP, wspd=W, cfg=dict(cfg), layout=list(layout),
                                                dask_chunks=dask_chunks)))
        return
    IDS1, NP1, errors = run_real_batch(FP, DP, W, cfg)
    ok = NP1 != FAILED
    differs = ((ids != IDS1).any(axis=(1, 2)) | (cnt != NP1)) & ok
    for s in np.flatnonzero(differs)[:5]:
        lo = 0 if FP.shape[0] <= 4 else max(0, s - 1)
        res["violations"].append(Violation(
            PROP, "track_partitions|sites-independent|site-result-differs-from-single-site-run,backend=%s" % backend,
            "site %d of a %d-site batch: part_id %s npart_id %d, tracked alone: %s %d" % (
                s, FP.shape[0], ids[s].tolist(), cnt[s], IDS1[s].tolist(), NP1[s]),
            dict(kind="xr", fp=FP[lo:s + 1], dpm=DP[lo:s + 1], wspd=W[lo:s + 1], cfg=dict(cfg), layout=list(layout),
                 dask_chunks=dask_chunks)))
    # the wrapper's own output also satisfies the invariants
    check_batch(FP, DP, W, cfg, res, op="track_partitions", IDS=ids, NP=cnt, errors={})
    res["outcomes"]["wrapper_%s_%s_sites_equal_single" % (kindlabel, backend)] = res["outcomes"].get(
        "wrapper_%s_%s_sites_equal_single" % (kindlabel, backend), 0) + int((~differs & ok).sum())


def run_xr_item(it):
    res = new_res()
    cfg = it["cfg"]
    if it["kind"] == "pairs":
        fpv, dpv = cells_arrays(it["cells"])
        P, T = it["P"], it["T"]
        C = len(it["cells"])
        nh = C ** (P * T)
        dig_all = decode(0, nh, C, P, T)
        for a in range(it["lo"], it["hi"]):
            for b in range(nh):
                dig = dig_all[[a, b]]
                FP, DP = fpv[dig], dpv[dig]
                W = np.array([[it["winds"][0]] * T, [it["winds"][1]] * T], dtype=float)
                compare_sites(FP, DP, W, cfg, LAYOUTS[(a + b) % 3], None, res, "pairs")
                res["evals"] += 1
                res["n_nontrivial"] += int(nontrivial_mask(FP).all())
        res["parts"]["xr_site2_pairs"] = res["evals"]
    else:  # one big batch: every history of the space is a site
        fpv, dpv = cells_arrays(it["cells"])
        P, T = it["P"], it["T"]
        C = len(it["cells"])
        dig = decode(0, C ** (P * T), C, P, T)
        FP, DP = fpv[dig], dpv[dig]
        S = FP.shape[0]
        W = np.empty((S, T))
        W[:] = np.where(np.arange(S) % 2 == 0, it["winds"][0], it["winds"][1])[:, None]
        compare_sites(FP, DP, W, cfg, tuple(it["layout"]), it["dask_chunks"], res, "batch")
        res["evals"] += S
        res["n_nontrivial"] += int(nontrivial_mask(FP).sum())
        res["parts"]["xr_big_batches"] = S
    return res


def synth_dataset(variant, nt=4):
    """Tiny synthetic spectra: a swell turning slowly, a wind sea that dies at the last step, (site 1) a second swell that
    appears at step 1."""
    common.load_wavespectra()
    import xarray as xr

    f = 0.04 * 1.1 ** np.arange(22)
    d = np.arange(0.0, 360.0, 30.0)
    ns = 2 if variant != "nosite" else 1
    E = np.zeros((nt, ns, len(f), len(d)))
    for t in range(nt):
        for s in range(ns):
            systems = [(0.08 + 0.002 * t, 200.0 + 5 * t, 1.0), (0.2 - 0.004 * t, 40.0, 0.6 if t < nt - 1 else 0.0)]
            if s == 1:
                systems.append((0.12, 300.0 if variant != "wrap" else 355.0 + 6 * t, 0.5 if t >= 1 else 0.0))
            if variant == "wrap":
                systems[0] = (0.08 + 0.002 * t, (350.0 + 8 * t) % 360, 1.0)
            if variant == "turning":
                systems[1] = (0.2 - 0.004 * t, 40.0 + 6 * t, 0.6 if t < nt - 1 else 0.0)
            for (fp_, dp_, a) in systems:
                dd = (d - dp_ + 180) % 360 - 180
                E[t, s] += a * np.exp(-((f[:, None] - fp_) / (0.12 * fp_)) ** 2) * np.exp(-(dd[None, :] / 35.0) ** 2)
    times = times_of(nt, 3600)
    if variant == "nosite":
        ds = xr.Dataset({"efth": (("time", "freq", "dir"), E[:, 0])}, coords=dict(time=times, freq=f, dir=d))
        nd = ("time",)
        shp = (nt,)
    else:
        ds = xr.Dataset({"efth": (("time", "site", "freq", "dir"), E)}, coords=dict(time=times, site=np.arange(ns), freq=f, dir=d))
        nd = ("time", "site")
        shp = (nt, ns)
    ds["wspd"] = (nd, np.full(shp, 10.0))
    ds["wdir"] = (nd, np.full(shp, 40.0))
    ds["dpt"] = (nd, np.full(shp, 100.0))
    return ds


def run_ptm1(variant, res, params=None):
    """ptm1_track on the synthetic dataset `variant`; `params` are non-default threshold parameters handed to ptm1_track
    (the oracle then uses them too, so a parameter that is not passed down shows up as a carry outside the thresholds)."""
    common.load_wavespectra()
    params = dict(params or {})
    cfg = make_cfg(0, 10.0)
    cfg.update(params)
    ds = synth_dataset(variant)
    tag = variant + "".join(",%s=%g" % kv for kv in sorted(params.items()))

    def track(dset):
        out = dset.spec.partition.ptm1_track(wspd=dset.wspd, wdir=dset.wdir, dpt=dset.dpt, swells=2, **params)
        st = out.efth.spec.stats(["fp", "dpm"])
        if "site" not in out.dims:
            out = out.expand_dims("site")
            st = st.expand_dims("site")
        FP = np.asarray(st.fp.transpose("site", "part", "time").values, dtype=np.float64)
        DP = np.asarray(st.dpm.transpose("site", "part", "time").values, dtype=np.float64)
        ids = np.asarray(out.part_id.transpose("site", "part", "time").values).astype(np.int64)
        cnt = np.asarray(out.npart_id.transpose("site").values).astype(np.int64)
        return FP, DP, ids, cnt

    try:
        FP, DP, ids, cnt = track(ds)
    except Exception as e:  # noqa
        res["violations"].append(Violation(PROP, "ptm1_track|raises|%s" % type(e).__name__,
                                           "ptm1_track raised on a tiny synthetic dataset (%s): %s: %s" % (variant, type(e).__name__, str(e)[:300]),
                                           dict(kind="ptm1", variant=variant, params=params)))
        return
    S, P, T = FP.shape
    W = np.full((S, T), 10.0)
    before = len(res["violations"])
    # statistics are float32: widen the don't-care band accordingly
    check_batch(FP, DP, W, cfg, res, rtol=1e-5, op="ptm1_track", IDS=ids, NP=cnt, errors={})
    for v in res["violations"][before:]:
        v.case = dict(kind="ptm1", variant=variant, params=params, fp=FP, dpm=DP, got_ids=ids, got_count=cnt)
    if variant != "nosite" and not params:
        for s in range(S):
            FP1, DP1, ids1, cnt1 = track(ds.isel(site=[s]))
            if not (np.array_equal(ids1[0], ids[s]) and cnt1[0] == cnt[s]):
                res["violations"].append(Violation(
                    PROP, "ptm1_track|sites-independent|site-result-differs-from-single-site-run",
                    "site %d: part_id %s npart_id %d inside the batch, %s %d alone" % (s, ids[s].tolist(), cnt[s], ids1[0].tolist(), cnt1[0]),
                    dict(kind="ptm1", variant=variant, params=params)))
    res["evals"] += S
    res["n_nontrivial"] += int(nontrivial_mask(FP).sum())
    res["parts"]["ptm1_track"] = res["parts"].get("ptm1_track", 0) + S
    res["outcomes"]["ptm1_track[%s]:npart_id=%s" % (tag, cnt.tolist())] = 1
    if variant == "wrap" and not params:
        res["samples"].append(dict(part="ptm1_track:" + tag, fp=FP, dpm=DP, part_id=ids, npart_id=cnt))


PTM1_RUNS = [("sites", {}), ("wrap", {}), ("nosite", {}), ("turning", {}),
             ("sites", dict(ddpm_swell_max=3.0)), ("sites", dict(dfp_sea_scaling=1.05)),
             ("sites", dict(dfp_swell_source_distance=1e7)), ("turning", dict(ddpm_sea_max=3.0))]


# ---------------------------------------------------------------------------------------------
# replay
# ---------------------------------------------------------------------------------------------
def _arr(x):
    return np.asarray(x, dtype=np.float64)


def replay(case):
    common.load_wavespectra()
    kind = case.get("kind", "np")
    res = new_res()
    if kind == "ptm1":
        run_ptm1(case["variant"], res, case.get("params"))
        return res["violations"]
    cfg = case["cfg"]
    if kind == "bfs-diff":
        out = []
        acts = []
        for tag in ("a", "b"):
            FP, DP = _arr(case["fp_" + tag])[None], _arr(case["dpm_" + tag])[None]
            T = FP.shape[2]
            W = np.full((1, T), cfg["wspd"])
            IDS, NP, err = run_real_batch(FP, DP, W, cfg)
            if T > 2:
                I0, N0, _ = run_real_batch(FP[:, :, :-1], DP[:, :, :-1], W[:, :-1], cfg)
                prev_last, n_prev = I0[0, :, -1], N0[0]
            else:
                ids0, n_prev = predicted_first_step([0 if np.isnan(x) else 1 for x in FP[0, :, 0]])
                prev_last = np.asarray(ids0)
            acts.append(action_of(prev_last, n_prev, IDS[0, :, -1], NP[0]))
        if acts[0] != acts[1]:
            out.append(Violation(PROP, OP + "|state-determinism|same-last-row-and-ids-different-continuation",
                                 "transition %s vs %s" % (acts[0], acts[1]), case))
        return out
    if kind == "xr":
        FP, DP, W = _arr(case["fp"]), _arr(case["dpm"]), _arr(case["wspd"])
        compare_sites(FP, DP, W, cfg, tuple(case.get("layout", LAYOUTS[0])), case.get("dask_chunks"), res, "replay")
        return res["violations"]
    FP, DP, W = _arr(case["fp"])[None], _arr(case["dpm"])[None], _arr(case["wspd"])[None]
    IDS, NP = check_batch(FP, DP, W, cfg, res)
    if kind == "prefix" and NP[0] != FAILED:
        T = FP.shape[2]
        if T > 2:
            I0, N0, _ = run_real_batch(FP[:, :, :-1], DP[:, :, :-1], W[:, :-1], cfg)
            first = I0[0]
        else:
            ids0, _ = predicted_first_step([0 if np.isnan(x) else 1 for x in FP[0, :, 0]])
            first = np.asarray(ids0)[:, None]
        if not np.array_equal(first, IDS[0][:, :T - 1]):
            res["violations"].append(Violation(PROP, OP + "|prefix-closure|ids-of-earlier-steps-change-when-a-step-is-appended",
                                               "ids of the first %d steps: %s alone, %s with the last step appended" % (
                                                   T - 1, first.T.tolist(), IDS[0][:, :T - 1].T.tolist()), case))
    return res["violations"]


# ---------------------------------------------------------------------------------------------
# driver
# ---------------------------------------------------------------------------------------------
def run(rep, tier, seed, parts=None):
    common.load_wavespectra()
    rep.rule = (
        "every history (P partitions x T steps) over a cell alphabet {empty} U {fp values placed at f0, f0+-0.6*dswell, between the "
        "sea and swell lower thresholds, beyond both} x {3 directions straddling 0/360}, complete product per (P,T,alphabet), x "
        "wind {5,10,20} x 6 threshold/time-step parameter sets; a direction alphabet with half-circle differences and one whose labels lie in other 360-degree windows (d+-360, d+720); time-varying "
        "wind; layered BFS over (last row, canonical ids) states to T=6 with every transition executed by the real function; all "
        "ordered pairs of 81 histories as 2-site batches and whole spaces as many-site batches (numpy and dask) through "
        "track_partitions; ptm1_track on synthetic spectra. Non-trivial = some step has a non-empty partition whose previous "
        "step also has one (a matching decision is made).")
    rep.assumptions = [
        "sea window for d fp is (Ewans-Kibblewhite change from the previous step's partition-0 peak, evaluated with the wind of "
        "either adjacent step; + swell rate), swell window is +-(Snodgrass rate); g = 9.80665; partition 0 of the previous "
        "step is the sea",
        "the statement only restricts when an id may be carried; it never requires a continuation, so matching fewer "
        "partitions than the documented closest-match rule is not a violation",
        "comparisons within 1e-9 relative of a threshold are don't-care (1e-5 for float32 statistics in ptm1_track); the "
        "alphabets are asserted to stay 1e-6 away from every threshold",
        "empty partition = NaN peak frequency (and NaN direction)",
    ]
    rep.extra["fp_alphabet_menu0_wind10"] = fp_values(make_cfg(0, 10.0), seed)
    rep.extra["dpm_alphabet"] = list(DPMS[seed % len(DPMS)])
    rep.extra["threshold_menu"] = [list(m) for m in MENU]
    # ---- exhaustive histories
    items = hist_items(tier, seed, parts)
    for res in common.pmap(run_hist_item, items):
        rep.merge(res)
    # ---- explicit state search
    if parts is None or "bfs" in parts:
        rep.states = rep.transitions = rep.traces = 0
        plan = [(2, "reduced", [make_cfg(m, WINDS[(m + seed) % 3]) for m in range(len(MENU))], 2),
                (3, "reduced4", [make_cfg(seed % len(MENU), 10.0)], 1)]
        if tier == "thorough":
            plan = [(2, "reduced", all_cfgs(), 2),
                    (2, "full13", [make_cfg(seed % len(MENU), 10.0)], 1),
                    (3, "reduced", [make_cfg(0, 10.0), make_cfg((1 + seed) % len(MENU), 20.0)], 2)]
        summary = []
        for (P, kind, cfgs, nreps) in plan:
            for cfg in cfgs:
                cells = alphabet(cfg, seed, kind)
                label = "P%d_%s" % (P, kind)
                summary.append([label, cfg["menu"], cfg["wspd"]] + list(bfs(rep, cfg, P, cells, 6, nreps, label)))
        rep.extra["bfs_runs(label,menu,wind,states,transitions,executions)"] = summary
    # ---- xarray wrapper
    if parts is None or "xr" in parts:
        cfg = make_cfg(seed % len(MENU), 10.0)
        tiny = alphabet(cfg, seed, "tiny")
        nh = len(tiny) ** 4
        step = 3
        xitems = [dict(kind="pairs", cfg=cfg, cells=tiny, P=2, T=2, lo=lo, hi=min(nh, lo + step), winds=(10.0, 20.0))
                  for lo in range(0, nh, step)]
        red = alphabet(cfg, seed, "reduced")
        for li, layout in enumerate(LAYOUTS):
            xitems.append(dict(kind="batch", cfg=cfg, cells=red, P=2, T=2, winds=(10.0, 5.0), layout=layout, dask_chunks=None))
            xitems.append(dict(kind="batch", cfg=cfg, cells=tiny, P=2, T=3, winds=(10.0, 20.0), layout=layout,
                               dask_chunks=[None, 1, 100][li]))
        xitems.append(dict(kind="batch", cfg=cfg, cells=tiny, P=3, T=2, winds=(20.0, 10.0), layout=LAYOUTS[0], dask_chunks=7))
        if tier == "thorough":
            xitems.append(dict(kind="batch", cfg=cfg, cells=red, P=3, T=2, winds=(20.0, 10.0), layout=LAYOUTS[1], dask_chunks=None))
            xitems.append(dict(kind="batch", cfg=cfg, cells=red, P=2, T=3, winds=(5.0, 10.0), layout=LAYOUTS[2], dask_chunks=1000))
        for res in common.pmap(run_xr_item, xitems):
            rep.merge(res)
    # ---- end to end
    if parts is None or "ptm1" in parts:
        for variant, params in PTM1_RUNS:
            res = new_res()
            run_ptm1(variant, res, params)
            rep.merge(res)
