"""C08 - regridding (interp / interp_like / regrid_spec / rotate): exact on nodes, conserving, circular.

Bounded-exhaustive: every (source grid, target grid, option) combination of a finite grid alphabet is run on the real
accessor with complete spectrum families batched along a leading dimension, and compared bin by bin with a reference
piecewise-linear interpolant written with plain loops (label based, circular in direction).
"""
from __future__ import annotations

import math
import numpy as np

from mc import common, gen
from mc.common import Violation

PROP = "C08"
LEVEL = "exploration"

TOL_ID = 1e-12      # identity / roll: statement says "identity"; one-ulp slack only
TOL_F8 = 1e-9       # interpolant and Hs for float64 input
TOL_F4 = 2e-5       # float32 input (the library forms Hs of the source in float32)
SEAM = [350.0, 355.0, 0.0, 5.0, 10.0]
FRACTIONAL = [7.3, -33.0, 0.001, 400.5]


# ---------------------------------------------------------------------------------------------
# reference model (plain loops over bins; vectorised over the batch only)
# ---------------------------------------------------------------------------------------------
def ref_df(f):
    n = len(f)
    if n == 1:
        return [1.0]
    df = [0.0] * n
    df[0] = f[1] - f[0]
    df[-1] = f[-1] - f[-2]
    for i in range(1, n - 1):
        df[i] = (f[i + 1] - f[i - 1]) / 2.0
    return df


def ref_dd(d):
    if d is None or len(d) < 2:
        return 1.0
    dif = abs(float(d[1]) - float(d[0])) % 360.0
    return min(dif, 360.0 - dif)


def ref_hs(f, d, E):
    """Hm0 as the library defines it: 4 sqrt(sum S df [+ 0.25 S(f_last) f_last when f_last > 0.333]), S = sum_dir E * dd,
    dd from the first two stored directions (shortest way round), df = centred differences."""
    E = np.asarray(E, dtype=np.float64)
    N, nf = E.shape[0], len(f)
    df = ref_df([float(x) for x in f])
    if d is None:
        S = E
    else:
        dd = ref_dd(d)
        S = np.zeros((N, nf))
        for j in range(len(d)):
            S = S + E[:, :, j]
        S = S * dd
    m0 = np.zeros(N)
    for i in range(nf):
        m0 = m0 + S[:, i] * df[i]
    if float(f[-1]) > 0.333:
        m0 = m0 + 0.25 * S[:, -1] * float(f[-1])
    return 4.0 * np.sqrt(m0)


def freq_terms(f, t):
    """Linear in frequency between source nodes (by label), through (0, 0) below the lowest node, zero above the highest.
    -> list of (stored index, weight)."""
    order = sorted(range(len(f)), key=lambda i: f[i])
    lo, hi = f[order[0]], f[order[-1]]
    if t > hi or t < 0:
        return []
    if t < lo:
        return [(order[0], t / lo)]
    for a, b in zip(order[:-1], order[1:]):
        if f[a] <= t <= f[b]:
            if t == f[a]:
                return [(a, 1.0)]
            if t == f[b]:
                return [(b, 1.0)]
            w = (t - f[a]) / (f[b] - f[a])
            return [(a, 1.0 - w), (b, w)]
    return [(order[0], 1.0)]  # single node, t == lo


def dir_terms(d, t):
    """Circular linear interpolation by label: the nearest source label at or below t and the nearest above t, going
    round the circle (so a target between the last and the first source label uses both of them).
    Duplicate labels (0 and 360): the first stored one stands for both. -> list of (stored index, weight)."""
    labs, idx = [], []
    for j, x in enumerate(d):
        m = float(x) % 360.0
        if m not in labs:
            labs.append(m)
            idx.append(j)
    tm = float(t) % 360.0
    best_lo = best_hi = None
    for k, u in enumerate(labs):
        a = (tm - u) % 360.0
        b = (u - tm) % 360.0
        if best_lo is None or a < best_lo[0]:
            best_lo = (a, k)
        if best_hi is None or b < best_hi[0]:
            best_hi = (b, k)
    a, klo = best_lo
    b, khi = best_hi
    if a == 0.0 or klo == khi:
        return [(idx[klo], 1.0)]
    w = a / (a + b)
    return [(idx[klo], 1.0 - w), (idx[khi], w)]


def ref_interp(f, d, E, tf, td):
    """E[N,nf,nd] (or [N,nf] when d is None) -> [N,len(tf or f),len(td or d)] (or [N,ntf])."""
    E = np.asarray(E, dtype=np.float64)
    oned = d is None
    if oned:
        E = E[:, :, None]
    nf = len(f)
    nd = E.shape[2]
    fl = [float(x) for x in f]
    ft = [[(i, 1.0)] for i in range(nf)] if tf is None else [freq_terms(fl, float(t)) for t in tf]
    dt = [[(j, 1.0)] for j in range(nd)] if (td is None or oned) else [dir_terms(d, float(t)) for t in td]
    out = np.zeros((E.shape[0], len(ft), len(dt)))
    for a, fterms in enumerate(ft):
        for b, dterms in enumerate(dt):
            acc = np.zeros(E.shape[0])
            for (i, wi) in fterms:
                for (j, wj) in dterms:
                    acc = acc + (wi * wj) * E[:, i, j]
            out[:, a, b] = acc
    return out[:, :, 0] if oned else out


# ---------------------------------------------------------------------------------------------
# grids
# ---------------------------------------------------------------------------------------------
def freq_sources(seed, tier):
    off = [0.0, 0.003, 0.007][seed % 3]
    fams = [
        ("log_lo", (0.05 + off) * 1.1 ** np.arange(5)),                                 # ends below 0.333: no tail
        ("lin_hi", (0.07 + off) + 0.09 * np.arange(4)),                                # ends above 0.333: tail
        ("irr", np.array([0.04, 0.05, 0.08, 0.1, 0.31]) + off),                        # irregular; 'above' targets cross 0.333
    ]
    if tier == "thorough":
        fams.append(("irr_at", np.concatenate([np.array([0.05, 0.07, 0.12, 0.2, 0.22]) + off, [0.3331]])))
    return [(n, np.asarray(v, dtype=float)) for n, v in fams]


def freq_targets(f, tier):
    stored = np.asarray(f, dtype=float)
    f = np.sort(stored)
    mids = f[:-1] + 0.5 * np.diff(f)
    sh = f[:-1] + 0.37 * np.diff(f)
    lo, hi = f[0], f[-1]
    out = [
        ("none", None),
        ("same", stored.copy()),
        ("coarser", f[::2].copy()),
        ("finer", np.sort(np.concatenate([f, mids]))),
        ("shifted", sh),
        ("below", np.concatenate([[0.5 * lo, 0.8 * lo], f])),
        ("above", np.concatenate([f, [1.1 * hi, 1.5 * hi]])),
        ("both", np.concatenate([[0.5 * lo], sh, [1.2 * hi]])),
        ("single", np.array([0.5 * (f[len(f) // 2 - 1] + f[len(f) // 2])])),
        ("all-above", np.array([1.2 * hi, 1.5 * hi])),
        ("all-below", np.array([0.3 * lo, 0.6 * lo])),
        ("nearly-same", stored * (1.0 + 4e-6)),  # same size and order, a few ppm off: still a different grid
    ]
    if tier == "thorough":
        out += [
            ("single-node", np.array([f[1]])),
            ("with-zero", np.concatenate([[0.0], f])),
            ("straddle", np.array([0.9 * lo, 1.05 * hi])),
            ("coarser-odd", f[1::2].copy()),
        ]
    return out


def dir_base(nd, seed):
    dd = 360.0 / nd
    d0 = [0.0, 5.0, 7.5, dd / 3][(seed + nd) % 4]
    if d0 >= dd:
        d0 = dd / 2
    return d0 + dd * np.arange(nd)


def dir_sources(nd, seed, tier, few=False):
    """-> list of (kind, name, stored labels, idx) ; stored data = canonical (label-ascending, unique) data[..., idx]."""
    base = dir_base(nd, seed)
    out = []
    rots = range(nd) if not few else [0, 1]
    for r in rots:
        idx = np.roll(np.arange(nd), -r)
        out.append(("sorted" if r == 0 else "rotated", "nd%d/rot%d" % (nd, r), base[idx], idx))
    zero = 360.0 / nd * np.arange(nd)
    idx = np.concatenate([np.arange(nd), [0]])
    out.append(("dup", "nd%d/dup0-360" % nd, np.concatenate([zero, [360.0]]), idx))
    drots = range(nd) if (tier == "thorough" and not few) else [0]
    for r in drots:
        idx = np.roll(np.arange(nd)[::-1], -r)
        out.append(("desc", "nd%d/desc%d" % (nd, r), base[idx], idx))
    return out


def dir_targets(stored, tier):
    stored = np.asarray(stored, dtype=float)
    u = np.unique(stored % 360.0)
    n = len(u)
    dd = 360.0 / n
    out = [
        ("none", None),
        ("same", stored.copy()),
        ("finer", np.sort(np.concatenate([u, (u + dd / 2) % 360.0]))),
        ("shifted", (u + dd / 2) % 360.0),
        ("coarser", u[::2].copy()),
        ("seam", np.array(SEAM)),
        ("desc", u[::-1].copy()),
        ("nearly-same", stored * (1.0 - 2e-6)),
    ]
    if not np.array_equal(stored, u):
        out.append(("sorted", u.copy()))
    if tier == "thorough":
        out += [
            ("quarter", (u + dd / 4) % 360.0),
            ("finer-desc", np.sort(np.concatenate([u, (u + dd / 2) % 360.0]))[::-1].copy()),
            ("single", np.array([123.0])),
            ("rotated-order", np.roll(u, 1)),
        ]
    return out


def spectra_canon(kind, nf, nu, alpha):
    """Complete families on the canonical nf x nu grid; the all-zero spectrum always comes first."""
    if kind == "product":
        E = gen.product_array(nf * nu, alpha).reshape(-1, nf, nu)
    elif kind == "structured1":
        E = gen.structured(nf, nu, alpha, kmax=1)
    else:
        E = gen.structured(nf, nu, alpha, kmax=2)
    return np.concatenate([np.zeros((1, nf, nu)), E], axis=0)


# ---------------------------------------------------------------------------------------------
# running the real code
# ---------------------------------------------------------------------------------------------
def build(f, d, E, dtype, layout):
    import xarray as xr

    N = E.shape[0]
    data = np.asarray(E, dtype=float)
    if np.dtype(dtype).kind in "iu":  # integer-stored spectra: the values in units of the smallest positive one
        pos = data[data > 0]
        data = np.rint(data / (pos.min() if pos.size else 1.0))
    data = data.astype(dtype)
    sdims = ["freq"] + (["dir"] if d is not None else [])
    coords = {"freq": np.asarray(f, dtype=float).copy()}
    if d is not None:
        coords["dir"] = np.asarray(d, dtype=float).copy()
    if layout == "none":
        assert N == 1
        return xr.DataArray(data[0], dims=sdims, coords=coords, name="efth")
    if layout == "site":
        coords["site"] = np.arange(N)
        return xr.DataArray(data, dims=["site"] + sdims, coords=coords, name="efth")
    assert layout == "time_site" and N % 2 == 0
    data = data.reshape((2, N // 2) + data.shape[1:])
    coords["time"] = np.array(["2020-01-01T00:00:00", "2020-01-01T03:00:00"], dtype="datetime64[ns]")
    coords["site"] = np.arange(N // 2)
    return xr.DataArray(data, dims=["time", "site"] + sdims, coords=coords, name="efth")


APIS = ["interp", "list", "like", "dataset"]


def call_interp(da, f, d, tf, td, m0, api):
    import xarray as xr
    from wavespectra.core.utils import regrid_spec

    if api == "like" and (tf is None or (td is None and d is not None)):
        api = "interp"
    if api == "interp":
        return da.spec.interp(freq=None if tf is None else np.array(tf, dtype=float),
                              dir=None if td is None else np.array(td, dtype=float), maintain_m0=m0)
    if api == "list":
        return da.spec.interp(freq=None if tf is None else [float(x) for x in tf],
                              dir=None if td is None else [float(x) for x in td], maintain_m0=m0)
    if api == "like":
        if d is None:
            other = xr.DataArray(np.zeros(len(tf)), dims=["freq"], coords={"freq": np.array(tf, dtype=float)}, name="efth")
        else:
            other = xr.DataArray(np.zeros((len(tf), len(td))), dims=["freq", "dir"],
                                 coords={"freq": np.array(tf, dtype=float), "dir": np.array(td, dtype=float)}, name="efth")
        return da.spec.interp_like(other, maintain_m0=m0)
    if api == "dataset":
        ds = da.to_dataset(name="efth")
        out = regrid_spec(ds, freq=None if tf is None else np.array(tf, dtype=float),
                          dir=None if td is None else np.array(td, dtype=float), maintain_m0=m0)
        return out["efth"]
    raise ValueError(api)


def extract(out, da, want_f, want_d, N):
    """coordinate clause + values as [N, nf', nd'] ; returns (values or None, message or None)"""
    lead = [x for x in da.dims if x not in ("freq", "dir")]
    for name, want in (("freq", want_f), ("dir", want_d)):
        if want is None:
            if name in out.dims:
                return None, "result has a %s dimension the input did not have" % name
            continue
        if name not in out.dims:
            return None, "result lost the %s dimension" % name
        got = np.asarray(out[name].values, dtype=float)
        w = np.asarray(want, dtype=float)
        if got.shape != w.shape or not np.array_equal(got, w):
            return None, "returned %s coordinate %s is not the requested %s" % (name, got.tolist(), w.tolist())
    for x in lead:
        if x not in out.dims or not np.array_equal(out[x].values, da[x].values):
            return None, "leading dimension %s not kept" % x
    if set(out.dims) != set(da.dims):
        return None, "result dims %s, input dims %s" % (out.dims, da.dims)
    order = lead + ["freq"] + (["dir"] if want_d is not None else [])
    v = np.asarray(out.transpose(*order).values, dtype=np.float64)
    return v.reshape((N,) + v.shape[len(lead):]), None


def first_bad(mask2):
    """mask2[N, ...] -> (row, index tuple) of the first True"""
    i = np.argwhere(mask2)[0]
    return int(i[0]), tuple(int(x) for x in i[1:])


def eval_interp(f, d, E, tf, td, m0, api="interp", layout="site", dtype="float64", da=None):
    """-> (list of (row, clause, message), info)"""
    common.load_wavespectra()
    f = np.asarray(f, dtype=float)
    d = None if d is None else np.asarray(d, dtype=float)
    E = np.asarray(E, dtype=float)
    N = E.shape[0]
    if da is None:
        da = build(f, d, E, dtype, layout)
    Eu = np.asarray(da.values, dtype=np.float64).reshape(E.shape)
    tol = TOL_F8 if (np.dtype(dtype) == np.float64 or np.dtype(dtype).kind in "iu") else TOL_F4
    bad = []
    info = {"ood": 0, "checked": 0}
    try:
        out = call_interp(da, f, d, tf, td, m0, api)
    except Exception as e:  # noqa
        return [(0, "raises-" + type(e).__name__, "%s raised %s: %s" % (api, type(e).__name__, str(e)[:200]))], info
    gf = f if tf is None else np.asarray(tf, dtype=float)
    gd = d if (td is None or d is None) else np.asarray(td, dtype=float)
    got, msg = extract(out, da, gf, gd, N)
    if got is None:
        return [(0, "coords", msg)], info
    R = ref_interp(f, d, Eu, tf, td)
    zero_in = ~(Eu.reshape(N, -1) != 0).any(axis=1)
    rmax = np.abs(R).reshape(N, -1).max(axis=1)
    if m0:
        hin = ref_hs(f, d, Eu)
        hout = ref_hs(gf, gd, R)
        dom = (hout > 0) | zero_in
        with np.errstate(all="ignore"):
            sc = np.where(hout > 0, hin ** 2 / hout ** 2, 0.0)
        exp = R * sc.reshape((N,) + (1,) * (R.ndim - 1))
    else:
        hin = None
        dom = np.ones(N, dtype=bool)
        exp = R
    info["ood"] = int((~dom).sum())
    info["checked"] = int(dom.sum())
    flat = got.reshape(N, -1)
    # -- finite
    nonfin = ~np.isfinite(flat).all(axis=1)
    m = nonfin & dom
    if m.any():
        for sel, lab in ((m & zero_in, "zero"), (m & ~zero_in, "nonzero")):
            if sel.any():
                r = int(np.argwhere(sel)[0][0])
                bad.append((r, "maintain_m0-finite" if m0 else "finite",
                            "result holds %d non-finite values (first %r) for a %s spectrum; expected max %g" % (
                                int((~np.isfinite(flat[r])).sum()), float(flat[r][~np.isfinite(flat[r])][0]),
                                "all-zero" if lab == "zero" else "non-zero", float(np.abs(exp[r]).max()))))
    ok = dom & ~nonfin
    okx = ok.reshape((N,) + (1,) * (got.ndim - 1))
    with np.errstate(all="ignore"):
        # -- non-negativity
        neg = (got < 0) & okx
        if neg.any():
            r, ix = first_bad(neg)
            bad.append((r, "nonneg", "negative energy %r at target bin %s from non-negative input" % (float(got[(r,) + ix]), ix)))
        # -- zero above the highest source frequency
        if tf is not None:
            for a, t in enumerate(gf):
                if t > f.max():
                    nz = (got[:, a] != 0).reshape(N, -1).any(axis=1) & ok
                    if nz.any():
                        r = int(np.argwhere(nz)[0][0])
                        bad.append((r, "zero-above", "energy %r at target frequency %r above the highest source frequency %r" % (
                            float(np.abs(got[r, a]).max()), float(t), float(f.max()))))
                        break
        # -- the interpolant itself
        scale = np.abs(exp).reshape(N, -1).max(axis=1).reshape((N,) + (1,) * (got.ndim - 1))
        dev = (np.abs(got - exp) > tol * scale + 1e-300) & okx
        if dev.any():
            r, ix = first_bad(dev)
            clause = "piecewise-linear"
            if gd is not None and td is not None and d is not None:
                labs = d % 360.0
                t = float(gd[ix[-1]]) % 360.0
                if t < labs.min() or t > labs.max():
                    clause = "seam-neighbours"
            bad.append((r, clause, "target bin %s (freq %s, dir %s): got %r, reference %s %r" % (
                ix, float(gf[ix[0]]), None if gd is None else float(gd[ix[-1]]), float(got[(r,) + ix]),
                "interpolant scaled to the source Hs" if m0 else "interpolant", float(exp[(r,) + ix]))))
        # -- identity on the source grid
        same_f = tf is None or (len(gf) == len(f) and np.array_equal(gf, f))
        same_d = d is None or td is None or (len(gd) == len(d) and np.array_equal(gd, d))
        if same_f and same_d and not (tf is None and td is None):
            sc0 = np.abs(Eu).reshape(N, -1).max(axis=1).reshape((N,) + (1,) * (got.ndim - 1))
            dev = (np.abs(got - Eu) > TOL_ID * sc0 + 1e-300) & okx
            if np.dtype(dtype) == np.float64 and dev.any():
                r, ix = first_bad(dev)
                bad.append((r, "identity", "target grid equals source grid but bin %s changed from %r to %r" % (
                    ix, float(Eu[(r,) + ix]), float(got[(r,) + ix]))))
        # -- Hs conserved
        if m0:
            hg = ref_hs(gf, gd, np.where(okx, got, 0.0))
            dev = (np.abs(hg - hin) > tol * hin + 1e-300) & ok
            if dev.any():
                r = int(np.argwhere(dev)[0][0])
                bad.append((r, "hs-conserved", "Hs of the result %r != Hs of the source %r" % (float(hg[r]), float(hin[r]))))
    return bad, info


def angle_kind(angle, d):
    u = np.unique(np.asarray(d, dtype=float) % 360.0)
    dd = 360.0 / len(u)
    k = angle / dd
    if float(angle) % 360.0 == 0.0:
        return "multiple-of-360"
    if k == round(k):
        return "whole-bins"
    return "fractional"


def eval_rotate(f, d, E, angle, src_kind, layout="site", dtype="float64", da=None):
    common.load_wavespectra()
    f = np.asarray(f, dtype=float)
    d = np.asarray(d, dtype=float)
    E = np.asarray(E, dtype=float)
    N = E.shape[0]
    if da is None:
        da = build(f, d, E, dtype, layout)
    Eu = np.asarray(da.values, dtype=np.float64).reshape(E.shape)
    tol = TOL_F8 if (np.dtype(dtype) == np.float64 or np.dtype(dtype).kind in "iu") else TOL_F4
    bad = []
    info = {"ood": 0, "checked": N}
    try:
        out = da.spec.rotate(angle)
    except Exception as e:  # noqa
        return [(0, "raises-" + type(e).__name__, "rotate(%r) raised %s: %s" % (angle, type(e).__name__, str(e)[:200]))], info
    got, msg = extract(out, da, f, d, N)
    if got is None:
        return [(0, "coords", msg)], info
    labels = (d + angle) % 360.0           # where the stored bins sit after the rotation
    R = ref_interp(f, labels, Eu, None, d)
    zero_in = ~(Eu.reshape(N, -1) != 0).any(axis=1)
    hin = ref_hs(f, d, Eu)
    hout = ref_hs(f, d, R)
    dom = (hout > 0) | zero_in
    with np.errstate(all="ignore"):
        sc = np.where(hout > 0, hin ** 2 / hout ** 2, 0.0)
    exp = R * sc[:, None, None]
    info["ood"] = int((~dom).sum())
    info["checked"] = int(dom.sum())
    flat = got.reshape(N, -1)
    nonfin = ~np.isfinite(flat).all(axis=1)
    m = nonfin & dom
    for sel, lab in ((m & zero_in, "all-zero"), (m & ~zero_in, "non-zero")):
        if sel.any():
            r = int(np.argwhere(sel)[0][0])
            bad.append((r, "maintain_m0-finite", "rotate(%r) holds %d non-finite values for a %s spectrum" % (
                angle, int((~np.isfinite(flat[r])).sum()), lab)))
    ok = dom & ~nonfin
    okx = ok[:, None, None]
    kind = angle_kind(angle, d)
    with np.errstate(all="ignore"):
        neg = (got < 0) & okx
        if neg.any():
            r, ix = first_bad(neg)
            bad.append((r, "nonneg", "rotate(%r): negative energy %r at bin %s" % (angle, float(got[(r,) + ix]), ix)))
        hg = ref_hs(f, d, np.where(okx, got, 0.0))
        dev = (np.abs(hg - hin) > tol * hin + 1e-300) & ok
        if dev.any():
            r = int(np.argwhere(dev)[0][0])
            bad.append((r, "hs-kept", "rotate(%r): Hs %r != Hs of the source %r" % (angle, float(hg[r]), float(hin[r]))))
        scale = np.abs(Eu).reshape(N, -1).max(axis=1)[:, None, None]
        if kind == "multiple-of-360" and np.dtype(dtype) == np.float64:
            dev = (np.abs(got - Eu) > TOL_ID * scale + 1e-300) & okx
            if dev.any():
                r, ix = first_bad(dev)
                bad.append((r, "360-identity", "rotate(%r) changed bin %s from %r to %r" % (
                    angle, ix, float(Eu[(r,) + ix]), float(got[(r,) + ix]))))
        elif kind == "whole-bins" and src_kind in ("sorted", "rotated", "desc") and np.dtype(dtype) == np.float64:
            k = int(round(angle / (360.0 / len(d))))
            rolled = np.roll(Eu, k if src_kind != "desc" else -k, axis=2)
            dev = (np.abs(got - rolled) > TOL_ID * scale + 1e-300) & okx
            if dev.any():
                r, ix = first_bad(dev)
                bad.append((r, "roll", "rotate by %d bins (%r deg) is not the data shifted circularly by %d bins: bin %s got %r expected %r" % (
                    k, angle, k, ix, float(got[(r,) + ix]), float(rolled[(r,) + ix]))))
        dev = (np.abs(got - exp) > tol * np.abs(exp).reshape(N, -1).max(axis=1)[:, None, None] + 1e-300) & okx
        if dev.any():
            r, ix = first_bad(dev)
            bad.append((r, "shifted-interpolant", "rotate(%r): bin %s (dir %r) got %r, circular interpolant of the shifted bins gives %r" % (
                angle, ix, float(d[ix[-1]]), float(got[(r,) + ix]), float(exp[(r,) + ix]))))
    return bad, info


# ---------------------------------------------------------------------------------------------
# signatures / replay
# ---------------------------------------------------------------------------------------------
def signature(case, clause):
    E = np.asarray(case["efth"], dtype=float)
    op = case["op"]
    if not (E != 0).any():
        return "%s|%s|zero-spectrum" % (op, clause)
    if op == "rotate":
        pred = "src=%s,angle=%s" % (case.get("src_kind", "?"), angle_kind(float(case["angle"]), case["d"]))
    else:
        pred = "src=%s,tf=%s,td=%s,m0=%s" % (case.get("src_kind", "?"), case.get("tf_name", "?"), case.get("td_name", "?"),
                                             bool(case.get("m0", True)))
    if case.get("dtype", "float64") != "float64":
        pred += ",float32"
    return "%s|%s|%s" % (op, clause, pred)


def replay(case):
    common.load_wavespectra()
    f = np.asarray(case["f"], dtype=float)
    d = None if case.get("d") is None else np.asarray(case["d"], dtype=float)
    E = np.asarray(case["efth"], dtype=float)[None]
    dtype = case.get("dtype", "float64")
    if case["op"] == "rotate":
        bad, _ = eval_rotate(f, d, E, float(case["angle"]), case.get("src_kind", "sorted"), layout="none", dtype=dtype)
    else:
        tf = None if case.get("tf") is None else np.asarray(case["tf"], dtype=float)
        td = None if case.get("td") is None else np.asarray(case["td"], dtype=float)
        bad, _ = eval_interp(f, d, E, tf, td, bool(case.get("m0", True)), api=case.get("api", "interp"), layout="none", dtype=dtype)
    return [Violation(PROP, signature(case, clause), msg, dict(case)) for (_, clause, msg) in bad]


def report(res, seen, case_base, E, bad, layout):
    """confirm every batched failure on the single spectrum (this is what --replay runs) before reporting it"""
    for (r, clause, msg) in bad:
        case = dict(case_base, efth=E[r], layout="none")
        sig = signature(case, clause)
        if sig in seen:
            continue
        seen.add(sig)
        vs = [v for v in replay(case) if v.signature == sig]
        if vs:
            res["violations"].append(vs[0])
        else:
            res["violations"].append(Violation(PROP, sig.rsplit("|", 1)[0] + "|batched-only", "seen only inside a batch (layout %s): %s" % (layout, msg),
                                               dict(case, layout=layout, note="single-spectrum replay passes")))


# ---------------------------------------------------------------------------------------------
# work items
# ---------------------------------------------------------------------------------------------
def make_source(it):
    """-> f, stored d (or None), stored E[N,nf,nd]"""
    f = np.asarray(it["f"], dtype=float)
    if it["d"] is None:
        E = np.concatenate([np.zeros((1, len(f))), gen.product_array(len(f), it["alpha"])], axis=0)
        return f, None, E * it.get("scale", 1.0)
    idx = np.asarray(it["idx"], dtype=int)
    nu = int(idx.max()) + 1
    Ec = spectra_canon(it["family"], len(f), nu, it["alpha"])
    return f, np.asarray(it["d"], dtype=float), Ec[:, :, idx] * it.get("scale", 1.0)


def new_res():
    return {"evals": 0, "n_nontrivial": 0, "samples": [], "outcomes": {}, "violations": [], "parts": {}}


def bump(res, key, n=1):
    res["outcomes"][key] = res["outcomes"].get(key, 0) + n


def run_interp_item(it):
    f, d, E = make_source(it)
    N = E.shape[0]
    res = new_res()
    seen = set()
    tier = it["tier"]
    layout, dtype = it.get("layout", "site"), it.get("dtype", "float64")
    if layout == "time_site" and N % 2:
        E = np.concatenate([E, E[-1:]], axis=0)
        N += 1
    da = build(f, d, E, dtype, layout)
    nonzero = int((E.reshape(N, -1) != 0).any(axis=1).sum())
    tfs = [t for t in freq_targets(f, tier) if t[0] in it["tf_names"]] if it.get("tf_names") else freq_targets(f, tier)
    tds = [("none", None)] if d is None else dir_targets(d, tier)
    if it.get("td_names"):
        tds = [t for t in tds if t[0] in it["td_names"]]
    c = it.get("api_offset", 0)
    for (tfn, tf) in tfs:
        for (tdn, td) in tds:
            if tf is None and td is None:
                continue
            for m0 in it.get("m0s", (False, True)):
                apis = it["apis"] if it.get("apis") else [APIS[c % len(APIS)]]
                c += 1
                for api in apis:
                    bad, info = eval_interp(f, d, E, tf, td, m0, api=api, layout=layout, dtype=dtype, da=da)
                    res["evals"] += N
                    same = tfn in ("none", "same") and tdn in ("none", "same")
                    if not same:
                        res["n_nontrivial"] += nonzero
                    bump(res, "interp:m0=%s:checked" % m0, info["checked"])
                    if info["ood"]:
                        bump(res, "interp:m0=True:out-of-domain(no energy reaches the target)", info["ood"])
                    if bad:
                        case = dict(op="interp", f=f, d=d, tf=tf, td=td, m0=m0, api=api, dtype=dtype, src_kind=it["src_kind"],
                                    tf_name=tfn, td_name=tdn, grid=it["name"])
                        report(res, seen, case, E, bad, layout)
    res["parts"][it["part"]] = res["evals"]
    if it.get("sample"):
        j = min(N - 1, 3 * N // 4)
        tf = tfs[min(len(tfs) - 1, 6)][1]
        td = tds[min(len(tds) - 1, 5)][1]
        try:
            out = call_interp(build(f, d, E[j:j + 1], "float64", "none"), f, d, tf, td, True, "interp")
            res["samples"].append(dict(op="interp", grid=it["name"], freq=f, dir=d, efth=E[j], target_freq=tf, target_dir=td,
                                       maintain_m0=True, result_dims=list(out.dims), result=np.asarray(out.values)))
        except Exception:  # noqa  (already reported as a raises-* violation by the enumeration above)
            pass
    return res


def angles_for(d, tier):
    u = np.unique(np.asarray(d, dtype=float) % 360.0)
    n = len(u)
    dd = 360.0 / n
    ks = [0] + [s * k for k in range(1, n + 1) for s in (1, -1)]
    out = [k * dd for k in ks] + [720.0] + FRACTIONAL
    if tier == "thorough":
        out += [-720.0, dd / 2, -dd / 2, 359.999, 180.0 + dd / 4, 1e-9]
    seen, res = set(), []
    for a in out:
        if a not in seen:
            seen.add(a)
            res.append(float(a))
    return res


def run_rotate_item(it):
    f, d, E = make_source(it)
    N = E.shape[0]
    res = new_res()
    seen = set()
    layout, dtype = it.get("layout", "site"), it.get("dtype", "float64")
    if layout == "time_site" and N % 2:
        E = np.concatenate([E, E[-1:]], axis=0)
        N += 1
    da = build(f, d, E, dtype, layout)
    nonzero = int((E.reshape(N, -1) != 0).any(axis=1).sum())
    for angle in angles_for(d, it["tier"]):
        bad, info = eval_rotate(f, d, E, angle, it["src_kind"], layout=layout, dtype=dtype, da=da)
        res["evals"] += N
        kind = angle_kind(angle, d)
        if angle != 0.0:
            res["n_nontrivial"] += nonzero
        bump(res, "rotate:%s:checked" % kind, info["checked"])
        if bad:
            case = dict(op="rotate", f=f, d=d, angle=angle, dtype=dtype, src_kind=it["src_kind"], grid=it["name"])
            report(res, seen, case, E, bad, layout)
    res["parts"][it["part"]] = res["evals"]
    if it.get("sample"):
        j = min(N - 1, N // 2)
        try:
            out = build(f, d, E[j:j + 1], "float64", "none").spec.rotate(7.3)
            res["samples"].append(dict(op="rotate", grid=it["name"], freq=f, dir=d, efth=E[j], angle=7.3, result=np.asarray(out.values)))
        except Exception:  # noqa
            pass
    return res


def run_singles_item(it):
    """no leading dimension at all: a handful of spectra one by one through every api"""
    f, d, E = make_source(it)
    res = new_res()
    seen = set()
    N = E.shape[0]
    picks = sorted(set([0, 1, N // 2, N - 1]))
    for r in picks:
        for (tfn, tf) in freq_targets(f, "quick"):
            for (tdn, td) in dir_targets(d, "quick"):
                if (tfn, tdn) not in (("both", "seam"), ("same", "same"), ("finer", "none"), ("none", "shifted"), ("all-above", "coarser")):
                    continue
                for m0 in (False, True):
                    for api in APIS:
                        case = dict(op="interp", f=f, d=d, tf=tf, td=td, m0=m0, api=api, dtype="float64", src_kind=it["src_kind"],
                                    tf_name=tfn, td_name=tdn, grid=it["name"], efth=E[r], layout="none")
                        res["evals"] += 1
                        res["n_nontrivial"] += int((E[r] != 0).any())
                        for v in replay(case):
                            if v.signature not in seen:
                                seen.add(v.signature)
                                res["violations"].append(v)
        for angle in (0.0, 360.0 / (len(np.unique(d % 360.0))), -33.0, 360.0):
            case = dict(op="rotate", f=f, d=d, angle=angle, dtype="float64", src_kind=it["src_kind"], grid=it["name"], efth=E[r], layout="none")
            res["evals"] += 1
            for v in replay(case):
                if v.signature not in seen:
                    seen.add(v.signature)
                    res["violations"].append(v)
    res["parts"][it["part"]] = res["evals"]
    return res


def run_item(it):
    common.load_wavespectra()
    return {"interp": run_interp_item, "rotate": run_rotate_item, "singles": run_singles_item}[it["runner"]](it)


def work_items(tier, seed):
    alpha = gen.alphabet(seed, 3)
    alpha_p = gen.alphabet(seed, 3 if tier == "quick" else 4)
    quick = tier == "quick"
    items = []
    fams = freq_sources(seed, tier)
    nds = [4, 8] if quick else [4, 6, 8]
    # A. structured families (zero, constants, every impulse, every impulse pair x height pair, ramps, checkerboards).
    #    quick: stored orders rotated by >= 2 positions meet every direction target but only the frequency targets
    #    {unchanged, both} (the stored direction order cannot reach the frequency step); thorough: full product.
    for nd in nds:
        for fi, (fname, f) in enumerate(fams):
            for si, (kind, dname, dst, idx) in enumerate(dir_sources(nd, seed, tier)):
                name = "%s/%s" % (fname, dname)
                base = dict(f=f, d=dst, idx=idx, alpha=alpha, family="structured", src_kind=kind, name=name, tier=tier)
                tfn = [t[0] for t in freq_targets(f, tier)]
                if quick and kind == "rotated" and not dname.endswith("rot1"):
                    items.append(dict(base, runner="interp", part="interp/structured", tf_names=["none", "both"], api_offset=si))
                else:
                    for g in range(0, len(tfn), 3):
                        items.append(dict(base, runner="interp", part="interp/structured", tf_names=tfn[g:g + 3], api_offset=g + si,
                                          sample=(g == 6 and si == 1 and nd == 4)))
                items.append(dict(base, runner="rotate", part="rotate/structured", sample=(si == 0 and fi == 0 and nd == 4)))
    # B. full products on 6 distinct cells for the non-linear maintain_m0=True path (2- and 3-direction circles)
    for (nf_, nd) in ((2, 3), (3, 2)):
        fsrc = [("log2", fams[0][1][:2]), ("lin2_hi", fams[1][1][-2:])] if nf_ == 2 else [("irr3", fams[2][1][[1, 3, 4]])]
        for fname, f in fsrc:
            for si, (kind, dname, dst, idx) in enumerate(dir_sources(nd, seed, tier, few=quick)):
                name = "%s/%s" % (fname, dname)
                base = dict(f=f, d=dst, idx=idx, alpha=alpha_p, family="product", src_kind=kind, name=name, tier=tier)
                items.append(dict(base, runner="interp", part="interp/product", api_offset=si, sample=(si == 2 and nd == 3),
                                  m0s=(True,) if quick else (False, True)))
                items.append(dict(base, runner="rotate", part="rotate/product"))
    # B2. the same products at extreme energy scales (Hs of 1e-9 m and 1e6 m): conservation is a relative statement
    for (nf_, nd) in ((2, 3),):
        for fname, f in [("log2", fams[0][1][:2]), ("lin2_hi", fams[1][1][-2:])]:
            for si, (kind, dname, dst, idx) in enumerate(dir_sources(nd, seed, tier, few=True)[:2]):
                for scale in (1e-20, 1e-16, 1e12):
                    base = dict(f=f, d=dst, idx=idx, alpha=alpha, family="product", src_kind=kind, name="%s/%s" % (fname, dname), tier=tier, scale=scale)
                    items.append(dict(base, runner="interp", part="interp/product-extreme-scale", api_offset=si, m0s=(True,)))
                    items.append(dict(base, runner="rotate", part="rotate/product-extreme-scale"))
    # C. frequency-only spectra (no direction dimension), full product
    for fname, f in fams:
        f1 = f[:5] if quick else f
        items.append(dict(f=f1, d=None, idx=None, alpha=alpha_p if len(f1) <= 5 else alpha, family="product", src_kind="1d", name=fname + "/1d", tier=tier,
                          runner="interp", part="interp/1d", apis=APIS))
    # D. every api x leading-dimension layout x dtype on a reduced set; plus spectra with no leading dimension
    for fi, (fname, f) in enumerate(fams):
        for (kind, dname, dst, idx) in dir_sources(4, seed, tier, few=True):
            if quick and kind not in ("sorted", "dup"):
                continue
            name = "%s/%s" % (fname, dname)
            base = dict(f=f, d=dst, idx=idx, alpha=alpha, family="structured1", src_kind=kind, name=name, tier=tier)
            for layout, dtype in (("time_site", "float64"), ("site", "float32"), ("time_site", "float32"), ("site", "int64")):
                items.append(dict(base, runner="interp", part="interp/api-layout-dtype", apis=APIS, layout=layout, dtype=dtype,
                                  tf_names=["none", "same", "both"] if quick else ["none", "same", "finer", "both", "all-above"],
                                  td_names=["none", "same", "seam"] if quick else ["none", "same", "shifted", "seam", "desc"]))
                items.append(dict(base, runner="rotate", part="rotate/layout-dtype", layout=layout, dtype=dtype))
            items.append(dict(base, runner="singles", part="no-leading-dim"))
    # E. source stored with descending frequencies: label-based interpolation (maintain_m0=False only: Hs is not
    #    defined by the library for a descending frequency axis)
    for fname, f in fams:
        for (kind, dname, dst, idx) in dir_sources(4, seed, tier, few=True)[:1]:
            items.append(dict(f=f[::-1].copy(), d=dst, idx=idx, alpha=alpha, family="structured1", src_kind="freq-desc", name=fname + "-desc/" + dname,
                              tier=tier, runner="interp", part="interp/freq-descending-source", m0s=(False,),
                              tf_names=["same", "finer", "shifted", "below", "above", "both", "single"]))
    # simplest first: fewest bins, then enumeration order
    order = sorted(range(len(items)), key=lambda i: (len(items[i]["f"]) * (1 if items[i]["d"] is None else len(items[i]["d"])), i))
    return [items[i] for i in order]


def run(rep, tier, seed, parts=None):
    common.load_wavespectra()
    rep.rule = (
        "sources = 3 (thorough 4) frequency families (log <0.333 Hz, linear ending >0.333 Hz, irregular) x direction circles nd in {4,8} "
        "(thorough + 6) stored ascending / every rotation of the stored order / descending / with a duplicated 0-and-360 bin (duplicate "
        "holds the same data); targets = frequency sets {unchanged, same, the same grid a few ppm off, coarser, finer, shifted, reaching below, reaching above, both, "
        "single value, all above, all below} x direction sets {unchanged, same as stored, half-bin finer, half-bin shifted, coarser, "
        "[350,355,0,5,10], descending, ascending} x maintain_m0 {False, True}; spectra = all-zero + constants + every impulse + every "
        "impulse pair with every height pair + ramps + checkerboards of a 3-value alphabet, batched along a leading dimension; full "
        "products over all bins on 2x3, 3x2, 2x2 grids and on frequency-only spectra; rotate: every whole number of bins -nd..nd, 720, "
        "7.3, -33, 0.001, 400.5; every api (interp with arrays / lists, interp_like, regrid_spec on a Dataset) cyclically and all of "
        "them x (time,site) layout x float32 on a reduced set; no-leading-dimension single spectra; sources stored with descending "
        "frequencies (maintain_m0=False). Quick tier only: stored orders rotated by >=2 positions meet every direction target but only "
        "the frequency targets {unchanged, both}; products run maintain_m0=True only. Non-trivial = non-zero spectrum on "
        "a target grid different from the source grid (rotate: angle != 0).")
    rep.assumptions = [
        "maintain_m0=True: a spectrum with energy whose interpolant puts no energy at all on the target grid (target entirely above the source "
        "range, or a coarser direction set that misses every occupied bin) is out of domain for every clause except the returned "
        "coordinates: nothing can be conserved there (counted under distinct_outcomes). The all-zero spectrum is in domain: zeros expected.",
        "Hs is the library's definition re-implemented bin by bin (dd = shortest arc between the first two stored directions, centred df, tail "
        "term when the last frequency > 0.333 Hz); a duplicated 0/360 bin therefore counts twice on both sides",
        "the duplicated 360 bin holds the same data as the 0 bin (otherwise 'the' value at that direction is not defined)",
        "target directions lie in [0,360]; source labels outside [0,360) and single-frequency sources are not enumerated",
        "identity / whole-bin shift are compared at 1e-12 relative to the spectrum maximum (observed bitwise), interpolant and Hs at 1e-9 "
        "(2e-5 for float32 input, which the library sums in float32)",
        "sources stored with descending frequencies are checked with maintain_m0=False only (the library's Hs is not defined for them)",
    ]
    rep.extra["alphabet"] = list(gen.alphabet(seed, 3))
    items = work_items(tier, seed)
    if parts:
        items = [it for it in items if any(it["part"].startswith(p) for p in parts)]
    rep.extra["work_items"] = len(items)
    for res in common.pmap(run_item, items):
        rep.merge(res)
